//! C16: numeric literals and number/text conversions are exact.
#![no_main]
use libfuzzer_sys::fuzz_target;
use std::sync::OnceLock;
use vfuzz::{c16, mach};

static KNOWN: OnceLock<Vec<String>> = OnceLock::new();

fuzz_target!(|data: &[u8]| {
    mach::init();
    let known = KNOWN.get_or_init(|| mach::known_open("C16", include_str!("../../known/C16.json")));
    let case = c16::Case::decode(data);
    if mach::show() {
        eprintln!("case: {case:?}");
    }
    mach::settle_confirmed("C16", known, || c16::check(&case, known));
});
