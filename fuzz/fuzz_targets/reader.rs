//! C17: malformed input never crashes or desynchronises the reader.
#![no_main]
use libfuzzer_sys::fuzz_target;
use std::sync::OnceLock;
use vfuzz::{c17, mach};

static KNOWN: OnceLock<Vec<String>> = OnceLock::new();

fuzz_target!(|data: &[u8]| {
    mach::init();
    let known = KNOWN.get_or_init(|| mach::known_open("C17", include_str!("../../known/C17.json")));
    if mach::show() {
        eprintln!("case: text {:?}", String::from_utf8_lossy(data));
    }
    mach::settle_confirmed("C17", known, || c17::check(data));
});
