//! C18: text decoding does not depend on how the input arrives (CharReader level).
#![no_main]
use libfuzzer_sys::fuzz_target;
use std::sync::OnceLock;
use vfuzz::{c18, mach};

static KNOWN: OnceLock<Vec<String>> = OnceLock::new();

fuzz_target!(|data: &[u8]| {
    mach::init();
    let known = KNOWN.get_or_init(|| mach::known_open("C18", include_str!("../../known/C18.json")));
    let case = c18::Case::decode(data);
    if mach::show() {
        eprintln!("case: {case:?}");
    }
    mach::settle("C18", known, c18::check(&case, known));
});
