//! Witness, not a fuzz target of a property (the input is ignored): dropping a `QueryState`
//! after its first answer while the goal still has choice points leaves the machine in a state in
//! which the NEXT query panics when it is dropped (`Heap::truncate` with a garbage offset,
//! src/machine/heap.rs:1017, reached from `QueryState::drop` -> `Machine::trust_me`). Met by the
//! `roundtrip` target before its queries were wrapped in once/1. See FUZZ_NOTES.md.
//!   cargo +nightly fuzz build --fuzz-dir fuzz qdrop && fuzz/target/.../release/qdrop -runs=0 <any file>
#![no_main]
use libfuzzer_sys::fuzz_target;
use scryer_prolog::{MachineBuilder, StreamConfig};

const PROGRAM: &str = r#"
:- use_module(library(charsio)).
:- use_module(library(lists)).
cc([], []).
cc([C|Cs], [Ch|Chs]) :- char_code(Ch, C), cc(Cs, Chs).
each([], _, []).
each([Opts|Os], T, [R|Rs]) :-
    catch(( write_term_to_chars(T, Opts, Cs),
            cc(_Codes, Cs),
            append(Cs, " .", Cs1),
            catch(( read_term_from_chars(Cs1, T2, []), ( T == T2 -> R = ok ; R = mismatch ) ), _, R = readerr) ),
          _, R = writeerr),
    each(Os, T, Rs).
"#;

fuzz_target!(|data: &[u8]| {
    let _ = data;
    let mut m = MachineBuilder::default().with_streams(StreamConfig::in_memory()).build();
    m.consult_module_string("user", PROGRAM);
    for q in ["each([[quoted(true)]], a, R).", "true."] {
        eprintln!("query {q}");
        let mut it = m.run_query(q);
        let a = it.next();
        eprintln!("  first answer {a:?}");
        drop(it); // the second drop panics
    }
    eprintln!("done (no panic)");
});
