//! C33: heap writes never exceed the reserved capacity (raw Heap operations, ASan + byte model).
#![no_main]
use libfuzzer_sys::fuzz_target;
use std::sync::OnceLock;
use vfuzz::{c33, mach};

static KNOWN: OnceLock<Vec<String>> = OnceLock::new();

fuzz_target!(|data: &[u8]| {
    mach::init();
    let known = KNOWN.get_or_init(|| mach::known_open("C33", include_str!("../../known/C33.json")));
    let case = c33::Case::decode(data);
    if mach::show() {
        eprintln!("case: {case:?}");
    }
    mach::settle("C33", known, c33::check(&case));
});
