//! C15: printed terms read back as the same term.
#![no_main]
use libfuzzer_sys::fuzz_target;
use std::sync::OnceLock;
use vfuzz::{c15, mach};

static KNOWN: OnceLock<Vec<String>> = OnceLock::new();

fuzz_target!(|data: &[u8]| {
    mach::init();
    let known = KNOWN.get_or_init(|| mach::known_open("C15", include_str!("../../known/C15.json")));
    let case = c15::Case::decode(data);
    if mach::show() {
        eprintln!("case: {case:?}");
    }
    mach::settle_confirmed("C15", known, || c15::check(&case));
});
