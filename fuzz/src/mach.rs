//! Plumbing shared by the fuzz targets: panic capture, known-finding allowlist, failure
//! reporting, and the lazily created Prolog machine of the machine-level targets.
use scryer_prolog::{LeafAnswer, Machine, MachineBuilder, StreamConfig, Term};
use std::cell::RefCell;
use std::panic::{catch_unwind, AssertUnwindSafe};
use std::sync::Once;

// ---------------------------------------------------------------------------------------------
// panic capture
//
// libfuzzer-sys installs a panic hook that aborts the process on every panic. The targets need
// to look at a panic (where did it come from? is it a listed known finding?) before deciding,
// so the first execution replaces that hook by one that only records message and location; the
// target then aborts itself through `violation` when the panic is not tolerated. A panic that
// is not caught by a target still ends the process: libfuzzer-sys aborts when the closure of
// `fuzz_target!` unwinds.

thread_local! {
    static LAST_PANIC: RefCell<Option<String>> = const { RefCell::new(None) };
}

/// `repo:src/...:LINE` for scryer-prolog sources, `dep:<crate>/src/...:LINE` for third-party
/// crates and std, `fuzz:...` for the fuzz crate and the harness files it includes. Same
/// convention as harness/src/session.rs so that signatures agree with known_findings.json.
pub fn norm_loc(file: &str, line: u32) -> String {
    // the fuzz crate is the workspace root, so its own files have relative paths; scryer-prolog
    // is a path dependency outside the workspace and gets absolute ones
    if file.starts_with("fuzz_targets/") || file.starts_with("src/") || file.contains("/fuzz/src/") || file.contains("/fuzz/fuzz_targets/") || file.contains("/harness/src/") {
        return format!("fuzz:{file}:{line}");
    }
    if file.contains("/.cargo/registry/") || file.contains("/rustc/") || file.contains("/rustlib/") {
        let parts: Vec<&str> = file.split('/').collect();
        if let Some(i) = parts.iter().rposition(|p| *p == "src") {
            if i > 0 {
                return format!("dep:{}:{line}", parts[i - 1..].join("/"));
            }
        }
        return format!("dep:{file}:{line}");
    }
    match file.rfind("/src/") {
        Some(i) => format!("repo:{}:{line}", &file[i + 1..]),
        None => format!("repo:{file}:{line}"),
    }
}

static HOOK: Once = Once::new();

/// Must be called at the start of every execution (cheap after the first).
pub fn init() {
    HOOK.call_once(|| {
        unsafe {
            libc::atexit(print_tolerated);
        }
        std::panic::set_hook(Box::new(|info| {
            let loc = info.location().map(|l| norm_loc(l.file(), l.line())).unwrap_or_default();
            let msg = if let Some(s) = info.payload().downcast_ref::<&str>() {
                s.to_string()
            } else if let Some(s) = info.payload().downcast_ref::<String>() {
                s.clone()
            } else {
                "<non-string panic>".to_string()
            };
            let short: String = msg.chars().take(400).collect();
            if std::env::var_os("VFUZZ_VERBOSE").is_some() {
                eprintln!("panic: {loc} {short}");
            }
            if std::env::var_os("VFUZZ_BACKTRACE").is_some() {
                eprintln!("{}", std::backtrace::Backtrace::force_capture());
            }
            LAST_PANIC.with(|p| *p.borrow_mut() = Some(format!("{loc} {short}")));
        }));
    });
}

pub fn take_last_panic() -> String {
    LAST_PANIC.with(|p| p.borrow_mut().take()).unwrap_or_else(|| "<unknown panic>".into())
}

/// Runs `f`; a panic becomes `Err("<loc> <message>")`. A panic raised by the fuzz crate itself
/// (oracle self-check) is never turned into a verdict on scryer: it aborts as `harness-bug`.
pub fn guarded<T>(f: impl FnOnce() -> T) -> Result<T, String> {
    match catch_unwind(AssertUnwindSafe(f)) {
        Ok(v) => Ok(v),
        Err(_) => {
            let p = take_last_panic();
            if p.starts_with("fuzz:") {
                eprintln!("VFUZZ-HARNESS-BUG {p}");
                std::process::abort();
            }
            Err(p)
        }
    }
}

pub fn panic_sig(p: &str) -> String {
    format!("panic:{}", p.split_whitespace().next().unwrap_or("?"))
}

// ---------------------------------------------------------------------------------------------
// known findings

/// Signatures of the open known findings of `prop`: `$VERIF_ROOT/known_findings.json` and
/// `$VERIF_ROOT/known/<prop>.json` when VERIF_ROOT is set (the stage scripts set it), plus the
/// copy of known/<prop>.json compiled into the target.
pub fn known_open(prop: &str, builtin_json: &str) -> Vec<String> {
    let mut texts: Vec<String> = vec![builtin_json.to_string()];
    if let Ok(root) = std::env::var("VERIF_ROOT") {
        for p in [format!("{root}/known_findings.json"), format!("{root}/known/{prop}.json")] {
            if let Ok(t) = std::fs::read_to_string(&p) {
                texts.push(t);
            }
        }
    }
    let mut out: Vec<String> = vec![];
    for t in texts {
        let Ok(serde_json::Value::Array(items)) = serde_json::from_str::<serde_json::Value>(&t) else { continue };
        for e in items {
            if e.get("property").and_then(|v| v.as_str()) == Some(prop) && e.get("status").and_then(|v| v.as_str()) == Some("open") {
                if let Some(s) = e.get("signature").and_then(|v| v.as_str()) {
                    if !out.iter().any(|x| x == s) {
                        out.push(s.to_string());
                    }
                }
            }
        }
    }
    out
}

// ---------------------------------------------------------------------------------------------
// reporting

static TOLERATED: std::sync::Mutex<std::collections::BTreeMap<String, u64>> = std::sync::Mutex::new(std::collections::BTreeMap::new());

/// Counts a tolerated known finding; the totals are printed when the process exits normally
/// (`VFUZZ-TOLERATED <signature> <count>`), where fuzz_stage.sh picks them up.
pub fn tolerated(sig: &str) {
    if let Ok(mut t) = TOLERATED.lock() {
        *t.entry(sig.to_string()).or_default() += 1;
    }
    if std::env::var_os("VFUZZ_VERBOSE").is_some() {
        eprintln!("tolerated known finding {sig}");
    }
}

extern "C" fn print_tolerated() {
    if let Ok(t) = TOLERATED.lock() {
        for (k, v) in t.iter() {
            eprintln!("VFUZZ-TOLERATED {k} {v}");
        }
    }
}

/// The oracle of the target is violated: print what and why, then die the way libFuzzer
/// expects (it saves the input as crash-<sha1> and stops).
pub fn violation(prop: &str, sig: &str, detail: &str) -> ! {
    eprintln!("VFUZZ-VIOLATION property={prop} signature={sig}");
    eprintln!("VFUZZ-DETAIL {detail}");
    std::process::abort();
}

/// `Err((sig, detail))` -> tolerated when listed, violation otherwise.
pub fn settle(prop: &str, known: &[String], r: Result<(), (String, String)>) {
    if let Err((sig, detail)) = r {
        if known.iter().any(|k| *k == sig) {
            tolerated(&sig);
        } else {
            violation(prop, &sig, &detail);
        }
    }
}

/// For machine-level targets: a failure that is not a listed known finding is re-run on a
/// brand-new machine before it counts, so that a saved crash input always reproduces from the
/// file alone. A failure that does not repeat is reported on stderr and the campaign goes on.
pub fn settle_confirmed(prop: &str, known: &[String], run: impl Fn() -> Result<(), (String, String)>) {
    match run() {
        Ok(()) => {}
        Err((sig, detail)) => {
            if known.iter().any(|k| *k == sig) {
                tolerated(&sig);
                return;
            }
            drop_machine();
            match run() {
                Err((sig2, detail2)) => {
                    if known.iter().any(|k| *k == sig2) {
                        tolerated(&sig2);
                    } else {
                        violation(prop, &sig2, &detail2);
                    }
                }
                Ok(()) => {
                    eprintln!("VFUZZ-UNCONFIRMED property={prop} signature={sig} (did not repeat on a fresh machine)");
                    eprintln!("VFUZZ-DETAIL {detail}");
                }
            }
        }
    }
}

// ---------------------------------------------------------------------------------------------
// machine

pub struct Mach {
    pub machine: Machine,
    pub execs: u32,
    pub poisoned: bool,
}

thread_local! {
    static MACH: RefCell<Option<Mach>> = const { RefCell::new(None) };
}

pub const REBUILD_EVERY: u32 = 5000;

pub fn fresh_machine(prelude: &str) -> Mach {
    let mut machine = MachineBuilder::default().with_streams(StreamConfig::in_memory()).build();
    machine.consult_module_string("user", prelude);
    let mut m = Mach { machine, execs: 0, poisoned: false };
    match m.query1("fz_loaded(X)", "X") {
        Q::Bound(Term::Atom(a)) if a == "yes" => {}
        other => {
            eprintln!("VFUZZ-HARNESS-BUG prelude failed to load: {other:?}");
            std::process::abort();
        }
    }
    m
}

/// Runs `f` on the process's machine (created on first use, rebuilt every REBUILD_EVERY
/// executions and after a panic inside it).
pub fn with_machine<T>(prelude: &str, f: impl FnOnce(&mut Mach) -> T) -> T {
    MACH.with(|cell| {
        let mut slot = cell.borrow_mut();
        let stale = match slot.as_ref() {
            None => true,
            Some(m) => m.poisoned || m.execs >= REBUILD_EVERY,
        };
        if stale {
            *slot = None; // drop the old one first
            *slot = Some(fresh_machine(prelude));
        }
        let m = slot.as_mut().unwrap();
        m.execs += 1;
        f(m)
    })
}

/// Throw the process's machine away (the next execution builds a new one).
pub fn drop_machine() {
    MACH.with(|cell| *cell.borrow_mut() = None);
}

#[derive(Debug)]
pub enum Q {
    /// first answer, the binding of the requested variable
    Bound(Term),
    True,
    False,
    /// uncaught exception (printed with Debug)
    Ex(String),
    Panic(String),
    Odd(String),
}

impl Mach {
    /// First answer of `goal` (text without the final dot, written by the fuzz crate, never fuzz
    /// data). The goal runs under once/1: `QueryState` is dropped after the first answer, and
    /// dropping it while the goal still has choice points leaves the machine in a state in which
    /// a later query panics (heap.rs `truncate` with a garbage offset, see FUZZ_NOTES.md).
    pub fn query1(&mut self, goal: &str, var: &str) -> Q {
        let query = format!("once(({goal})).");
        if self.poisoned {
            return Q::Odd("machine poisoned".into());
        }
        let machine = &mut self.machine;
        let res = guarded(|| {
            let mut it = machine.run_query(query.as_str());
            let first = it.next();
            drop(it);
            first
        });
        match res {
            Err(p) => {
                self.poisoned = true;
                Q::Panic(p)
            }
            Ok(None) => Q::Odd("no answer".into()),
            Ok(Some(Err(t))) => Q::Ex(format!("{t:?}")),
            Ok(Some(Ok(LeafAnswer::LeafAnswer { mut bindings, .. }))) => match bindings.remove(var) {
                Some(t) => Q::Bound(t),
                None => Q::True,
            },
            Ok(Some(Ok(LeafAnswer::True))) => Q::True,
            Ok(Some(Ok(LeafAnswer::False))) => Q::False,
            Ok(Some(Ok(other))) => Q::Odd(format!("{other:?}")),
        }
    }
}

/// Items of a Prolog list answer (`[]` arrives as an atom, short lists of characters as String).
pub fn list_items(t: &Term) -> Option<Vec<Term>> {
    match t {
        Term::List(v) => Some(v.clone()),
        Term::Atom(a) if a == "[]" => Some(vec![]),
        Term::String(s) => Some(s.chars().map(|c| Term::Atom(c.to_string())).collect()),
        _ => None,
    }
}

/// Prolog text of a code list for `s` (data never travels as program text).
pub fn codes_text(s: &str) -> String {
    let mut out = String::with_capacity(s.len() * 4 + 2);
    out.push('[');
    for (i, c) in s.chars().enumerate() {
        if i > 0 {
            out.push(',');
        }
        out.push_str(&(c as u32).to_string());
    }
    out.push(']');
    out
}

/// Per-process scratch file for targets that feed text through a file stream.
pub fn scratch_file(tag: &str) -> std::path::PathBuf {
    let root = std::env::var("VFUZZ_SCRATCH").unwrap_or_else(|_| std::env::temp_dir().to_string_lossy().to_string());
    let dir = std::path::PathBuf::from(root);
    let _ = std::fs::create_dir_all(&dir);
    dir.join(format!("vfuzz-{tag}-{}.pl", std::process::id()))
}

/// VFUZZ_SHOW=1 (or VFUZZ_VERBOSE) prints the decoded case of every execution (triage aid).
pub fn show() -> bool {
    static SHOW: std::sync::OnceLock<bool> = std::sync::OnceLock::new();
    *SHOW.get_or_init(|| std::env::var_os("VFUZZ_SHOW").is_some() || std::env::var_os("VFUZZ_VERBOSE").is_some())
}
