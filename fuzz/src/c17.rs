//! C17 oracle for the `reader` target: the input bytes are the text. It is written to a file
//! and read to its end with read_term/3 through the process's machine, twice, and once more as
//! a list of characters with read_term_from_chars/3 (first clause only). Asserted:
//!   * no panic (any `panic:<location>` that is not a listed known finding),
//!   * every read is a term, a syntax_error, an ISO 8.14.1.3 representation_error or end of
//!     file — never another error,
//!   * progress: two consecutive reads that consume no byte of the file (stream position
//!     unchanged) and give the same outcome mean the reader is stuck for ever; backstop: at most
//!     2*chars+8 reads reach the end of the file (`no-progress:<what repeats>`, the same
//!     signatures as harness/src/props/c17.rs, so that known/C17.json applies),
//!   * the second pass over the file gives the same sequence of outcomes as the first.
//! Hangs are libFuzzer's `-timeout`.
use crate::mach::{self, Q};
use scryer_prolog::Term;

pub const PRELUDE: &str = include_str!("../prolog/fz.pl");
pub const MAX_TEXT: usize = 512;

#[derive(Clone, Debug, PartialEq)]
enum R {
    T,
    V,
    Syn(String),
    Other(String),
    Eof,
    Limit,
}

fn decode_r(t: &Term) -> Option<R> {
    match t {
        Term::Atom(a) => match a.as_str() {
            "t" => Some(R::T),
            "v" => Some(R::V),
            "eof" => Some(R::Eof),
            "limit" => Some(R::Limit),
            _ => None,
        },
        Term::Compound(n, a) if a.len() == 1 => {
            let arg = match &a[0] {
                Term::Atom(x) => x.clone(),
                Term::String(x) => x.clone(),
                other => format!("{other:?}"),
            };
            match n.as_str() {
                "syn" => Some(R::Syn(arg)),
                "other" => Some(R::Other(arg)),
                _ => None,
            }
        }
        _ => None,
    }
}

fn decode_list(t: &Term) -> Option<Vec<R>> {
    mach::list_items(t)?.iter().map(decode_r).collect()
}

fn judge_pass(rs: &[R], max: usize, what: &str, text: &str) -> Result<(), (String, String)> {
    for r in rs {
        match r {
            R::Other(f) if f == "representation_error" => {}
            R::Other(f) => return Err((format!("non-syntax-error:{f}"), format!("{what} raised an error that is not a syntax error: {f}; outcomes {rs:?}; text {text:?}"))),
            R::Limit => {
                let k = rs.len();
                let rep = if k >= 3 { &rs[k - 2] } else { &R::Limit };
                let w = match rep {
                    R::Syn(kind) => format!("repeats-syntax_error({kind})"),
                    R::V => "repeats-success-with-unbound-term".to_string(),
                    R::T => "repeats-term".to_string(),
                    _ => "other".to_string(),
                };
                return Err((format!("no-progress:{w}"), format!("the reader is stuck (two reads in a row consumed nothing and gave the same outcome, or {max} reads did not reach the end of the file): last outcomes {:?}; text {text:?}", &rs[k.saturating_sub(4)..])));
            }
            _ => {}
        }
    }
    Ok(())
}

pub fn check(data: &[u8]) -> Result<(), (String, String)> {
    let data = &data[..data.len().min(MAX_TEXT)];
    let shown = String::from_utf8_lossy(data).to_string();
    let path = mach::scratch_file("reader");
    if std::fs::write(&path, data).is_err() {
        return Ok(()); // the harness cannot run the case
    }
    let nchars = shown.chars().count();
    let max = 2 * nchars + 8;
    // the character-list path only sees well-formed text
    let codes = match std::str::from_utf8(data) {
        Ok(s) => mach::codes_text(s),
        Err(e) => mach::codes_text(std::str::from_utf8(&data[..e.valid_up_to()]).unwrap()),
    };
    let q = format!("fz_reader_case('{}', {max}, {codes}, R)", path.to_string_lossy());
    let ans = mach::with_machine(PRELUDE, |m| m.query1(&q, "R"));
    let r = match ans {
        Q::Bound(Term::Compound(n, a)) if n == "r" && a.len() == 3 => a,
        Q::Panic(p) => return Err((mach::panic_sig(&p), format!("reading panicked: {p}; text {shown:?}"))),
        Q::Ex(e) => return Err(("non-syntax-error:outside-read".into(), format!("reading the file raised {e} outside read_term; text {shown:?}"))),
        other => {
            // never a verdict on scryer by itself; rebuild the machine and go on
            if std::env::var_os("VFUZZ_VERBOSE").is_some() {
                eprintln!("reader: unexpected answer {other:?} for text {shown:?}");
            }
            mach::drop_machine();
            return Ok(());
        }
    };
    let (Some(r1), Some(r2)) = (decode_list(&r[0]), decode_list(&r[1])) else {
        eprintln!("VFUZZ-HARNESS-BUG undecodable result {:?}", r);
        std::process::abort();
    };
    let Some(r3) = decode_r(&r[2]) else {
        eprintln!("VFUZZ-HARNESS-BUG undecodable result {:?}", r[2]);
        std::process::abort();
    };
    judge_pass(&r1, max, "read_term/3 on the file", &shown)?;
    judge_pass(std::slice::from_ref(&r3), max, "read_term_from_chars/3", &shown)?;
    if r1 != r2 {
        return Err(("nondeterministic:second-pass".into(), format!("first pass {r1:?} second pass {r2:?}; text {shown:?}")));
    }
    Ok(())
}
