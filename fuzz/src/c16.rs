//! C16 oracle for the `numlit` target: numeric literals and number/text conversions are exact.
//! Mode `spelling`: the bytes are a text shown as data to read_term_from_chars/3,
//! number_codes/2 and number_chars/2 and judged by the harness's own literal evaluator
//! (harness/src/shared/isotok.rs: exact integers, Rust's correctly rounded float parse): a
//! literal must give exactly its value everywhere, a non-literal must give syntax_error in
//! number_codes/number_chars, which must agree with each other. Mode `number`: an integer or a
//! finite double is converted to text by number_codes/number_chars/write_term_to_chars; the text
//! must denote the number for the evaluator and convert back to the identical number (floats
//! bitwise). Same rules and signatures as harness/src/props/c16.rs.
use crate::isotok::{self, NumEval};
use crate::mach::{self, Q};
use crate::term::T;
use arbitrary::Unstructured;
use dashu::integer::IBig;
use scryer_prolog::Term;

pub const PRELUDE: &str = crate::c17::PRELUDE;

#[derive(Clone, Debug)]
pub enum Case {
    Spelling(String),
    Number(T),
}

impl Case {
    pub fn decode(data: &[u8]) -> Case {
        // a leading 0xFF selects the number mode; everything else is a spelling (so that plain
        // text corpora and dictionaries work)
        if data.first() == Some(&0xFF) {
            let mut u = Unstructured::new(&data[1..]);
            let n = match u.int_in_range(0u8..=3).unwrap_or(0) {
                0 => {
                    let f = f64::from_bits(u.arbitrary::<u64>().unwrap_or(0));
                    // -0.0 cannot be constructed on the machine (interned as 0.0)
                    T::Float(if !f.is_finite() || f.to_bits() == (-0.0f64).to_bits() { 0.0 } else { f })
                }
                1 => T::Int(IBig::from(u.arbitrary::<i64>().unwrap_or(0))),
                2 => T::Int(IBig::from(u.arbitrary::<i128>().unwrap_or(0))),
                _ => {
                    // +-2^k + d around every power of two up to 2^200
                    let k = u.int_in_range(0u32..=200).unwrap_or(0);
                    let d = u.int_in_range(-3i32..=3).unwrap_or(0);
                    let neg = u.arbitrary::<bool>().unwrap_or(false);
                    let v = crate::num::ipow2(k) + IBig::from(d);
                    T::Int(if neg { -v } else { v })
                }
            };
            Case::Number(n)
        } else {
            let s = match std::str::from_utf8(data) {
                Ok(s) => s,
                Err(e) => std::str::from_utf8(&data[..e.valid_up_to()]).unwrap(),
            };
            Case::Spelling(s.chars().take(96).collect())
        }
    }
}

#[derive(Clone, Debug)]
enum Out {
    Ok(T),
    /// the reader read -(N)
    Neg(T),
    NonNum,
    Failed,
    Syn,
    Ex(String),
}

fn num_of(t: &Term) -> Option<T> {
    match t {
        Term::Integer(i) => Some(T::Int(i.clone())),
        Term::Float(f) => Some(T::Float(*f)),
        _ => None,
    }
}

fn out_of(t: &Term) -> Option<Out> {
    match t {
        Term::Atom(a) => match a.as_str() {
            "nonnum" => Some(Out::NonNum),
            "failed" => Some(Out::Failed),
            "syn" => Some(Out::Syn),
            _ => None,
        },
        Term::Compound(n, a) if a.len() == 1 => match n.as_str() {
            "num" => num_of(&a[0]).map(Out::Ok).or(Some(Out::NonNum)), // rationals: not a literal
            "neg" => num_of(&a[0]).map(Out::Neg).or(Some(Out::NonNum)),
            "ex" => Some(Out::Ex(match &a[0] {
                Term::Atom(x) => x.clone(),
                o => format!("{o:?}"),
            })),
            _ => None,
        },
        _ => None,
    }
}

fn show(o: &Out) -> String {
    match o {
        Out::Ok(t) => t.text(),
        Out::Neg(t) => format!("-({})", t.text()),
        Out::NonNum => "a term that is not a number".into(),
        Out::Failed => "failure".into(),
        Out::Syn => "syntax_error".into(),
        Out::Ex(b) => format!("exception {b}"),
    }
}

fn num_eq(a: &T, b: &T) -> bool {
    match (a, b) {
        (T::Int(x), T::Int(y)) => x == y,
        // the machine has no -0.0 (it is interned as 0.0): the two zeros are one number here
        (T::Float(x), T::Float(y)) => x.to_bits() == y.to_bits() || (*x == 0.0 && *y == 0.0),
        _ => false,
    }
}

fn ulp_apart(a: &T, b: &T) -> bool {
    match (a, b) {
        (T::Float(x), T::Float(y)) => x.is_sign_negative() == y.is_sign_negative() && (x.to_bits() as i128 - y.to_bits() as i128).abs() == 1,
        _ => false,
    }
}

fn spelling_kind(s: &str) -> &'static str {
    let b = s.trim_start_matches(|c: char| c == '-' || isotok::is_layout(c));
    if b.starts_with("0'") {
        "charcode"
    } else if b.starts_with("0x") || b.starts_with("0o") || b.starts_with("0b") {
        "radix"
    } else if b.contains('.') && b.chars().next().map(|c| c.is_ascii_digit()).unwrap_or(false) {
        "float"
    } else if b.contains('_') {
        "digit-group"
    } else {
        "integer"
    }
}

fn sig_digits(s: &str) -> usize {
    let mant: String = s.chars().take_while(|c| *c != 'e' && *c != 'E').filter(|c| c.is_ascii_digit()).collect();
    mant.trim_start_matches('0').len()
}

const TRAILING_US: &str = "trailing-underscore:number_codes-and-number_chars-accept-a-digit-group-ending-in-underscore";
const LOSSY: &str = "float-lossy-1ulp:long-float-literal-read-one-ulp-off";

/// `s` is a valid literal followed by one `_` (and optional layout), e.g. "1_000_"
fn trailing_underscore_value(s: &str) -> Option<T> {
    let i = s.rfind('_')?;
    let rest = &s[i + 1..];
    let rest = rest.strip_suffix('/').filter(|r| !r.ends_with('/')).unwrap_or(rest);
    if !matches!(isotok::tokenize(rest), Ok(ref v) if v.is_empty()) {
        return None;
    }
    match eval_text(&s[..i]) {
        NumEval::Value(v) | NumEval::ValueWithLayout(v) => Some(v),
        NumEval::NotNumber => None,
    }
}

type Fail = (String, String);

enum Ans {
    Args(Vec<Term>),
    Fail(Fail),
    Skip,
}

fn ask(q: &str, arity: usize, what: &str) -> Ans {
    match mach::with_machine(PRELUDE, |m| m.query1(q, "R")) {
        Q::Bound(Term::Compound(n, a)) if n == "r" && a.len() == arity => Ans::Args(a),
        Q::Panic(p) => Ans::Fail((mach::panic_sig(&p), format!("{what}: {p}"))),
        other => {
            if std::env::var_os("VFUZZ_VERBOSE").is_some() {
                eprintln!("numlit: unexpected answer {other:?} for {what}");
            }
            mach::drop_machine();
            Ans::Skip
        }
    }
}

/// `isotok::eval_number_text`, except that an end of input INSIDE a token (`0'` with nothing
/// behind it, e.g. "0'00'" = the token 0'0 followed by an unfinished 0') makes the text a
/// non-number. The harness lexer reports that situation with the same `Eof` it uses for a clean
/// end, and eval_number_text would take "0'00'" for the number 48 followed by nothing. (The
/// proptest generator of C16 never builds such a text; the fuzzer does within seconds.)
fn eval_text(s: &str) -> NumEval {
    let mut lx = isotok::Lexer::new(s);
    loop {
        match lx.next() {
            Ok(_) => {}
            Err(isotok::LexError::Eof) => {
                if lx.last_start < lx.pos {
                    return NumEval::NotNumber;
                }
                break;
            }
            Err(_) => return NumEval::NotNumber,
        }
    }
    isotok::eval_number_text(s)
}

fn check_spelling(s: &str, known: &[String]) -> Result<(), Fail> {
    let ev = eval_text(s);
    let a = match ask(&format!("fzn_spell({}, R)", mach::codes_text(s)), 3, &format!("spelling {s:?}")) {
        Ans::Args(a) => a,
        Ans::Fail(f) => return Err(f),
        Ans::Skip => return Ok(()),
    };
    let (Some(r1), Some(r2), Some(r3)) = (out_of(&a[0]), out_of(&a[1]), out_of(&a[2])) else {
        eprintln!("VFUZZ-HARNESS-BUG undecodable result {a:?}");
        std::process::abort();
    };
    let kind = spelling_kind(s);
    let long_float = kind == "float" && sig_digits(s) > 15;
    // number_codes/2 and number_chars/2 must agree with each other on everything
    let agree = match (&r2, &r3) {
        (Out::Ok(x), Out::Ok(y)) => num_eq(x, y),
        (Out::Syn, Out::Syn) => true,
        (Out::Ex(_), Out::Ex(_)) => true,
        (Out::Failed, Out::Failed) => true,
        _ => false,
    };
    if !agree {
        return Err((format!("disagree:number_codes-vs-number_chars:{kind}"), format!("spelling {s:?}: number_codes gives {}, number_chars gives {}", show(&r2), show(&r3))));
    }
    match &ev {
        NumEval::Value(n) | NumEval::ValueWithLayout(n) => {
            let strict = matches!(ev, NumEval::Value(_));
            let minus_layout = !strict && s.trim_start().starts_with('-') && s.trim_start()[1..].starts_with(|c: char| isotok::is_layout(c) || c == '%' || c == '/');
            let reader_ok = match &r1 {
                Out::Ok(t) => num_eq(t, n),
                // `- 1`: ISO reads the number -1; reading -(1) is tolerated
                Out::Neg(t) => {
                    minus_layout
                        && match n {
                            T::Int(i) => num_eq(t, &T::Int(-i.clone())),
                            T::Float(f) => num_eq(t, &T::Float(-*f)),
                            _ => false,
                        }
                }
                _ => false,
            };
            if !reader_ok {
                if let Out::Ok(t) = &r1 {
                    if long_float && ulp_apart(t, n) {
                        return Err((LOSSY.into(), format!("the reader reads {s:?} as {} ; the correctly rounded value is {}", t.text(), n.text())));
                    }
                }
                return Err((format!("reader-value:{kind}"), format!("the reader reads {s:?} as {} ; expected {}", show(&r1), n.text())));
            }
            for (name, r) in [("number_codes", &r2), ("number_chars", &r3)] {
                let ok = match r {
                    Out::Ok(t) => num_eq(t, n),
                    Out::Syn => !strict,
                    _ => false,
                };
                if !ok {
                    if let Out::Ok(t) = r {
                        if long_float && ulp_apart(t, n) {
                            return Err((LOSSY.into(), format!("{name} converts {s:?} to {} ; the correctly rounded value is {}", t.text(), n.text())));
                        }
                    }
                    return Err((format!("{name}-value:{kind}"), format!("{name} converts {s:?} to {} ; expected {}", show(r), n.text())));
                }
            }
        }
        NumEval::NotNumber => {
            for (name, r) in [("number_codes", &r2), ("number_chars", &r3)] {
                if !matches!(r, Out::Syn) {
                    if let (Some(v), Out::Ok(got)) = (trailing_underscore_value(s), r) {
                        if num_eq(&v, got) {
                            return Err((TRAILING_US.into(), format!("{name} converts {s:?} to {} although the reader rejects a digit group that ends in `_`", got.text())));
                        }
                    }
                    return Err((format!("not-syntax-error:{name}:{kind}"), format!("{name} on {s:?}, which is not a number literal, gives {} ; expected a syntax_error", show(r))));
                }
            }
        }
    }
    let _ = known;
    Ok(())
}

fn codes_to_string(t: &Term) -> Option<String> {
    let mut s = String::new();
    for it in mach::list_items(t)? {
        match it {
            Term::Integer(i) => s.push(char::from_u32(u32::try_from(&i).ok()?)?),
            _ => return None,
        }
    }
    Some(s)
}

fn check_number(n: &T, known: &[String]) -> Result<(), Fail> {
    let a = match ask(&format!("fzn_number({}, R)", n.text()), 4, &format!("number {}", n.text())) {
        Ans::Args(a) => a,
        Ans::Fail(f) => return Err(f),
        Ans::Skip => return Ok(()),
    };
    match num_of(&a[0]) {
        Some(m) if num_eq(&m, n) => {}
        _ => return Ok(()), // the query text did not construct the number: not this target's business
    }
    let kind = match n {
        T::Float(_) => "float",
        T::Int(i) if crate::num::bit_len(i) >= 55 => "bigint",
        _ => "smallint",
    };
    // a known open finding of one converter does not hide the other converters
    let mut tolerated: Option<Fail> = None;
    for (name, c) in [("number_codes", &a[1]), ("number_chars", &a[2]), ("writeq", &a[3])] {
        let (text, back) = match c {
            Term::Compound(f, tb) if f == "t" && tb.len() == 2 => match (codes_to_string(&tb[0]), out_of(&tb[1])) {
                (Some(t), Some(b)) => (t, b),
                _ => {
                    eprintln!("VFUZZ-HARNESS-BUG undecodable conversion result {c:?}");
                    std::process::abort();
                }
            },
            other => return Err((format!("to-text-error:{name}:{kind}"), format!("{name} of {} gives {other:?}", n.text()))),
        };
        // the text must denote the number for the harness's own literal evaluator ...
        match eval_text(&text) {
            NumEval::Value(v) if num_eq(&v, n) => {}
            other => {
                let sig = format!("text-not-a-literal-of-the-number:{name}:{kind}");
                let f = (sig.clone(), format!("{name} converts {} to {text:?}, which denotes {other:?} for the harness's literal evaluator", n.text()));
                if known.iter().any(|k| *k == sig) {
                    tolerated.get_or_insert(f);
                    continue;
                }
                return Err(f);
            }
        }
        // ... and must convert back to the identical number
        match &back {
            Out::Ok(t) if num_eq(t, n) => {}
            other => return Err((format!("roundtrip:{name}:{kind}"), format!("{name} converts {} to {text:?}, which converts back to {}", n.text(), show(other)))),
        }
    }
    match tolerated {
        Some(f) => Err(f),
        None => Ok(()),
    }
}

pub fn check(c: &Case, known: &[String]) -> Result<(), Fail> {
    match c {
        Case::Spelling(s) => check_spelling(s, known),
        Case::Number(n) => check_number(n, known),
    }
}
