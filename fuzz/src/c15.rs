//! C15 oracle for the `roundtrip` target: printed terms read back as the same term.
//! The bytes are decoded into a term (<= 40 nodes, depth <= 5) over default-operator names,
//! reader/printer-special atoms, random atom texts, small/negative/big integers, finite floats,
//! {}/1, '$VAR'/1, lists, partial lists, strings (list cells or packed strings), variables. The
//! term is built inside Prolog through atom_codes/=.. (never the reader), written by
//! write_term_to_chars/3 with five option lists (quoted(true) x ignore_ops / double_quotes /
//! numbervars / max_depth(0)), read back with read_term_from_chars/3 and compared (variant).
//! Default operator table only (the op/3 campaigns stay in the proptest check, which needs a
//! fresh machine per table).
//!
//! Known findings of known/C15.json: `prefix-op-paren` is attributed the way the proptest check
//! does it (the rejected text reads back as the term once a space is inserted before 1-3 of its
//! '(' characters) and tolerated by its signature; the triggers of the other open findings are
//! not generated (no user operator tables; the right operand of an infix '|' is never a list;
//! packed strings never end in a variable), so the campaign does not rediscover them.
use crate::mach::{self, Q};
use crate::term::{self, T};
use arbitrary::Unstructured;
use dashu::integer::IBig;
use scryer_prolog::Term;

pub const PRELUDE: &str = crate::c17::PRELUDE;

pub const OP_NAMES: &[&str] = &[
    "-", "+", "*", "/", "=", ":-", "-->", "?-", ";", "->", ",", "\\+", "\\=", "==", "\\==", "@<", "@>", "@=<", "@>=", "=..", "is", "=:=", "=\\=", "<", ">", "=<", ">=", ":", "/\\", "\\/", "//", "rem", "mod", "div", "rdiv", "<<",
    ">>", "**", "^", "\\", "|", "*->", "dynamic", "$", "@", "table", "non_counted_backtracking",
];

pub const SPECIAL_ATOMS: &[&str] = &[
    "[]", "{}", "!", ";", ",", "|", "''", "'", "", ".", "..", "/*", "//", "(", ")", "[", "]", "{", "}", "%", "\"", "`", "\\", "e", "E", "x", "0", "1", "-1", "1.0", "1.0e10", "1e", "_", "X", "_x", "A1", "a b", "a\nb", "\n", "\t", " ", "\0", "a\0b",
    "\u{1}", "\u{7f}", "\u{85}", "\u{a0}", "\u{2028}", "\u{feff}", "é", "É", "αβγ", "日本語", "😀", "a😀", "e\u{301}", "end_of_file", "$VAR", "[]a", "a'b", "a''b", "a\\b", "0'a", "0x", "don't", "\\n", "*/", "- 1", "-(", "f(x)", "a.", "a. ",
    "a.b", "a,b", "[a]", "{a}", "\u{1c5}", "\u{2167}", "²", "½", "\u{200b}", "\u{301}",
];

const IDENTS: &[&str] = &["a", "b", "f", "g", "foo", "bar_1", "aB", "x1"];
const STR_CHARS: &[&str] = &["a", "b", "é", "😀", " ", "\n", "\"", "\\", "'", "\0", "\u{1}", "1", "A", "_", "-", ","];

#[derive(Clone, Debug)]
pub struct Case {
    pub pstr: bool,
    pub term: T,
}

struct Gen<'a, 'b> {
    u: &'b mut Unstructured<'a>,
    budget: i32,
}

impl Gen<'_, '_> {
    fn pick<'t>(&mut self, items: &'t [&'t str]) -> &'t str {
        items[self.u.int_in_range(0..=items.len() - 1).unwrap_or(0)]
    }
    fn opname(&mut self) -> String {
        self.pick(OP_NAMES).to_string()
    }
    fn atom(&mut self) -> String {
        match self.u.int_in_range(0u8..=10).unwrap_or(0) {
            0..=3 => self.opname(),
            4..=6 => self.pick(SPECIAL_ATOMS).to_string(),
            7..=8 => {
                // random text, 0-6 characters
                let n = self.u.int_in_range(0usize..=6).unwrap_or(0);
                (0..n).map(|_| self.u.arbitrary::<char>().unwrap_or('a')).collect()
            }
            _ => self.pick(IDENTS).to_string(),
        }
    }
    fn float(&mut self) -> f64 {
        let f = match self.u.int_in_range(0u8..=2).unwrap_or(0) {
            0 => (self.u.int_in_range(-2i32..=2).unwrap_or(0) as f64) / (1u32 << self.u.int_in_range(0u8..=2).unwrap_or(0)) as f64,
            _ => f64::from_bits(self.u.arbitrary::<u64>().unwrap_or(0)),
        };
        // -0.0 cannot be constructed on the machine (interned as 0.0)
        if !f.is_finite() || f.to_bits() == (-0.0f64).to_bits() {
            0.0
        } else {
            f
        }
    }
    fn leaf(&mut self) -> T {
        self.budget -= 1;
        match self.u.int_in_range(0u8..=17).unwrap_or(0) {
            0..=5 => T::Atom(self.atom()),
            6..=8 => T::Int(IBig::from(self.u.int_in_range(-3i64..=3).unwrap_or(0))),
            9 => {
                let k = self.u.int_in_range(0u32..=130).unwrap_or(0);
                let v = crate::num::ipow2(k) + IBig::from(self.u.int_in_range(-1i32..=1).unwrap_or(0));
                T::Int(if self.u.arbitrary::<bool>().unwrap_or(false) { -v } else { v })
            }
            10..=12 => T::Float(self.float()),
            13..=15 => T::Var(self.u.int_in_range(0u32..=3).unwrap_or(0)),
            16 => {
                let n = self.u.int_in_range(0usize..=5).unwrap_or(0);
                T::Str((0..n).map(|_| self.pick(STR_CHARS)).collect())
            }
            _ => term::nil(),
        }
    }
    fn term(&mut self, depth: u32) -> T {
        if depth == 0 || self.budget <= 1 || self.u.is_empty() {
            return self.leaf();
        }
        self.budget -= 1;
        match self.u.int_in_range(0u8..=27).unwrap_or(0) {
            0..=5 => {
                let n = self.opname();
                T::Cmp(n, vec![self.term(depth - 1)])
            }
            6..=13 => {
                let n = self.opname();
                let a = self.term(depth - 1);
                let b = self.term(depth - 1);
                T::Cmp(n, vec![a, b])
            }
            14 => T::Cmp("{}".into(), vec![self.term(depth - 1)]),
            15 => {
                let a = if self.u.arbitrary::<bool>().unwrap_or(false) { T::Int(IBig::from(self.u.int_in_range(-1i64..=30).unwrap_or(0))) } else { self.term(depth - 1) };
                T::Cmp("$VAR".into(), vec![a])
            }
            16..=18 => {
                let n = self.atom();
                let k = self.u.int_in_range(1usize..=3).unwrap_or(1);
                T::Cmp(n, (0..k).map(|_| self.term(depth - 1)).collect())
            }
            19..=20 => {
                let k = self.u.int_in_range(1usize..=4).unwrap_or(1);
                T::PList((0..k).map(|_| self.term(depth - 1)).collect(), Box::new(term::nil()))
            }
            21 => {
                let k = self.u.int_in_range(1usize..=3).unwrap_or(1);
                let items = (0..k).map(|_| self.term(depth - 1)).collect();
                T::PList(items, Box::new(self.term(depth - 1)))
            }
            22 => {
                let k = self.u.int_in_range(1usize..=5).unwrap_or(1);
                let items = (0..k).map(|_| T::Atom(self.pick(STR_CHARS).to_string())).collect();
                T::PList(items, Box::new(self.term(depth - 1)))
            }
            _ => self.leaf(),
        }
    }
}

fn is_listish(t: &T) -> bool {
    matches!(t.norm(), T::PList(..))
}

/// removes the triggers of the open known findings that are excluded by construction
fn neutralise(t: &T, pstr: bool) -> T {
    match t {
        T::Cmp(n, a) => {
            let mut args: Vec<T> = a.iter().map(|x| neutralise(x, pstr)).collect();
            // bar-op-list: a list as the right operand of an infix '|'
            if n == "|" && args.len() == 2 && is_listish(&args[1]) {
                args[1] = T::Atom("x".into());
            }
            T::Cmp(n.clone(), args)
        }
        T::PList(items, tail) => {
            let items: Vec<T> = items.iter().map(|x| neutralise(x, pstr)).collect();
            let mut tail = neutralise(tail, pstr);
            // pstr-shared-tail: a packed string (a run of one-character atoms at the front of a
            // list, in pstr mode) whose tail is a variable
            let char_front = matches!(items.first(), Some(T::Atom(a)) if a.chars().count() == 1);
            if pstr && char_front && matches!(tail, T::Var(_)) {
                tail = T::Atom("t".into());
            }
            T::PList(items, Box::new(tail))
        }
        other => other.clone(),
    }
}

impl Case {
    pub fn decode(data: &[u8]) -> Case {
        let mut u = Unstructured::new(data);
        let pstr = u.arbitrary::<bool>().unwrap_or(false);
        let mut g = Gen { u: &mut u, budget: 40 };
        let t = g.term(5);
        Case { pstr, term: neutralise(&t, pstr) }
    }
}

/// (tag, option list, uses numbervars(true))
const WRITERS: &[(&str, &str, bool)] = &[
    ("chars-q", "[quoted(true)]", false),
    ("chars-q-ignore_ops", "[quoted(true),ignore_ops(true)]", false),
    ("chars-q-ignore_ops-dq", "[quoted(true),ignore_ops(true),double_quotes(true),max_depth(0)]", false),
    ("chars-q-dq", "[quoted(true),double_quotes(true)]", false),
    ("chars-q-nv", "[quoted(true),numbervars(true)]", true),
];

fn any_sub(t: &T, f: &dyn Fn(&T) -> bool) -> bool {
    if f(t) {
        return true;
    }
    match t {
        T::Cmp(_, a) => a.iter().any(|x| any_sub(x, f)),
        T::PList(i, tl) => i.iter().any(|x| any_sub(x, f)) || any_sub(tl, f),
        _ => false,
    }
}

/// '$VAR'(N) with a non-negative integer N is written as a letter under numbervars(true), which
/// by definition does not read back
fn has_numbervar(t: &T) -> bool {
    any_sub(t, &|s| matches!(s, T::Cmp(n, a) if n == "$VAR" && a.len() == 1 && matches!(&a[0], T::Int(i) if *i >= IBig::ZERO)))
}

fn paren_space_repairs(text: &str) -> Vec<String> {
    let cs: Vec<char> = text.chars().collect();
    let pos: Vec<usize> = (1..cs.len()).filter(|&i| cs[i] == '(' && !matches!(cs[i - 1], ' ' | '(' | ',' | '[' | '{' | '|')).take(10).collect();
    let build = |sel: &[usize]| -> String {
        let mut s = String::new();
        for (i, c) in cs.iter().enumerate() {
            if sel.contains(&i) {
                s.push(' ');
            }
            s.push(*c);
        }
        s
    };
    let mut out = vec![];
    for (a, &i) in pos.iter().enumerate() {
        out.push(build(&[i]));
        for (b, &j) in pos.iter().enumerate().skip(a + 1) {
            out.push(build(&[i, j]));
            for &k in pos.iter().skip(b + 1) {
                out.push(build(&[i, j, k]));
            }
        }
    }
    out
}

const PAREN_FAMILY: &str = "prefix-op-paren:no-space-between-prefix-operator-and-open-paren-of-leftmost-bracketed-operator-atom";

fn codes_to_string(t: &Term) -> Option<String> {
    let mut s = String::new();
    for it in mach::list_items(t)? {
        match it {
            Term::Integer(i) => s.push(char::from_u32(u32::try_from(&i).ok()?)?),
            _ => return None,
        }
    }
    Some(s)
}

fn atom_text(t: &Term) -> String {
    match t {
        Term::Atom(a) => a.clone(),
        o => format!("{o:?}"),
    }
}

type Fail = (String, String);

pub fn check(c: &Case) -> Result<(), Fail> {
    let t = &c.term;
    let mode = if c.pstr { "pstr" } else { "cells" };
    let nv = has_numbervar(t);
    let ws: Vec<&(&str, &str, bool)> = WRITERS.iter().filter(|w| !(w.2 && nv)).collect();
    let optss = format!("[{}]", ws.iter().map(|w| w.1).collect::<Vec<_>>().join(","));
    let enc = t.enc_text();
    let q = format!("fzr_case({mode}, {enc}, {optss}, R)");
    let rs = match mach::with_machine(PRELUDE, |m| m.query1(&q, "R")) {
        Q::Bound(r) => match mach::list_items(&r) {
            Some(v) if v.len() == ws.len() => v,
            _ => {
                eprintln!("VFUZZ-HARNESS-BUG undecodable result {r:?}");
                std::process::abort();
            }
        },
        Q::Panic(p) => return Err((mach::panic_sig(&p), format!("writing / reading back {} panicked: {p}", t.text()))),
        other => {
            // e.g. the construction raised (a resource limit): never a verdict by itself
            if std::env::var_os("VFUZZ_VERBOSE").is_some() {
                eprintln!("roundtrip: unexpected answer {other:?} for {}", t.text());
            }
            mach::drop_machine();
            return Ok(());
        }
    };
    for (w, r) in ws.iter().zip(rs.iter()) {
        let (sig, text, detail) = match r {
            Term::Atom(a) if a == "ok" => continue,
            Term::Compound(n, a) if n == "mismatch" && a.len() == 1 => {
                let text = codes_to_string(&a[0]).unwrap_or_default();
                (format!("rt-mismatch:{}", w.0), text.clone(), format!("{} wrote {} as {text:?} which reads back as a different term", w.0, t.text()))
            }
            Term::Compound(n, a) if n == "readerr" && a.len() == 2 => {
                let text = codes_to_string(&a[1]).unwrap_or_default();
                let what = atom_text(&a[0]);
                (format!("rt-{}:{}", what.split(':').next().unwrap_or("error"), w.0), text.clone(), format!("{} wrote {} as {text:?} which does not read back: {what}", w.0, t.text()))
            }
            Term::Compound(n, a) if n == "writeerr" && a.len() == 1 => {
                return Err((format!("write-error:{}", w.0), format!("{} raised {} for {}", w.0, atom_text(&a[0]), t.text())));
            }
            other => {
                eprintln!("VFUZZ-HARNESS-BUG undecodable writer result {other:?}");
                std::process::abort();
            }
        };
        // repair-based attribution to the known prefix-op-paren family
        let cands = paren_space_repairs(&text);
        if !cands.is_empty() {
            let texts = format!("[{}]", cands.iter().map(|s| mach::codes_text(s)).collect::<Vec<_>>().join(","));
            let q2 = format!("fzr_repairs({mode}, {enc}, {texts}, R)");
            let ans = mach::with_machine(PRELUDE, |m| m.query1(&q2, "R"));
            if std::env::var_os("VFUZZ_VERBOSE").is_some() {
                eprintln!("roundtrip: {} repair candidates for {text:?}: {ans:?}", cands.len());
                if matches!(ans, Q::Panic(_)) {
                    mach::drop_machine();
                    let again = mach::with_machine(PRELUDE, |m| m.query1(&q2, "R"));
                    eprintln!("roundtrip: the same query on a fresh machine: {again:?}\n{q2}");
                }
            }
            if let Q::Bound(Term::Atom(a)) = ans {
                if a == "yes" {
                    return Err((PAREN_FAMILY.into(), detail));
                }
            }
        }
        return Err((sig, detail));
    }
    Ok(())
}
