//! C18 oracle for the `charreader` target: `VerifCharReader` (= the `CharReader` behind every
//! text stream) over a `Read` that hands the input out in a chosen partition, driven by a
//! script of peek/read/put-back/consume/peek_byte/read operations, compared item by item with
//! the reference decoder of harness/src/shared/utf8ref.rs (std::str::from_utf8 error structure
//! cross-checked by a hand-written table-3-7 decoder). Same logic as harness/src/props/c18.rs
//! (level 1); only the case decoding differs (bytes through `arbitrary::Unstructured`).
use crate::mach::{guarded, panic_sig};
use crate::utf8ref::{item_at, manual_item_at, Item};
use arbitrary::Unstructured;
use scryer_prolog::verif_hooks::{VerifCharItem, VerifCharReader};
use std::cell::RefCell;
use std::io::Read;
use std::rc::Rc;

#[derive(Clone, Debug, PartialEq)]
pub enum Op {
    Peek,
    /// read_char (an error item is then skipped with consume(len of its bytes), as every caller does)
    Read,
    /// read_char, then put_back_char of the character just read
    ReadPutBack,
    /// peek_char, then consume(len)
    PeekConsume,
    PeekByte,
    /// Read::read into a buffer of k bytes
    ReadBytes(u8),
}

#[derive(Clone, Debug, PartialEq)]
pub enum Part {
    /// every partition of the input into non-empty chunks (inputs <= ALL_MAX bytes)
    All,
    /// bit i set = a chunk ends after byte i
    Mask(u64),
    /// chunk sizes, cycled
    Sizes(Vec<u16>),
}

pub const ALL_MAX: usize = 8;
pub const PADS: &[&str] = &["x", "\u{3bb}", "\u{20ac}", "\u{1f600}"];
const BIG_SIZES: &[u16] = &[4096, 8191, 8192, 8193, 20000];
const SIZE_TABLE: &[u16] = &[1, 2, 3, 4, 5, 6, 7, 8, 9, 1, 2, 3, 4096, 8191, 8192, 8193, 20000];

#[derive(Clone, Debug)]
pub struct Case {
    pub pad_kind: u8,
    pub pad_count: u16,
    pub bytes: Vec<u8>,
    pub part: Part,
    /// plain read_char operations executed before the script
    pub skip: u16,
    pub script: Vec<Op>,
}

impl Case {
    pub fn input(&self) -> Vec<u8> {
        let p = PADS[self.pad_kind as usize % PADS.len()].as_bytes();
        let mut v = Vec::with_capacity(p.len() * self.pad_count as usize + self.bytes.len());
        for _ in 0..self.pad_count {
            v.extend_from_slice(p);
        }
        v.extend_from_slice(&self.bytes);
        v
    }

    /// Layout: control fields from the front, the input bytes are whatever is left (at most 64).
    pub fn decode(data: &[u8]) -> Case {
        let mut u = Unstructured::new(data);
        let mode = u.int_in_range(0u8..=31).unwrap_or(0);
        let pad_kind = u.int_in_range(0u8..=3).unwrap_or(0);
        // 0-29: short input; 30: padded to straddle 8192; 31: padded to straddle 16384
        let padded = mode >= 30;
        let (pad_count, skip) = if padded {
            let m = (mode - 29) as i32;
            let delta = u.int_in_range(-7i32..=7).unwrap_or(0);
            let back = u.int_in_range(0u16..=11).unwrap_or(0);
            let plen = PADS[pad_kind as usize].len();
            let target = 8192 * m + delta;
            let pc = (target.max(0) as usize / plen) as u16;
            (pc, pc.saturating_sub(back))
        } else {
            (0, 0)
        };
        let part = match u.int_in_range(0u8..=3).unwrap_or(1) {
            0 if !padded => Part::All,
            1 if !padded => Part::Mask(u.arbitrary::<u64>().unwrap_or(0)),
            2 if !padded => Part::Mask(u.arbitrary::<u64>().unwrap_or(0) & u.arbitrary::<u64>().unwrap_or(0)),
            _ => {
                let n = u.int_in_range(1usize..=6).unwrap_or(1);
                let mut v: Vec<u16> = (0..n).map(|_| SIZE_TABLE[u.int_in_range(0..=SIZE_TABLE.len() - 1).unwrap_or(0)]).collect();
                if padded {
                    // CharReader::read_chunk clears an 8 KiB buffer per read: a padded input is
                    // delivered in reads of about that size (the first size of the cycle is a big
                    // one), the small sizes of the cycle then fall next to the 8 KiB boundaries
                    v[0] = BIG_SIZES[u.int_in_range(0..=BIG_SIZES.len() - 1).unwrap_or(0)];
                }
                Part::Sizes(v)
            }
        };
        let nops = u.int_in_range(0usize..=40).unwrap_or(0);
        let mut script = Vec::with_capacity(nops);
        for _ in 0..nops {
            let b = u.arbitrary::<u8>().unwrap_or(3);
            script.push(match b % 19 {
                0..=2 => Op::Peek,
                3..=7 => Op::Read,
                8..=11 => Op::ReadPutBack,
                12..=14 => Op::PeekConsume,
                15..=16 => Op::PeekByte,
                _ => Op::ReadBytes((b / 19) % 10),
            });
        }
        let mut bytes = u.take_rest().to_vec();
        bytes.truncate(64);
        Case { pad_kind, pad_count, bytes, part, skip, script }
    }
}

struct ChunkedRead {
    data: Rc<Vec<u8>>,
    pos: usize,
    part: Part,
    next_size: usize,
    /// end offsets of the reads actually served
    log: Rc<RefCell<Vec<usize>>>,
}

impl Read for ChunkedRead {
    fn read(&mut self, buf: &mut [u8]) -> std::io::Result<usize> {
        let rem = self.data.len() - self.pos;
        if rem == 0 || buf.is_empty() {
            return Ok(0);
        }
        let want = match &self.part {
            Part::All => rem,
            Part::Mask(m) => {
                // next cut strictly after pos; bytes beyond the 64 mask bits form one chunk each
                // time the mask (taken cyclically) says so
                let mut e = self.pos + 1;
                while e < self.data.len() && (m >> ((e - 1) % 64)) & 1 == 0 {
                    e += 1;
                }
                e - self.pos
            }
            Part::Sizes(s) => {
                if s.is_empty() {
                    rem
                } else {
                    let k = s[self.next_size % s.len()] as usize;
                    self.next_size += 1;
                    k.max(1)
                }
            }
        };
        let n = want.min(buf.len()).min(rem);
        buf[..n].copy_from_slice(&self.data[self.pos..self.pos + n]);
        self.pos += n;
        self.log.borrow_mut().push(self.pos);
        Ok(n)
    }
}

fn ref_item(input: &[u8], pos: usize) -> Item {
    let a = item_at(input, pos);
    let b = manual_item_at(input, pos);
    assert_eq!(a, b, "oracle self-check: std-based and hand-written UTF-8 item decoders disagree at {pos} of {input:02x?}");
    a
}

fn same(got: &VerifCharItem, exp: &Item) -> bool {
    match (got, exp) {
        (VerifCharItem::Char(a), Item::Char(b)) => a == b,
        (VerifCharItem::BadUtf8(a), Item::Bad(b)) | (VerifCharItem::BadUtf8(a), Item::BadTail(b)) => a == b,
        (VerifCharItem::End, Item::End) => true,
        _ => false,
    }
}

fn hex(b: &[u8]) -> String {
    b.iter().map(|x| format!("{x:02X}")).collect::<Vec<_>>().join(" ")
}

fn show_input(b: &[u8]) -> String {
    if b.len() <= 80 {
        hex(b)
    } else {
        format!("{} .. ({} bytes) .. {}", hex(&b[..8]), b.len(), hex(&b[b.len() - 40..]))
    }
}

/// Runs the script and then reads to the end. Err((signature, detail)) on the first deviation.
fn run_inner(input: &Rc<Vec<u8>>, part: &Part, skip: usize, script: &[Op], log: &Rc<RefCell<Vec<usize>>>) -> Result<(), (String, String)> {
    let rd = ChunkedRead { data: input.clone(), pos: 0, part: part.clone(), next_size: 0, log: log.clone() };
    let mut r = VerifCharReader::new(rd);
    let mut pos = 0usize; // model position
    let n = input.len();
    let mut step = 0usize;
    let bad = |op: &str, exp: &Item, got: String, pos: usize, step: usize| -> (String, String) {
        let gk = got.split('(').next().unwrap_or("?").to_lowercase();
        (format!("mismatch:{op}:{}:got-{gk}", exp.kind()), format!("step {step} {op} at byte {pos}: got {got}, reference says {exp:?}"))
    };
    let total_steps = skip + script.len() + n + 3;
    let mut ended = 0;
    while step < total_steps && ended < 2 {
        let op = if step < skip {
            Op::Read
        } else if step - skip < script.len() {
            script[step - skip].clone()
        } else {
            Op::Read
        };
        step += 1;
        match op {
            Op::Peek => {
                let exp = ref_item(input, pos);
                let got = r.peek_char();
                if !same(&got, &exp) {
                    return Err(bad("peek", &exp, format!("{got:?}"), pos, step));
                }
            }
            Op::Read | Op::ReadPutBack => {
                let exp = ref_item(input, pos);
                let got = r.read_char();
                if !same(&got, &exp) {
                    return Err(bad("read", &exp, format!("{got:?}"), pos, step));
                }
                match &exp {
                    Item::Char(c) => {
                        pos += c.len_utf8();
                        if op == Op::ReadPutBack {
                            r.put_back_char(*c);
                            pos -= c.len_utf8();
                        }
                    }
                    Item::Bad(b) | Item::BadTail(b) => {
                        // read_char does not consume an error item; callers skip its bytes
                        r.consume(b.len());
                        pos += b.len();
                    }
                    Item::End => {
                        if step > skip + script.len() {
                            ended += 1;
                        }
                    }
                }
            }
            Op::PeekConsume => {
                let exp = ref_item(input, pos);
                let got = r.peek_char();
                if !same(&got, &exp) {
                    return Err(bad("peek", &exp, format!("{got:?}"), pos, step));
                }
                if exp != Item::End {
                    r.consume(exp.len());
                    pos += exp.len();
                }
            }
            Op::PeekByte => {
                let got = r.peek_byte();
                let ok = match (&got, input.get(pos)) {
                    (None, None) => true,
                    (Some(Ok(a)), Some(b)) => a == b,
                    _ => false,
                };
                if !ok {
                    return Err((format!("mismatch:peek_byte:{}", if pos < n { "byte" } else { "end" }), format!("step {step} peek_byte at byte {pos}: got {got:?}, input has {:?}", input.get(pos))));
                }
            }
            Op::ReadBytes(k) => {
                let k = k as usize;
                let got = r.read_bytes(k);
                let ok = match &got {
                    Ok(v) => v.len() <= k && pos + v.len() <= n && v[..] == input[pos..pos + v.len()] && (v.is_empty() == (k == 0 || pos == n)),
                    Err(_) => false,
                };
                if !ok {
                    return Err((format!("mismatch:read_bytes:{}", if pos < n { "bytes" } else { "end" }), format!("step {step} read({k}) at byte {pos}: got {got:?}, input continues {}", hex(&input[pos..(pos + k).min(n)]))));
                }
                pos += got.unwrap().len();
            }
        }
    }
    if pos != n {
        return Err(("mismatch:final:short".into(), format!("end reported at byte {pos} of {n}")));
    }
    Ok(())
}

pub fn run_one(input: &Rc<Vec<u8>>, part: &Part, skip: usize, script: &[Op]) -> Result<(), (String, String)> {
    let log = Rc::new(RefCell::new(Vec::new()));
    let res = match guarded(|| run_inner(input, part, skip, script, &log)) {
        Ok(r) => r,
        Err(p) => Err((panic_sig(&p), format!("CharReader panicked: {p}"))),
    };
    let log = log.borrow();
    res.map_err(|(s, d)| {
        let mut cuts: Vec<usize> = log.clone();
        cuts.dedup();
        (s, format!("{d}; input [{}] delivered in reads ending at {:?}; script {script:?} after {skip} plain reads", show_input(input), if cuts.len() > 24 { &cuts[cuts.len() - 24..] } else { &cuts[..] }))
    })
}

/// All failures of the case (one per partition at most for `Part::All`), first one first.
pub fn check(c: &Case, known: &[String]) -> Result<(), (String, String)> {
    let input = Rc::new(c.input());
    let n = input.len();
    match &c.part {
        Part::All if n <= ALL_MAX => {
            let count: u64 = if n <= 1 { 1 } else { 1u64 << (n - 1) };
            let mut known_hit = None;
            for m in 0..count {
                if let Err((sig, detail)) = run_one(&input, &Part::Mask(m), c.skip as usize, &c.script) {
                    let detail = format!("partition mask {m:#b}: {detail}");
                    if known.iter().any(|k| *k == sig) {
                        // tolerated for exactly this signature; the other partitions are still checked
                        known_hit.get_or_insert((sig, detail));
                    } else {
                        return Err((sig, detail));
                    }
                }
            }
            match known_hit {
                Some(e) => Err(e),
                None => Ok(()),
            }
        }
        Part::All => {
            // too long for the exhaustive walk: one byte per read
            run_one(&input, &Part::Mask(u64::MAX), c.skip as usize, &c.script)
        }
        p => run_one(&input, p, c.skip as usize, &c.script),
    }
}
