//! C33 oracle for the `heapops` target: operation sequences on a raw `Heap` (through
//! `VerifHeap`) created with a tiny capacity, so that every sequence meets the capacity boundary
//! many times. Oracles:
//!   * AddressSanitizer's redzone behind the heap's block (the target is built with ASan, the
//!     heap block comes from the global allocator): any write past the reservation aborts,
//!   * `byte_len <= capacity` after every operation (the capacity is tracked exactly: it doubles
//!     each time `InnerHeap::grow` runs, which the alloc_fault attempt counter reveals),
//!   * a byte-level model of the expected heap contents and return values after every operation,
//!   * `compute_pstr_size` is at least what the string really occupies.
//! Same model as harness/src/props/c33.rs; only the case decoding differs.
use crate::mach::{guarded, panic_sig};
use arbitrary::Unstructured;
use scryer_prolog::verif_hooks::{alloc_fault, VerifHeap};
use std::sync::OnceLock;

#[derive(Clone, Debug, PartialEq)]
pub enum Op {
    Push(u64),
    /// reserve n cells, write k <= n of them
    Reserve(u8, u8),
    Pstr(String),
    Cstr(String),
    /// copy_pstr_within of string segment (sel mod #segments) from its (off mod #chars)-th char
    CopyPstr(u16, u16),
    /// copy_slice_to_end of a cell range derived from (a, b); at most 32 cells
    CopySlice(u16, u16),
    /// append another heap holding `cells` plain cells and optionally a string
    Append(u8, Option<String>),
    Truncate(u16),
    /// push cells until exactly k cells of free space remain (steering to the boundary)
    FillTo(u8),
}

impl Op {
    fn name(&self) -> &'static str {
        match self {
            Op::Push(_) => "push_cell",
            Op::Reserve(..) => "reserve",
            Op::Pstr(_) => "allocate_pstr",
            Op::Cstr(_) => "allocate_cstr",
            Op::CopyPstr(..) => "copy_pstr_within",
            Op::CopySlice(..) => "copy_slice_to_end",
            Op::Append(..) => "append",
            Op::Truncate(_) => "truncate",
            Op::FillTo(_) => "fill",
        }
    }
}

#[derive(Clone, Debug)]
pub struct Case {
    /// initial capacity in cells (1..=64)
    pub cap: u8,
    pub ops: Vec<Op>,
}

const CHARS: &[&str] = &["a", "b", "z", "\u{e9}", "\u{20ac}", "\u{1f600}", "\0"];
const PLAIN: &str = "abcdefghijklmnopqrstuvwxyz0123456789ABCDEFGH";
const EDGE_LENS: &[usize] = &[6, 7, 8, 9, 14, 15, 16, 17, 23, 31, 39];

fn decode_string(u: &mut Unstructured) -> String {
    match u.int_in_range(0u8..=12).unwrap_or(0) {
        // every byte length 0..=40, plain
        0..=4 => PLAIN[..u.int_in_range(0usize..=40).unwrap_or(0)].to_string(),
        // lengths around the cell size
        5..=7 => {
            let n = EDGE_LENS[u.int_in_range(0..=EDGE_LENS.len() - 1).unwrap_or(0)] + 8 * u.int_in_range(0usize..=1).unwrap_or(0);
            "x".repeat(n)
        }
        // mixtures with multi-byte characters and NULs
        8..=11 => {
            let n = u.int_in_range(0usize..=24).unwrap_or(0);
            let nul_ok = u.int_in_range(0u8..=9).unwrap_or(9) < 3;
            (0..n).map(|_| CHARS[u.int_in_range(0..=CHARS.len() - 1).unwrap_or(0)]).filter(|c| nul_ok || *c != "\0").collect()
        }
        // NUL-heavy
        _ => {
            let n = u.int_in_range(0usize..=6).unwrap_or(0);
            (0..n).map(|_| ["\0", "\0", "ab", "abcdefg"][u.int_in_range(0usize..=3).unwrap_or(0)]).collect()
        }
    }
}

impl Case {
    pub fn decode(data: &[u8]) -> Case {
        let mut u = Unstructured::new(data);
        let cap = u.int_in_range(1u8..=64).unwrap_or(1);
        let mut ops = vec![];
        while !u.is_empty() && ops.len() < 200 {
            let op = match u.int_in_range(0u8..=32).unwrap_or(0) {
                0..=3 => Op::Push(u.arbitrary().unwrap_or(0)),
                4..=6 => Op::Reserve(u.int_in_range(0u8..=12).unwrap_or(0), u.int_in_range(0u8..=12).unwrap_or(0)),
                7..=10 => Op::Pstr(decode_string(&mut u)),
                11..=14 => Op::Cstr(decode_string(&mut u)),
                15..=20 => Op::CopyPstr(u.arbitrary().unwrap_or(0), u.arbitrary().unwrap_or(0)),
                21..=23 => Op::CopySlice(u.arbitrary().unwrap_or(0), u.arbitrary().unwrap_or(0)),
                24..=25 => {
                    let cells = u.int_in_range(0u8..=6).unwrap_or(0);
                    let s = if u.arbitrary::<bool>().unwrap_or(false) { Some(decode_string(&mut u)) } else { None };
                    Op::Append(cells, s)
                }
                26..=27 => Op::Truncate(u.arbitrary().unwrap_or(0)),
                _ => Op::FillTo(u.int_in_range(0u8..=6).unwrap_or(0)),
            };
            ops.push(op);
        }
        Case { cap, ops }
    }
}

// ---------------------------------------------------------------------------------------------
// cell encodings (types.rs: val 56 bits, f, m, tag 6 bits from the LSB up)

const TAG_PSTRLOC: u64 = 0b010011 << 58;
const TAG_LIS: u64 = 0b000101 << 58;

struct Calib {
    empty_list: u64,
    nul_char: u64,
}

fn calib() -> &'static Calib {
    static C: OnceLock<Calib> = OnceLock::new();
    C.get_or_init(|| {
        let mut h = VerifHeap::with_cell_capacity(256).expect("calibration heap");
        let empty_list = h.allocate_cstr("").expect("cstr");
        assert_eq!(h.cell_len(), 0, "calibration: allocate_cstr(\"\") wrote cells");
        let r = h.allocate_pstr("\0").expect("pstr");
        assert_eq!(r, TAG_LIS, "calibration: allocate_pstr(\"\\0\") on an empty heap should return list_loc(0)");
        assert_eq!(h.cell_len(), 1);
        let nul_char = h.cell(0);
        Calib { empty_list, nul_char }
    })
}

// ---------------------------------------------------------------------------------------------
// model

#[derive(Clone, Debug)]
struct Seg {
    start: usize,
    len: usize,
}

struct Model {
    bytes: Vec<u8>,
    segs: Vec<Seg>,
    cap: usize,
}

fn pad_len(n: usize) -> usize {
    // zero bytes after a string segment of n bytes starting on a cell boundary: up to the next
    // boundary, a whole cell when already aligned, plus a whole extra cell when only one byte
    // would separate the text from the tail cell
    let p = 8 - n % 8;
    if p == 1 {
        9
    } else {
        p
    }
}

impl Model {
    fn cells(&self) -> usize {
        self.bytes.len() / 8
    }
    fn push(&mut self, raw: u64) {
        self.bytes.extend_from_slice(&raw.to_le_bytes());
    }
    fn push_segment(&mut self, s: &str) {
        if s.is_empty() {
            return;
        }
        self.segs.push(Seg { start: self.bytes.len(), len: s.len() });
        self.bytes.extend_from_slice(s.as_bytes());
        let p = pad_len(s.len());
        self.bytes.extend(std::iter::repeat(0u8).take(p));
    }
    /// layout of ReservedHeapSection::push_pstr as described in heap.rs; returns the cell that
    /// refers to the string (None for the empty string)
    fn push_pstr(&mut self, mut src: &str) -> Option<u64> {
        let c = calib();
        let mut ret: Option<u64> = None;
        loop {
            while src.starts_with('\0') {
                match ret {
                    Some(_) => {
                        let l = self.cells() as u64 + 1;
                        self.push(TAG_LIS | l)
                    }
                    None => ret = Some(TAG_LIS | self.cells() as u64),
                }
                self.push(c.nul_char);
                src = &src[1..];
            }
            if src.is_empty() {
                return ret;
            }
            let (seg, rest, had_nul) = match src.find('\0') {
                Some(i) => (&src[..i], &src[i + 1..], true),
                None => (src, "", false),
            };
            match ret {
                Some(_) => {
                    let l = 8 * (self.cells() as u64 + 1);
                    self.push(TAG_PSTRLOC | l)
                }
                None => ret = Some(TAG_PSTRLOC | 8 * self.cells() as u64),
            }
            self.push_segment(seg);
            if had_nul {
                let l = self.cells() as u64 + 1;
                self.push(TAG_LIS | l);
                self.push(c.nul_char);
                src = rest;
                if src.is_empty() {
                    return ret;
                }
            } else {
                return ret;
            }
        }
    }
    fn drop_segs_beyond(&mut self) {
        let n = self.bytes.len();
        self.segs.retain(|s| s.start + s.len + pad_len(s.len) <= n);
    }
    /// segments wholly inside the byte range get a copy at `dst`
    fn clone_segs(&mut self, from: usize, to: usize, dst: usize) {
        let add: Vec<Seg> = self.segs.iter().filter(|s| s.start >= from && s.start + s.len + pad_len(s.len) <= to).map(|s| Seg { start: s.start - from + dst, len: s.len }).collect();
        self.segs.extend(add);
    }
}

fn show_op(op: &Op) -> String {
    match op {
        Op::Pstr(s) => format!("allocate_pstr({s:?}) [{} bytes]", s.len()),
        Op::Cstr(s) => format!("allocate_cstr({s:?}) [{} bytes]", s.len()),
        o => format!("{o:?}"),
    }
}

type Fail = (String, String);

fn fail(sig: impl Into<String>, detail: impl Into<String>) -> Fail {
    (sig.into(), detail.into())
}

/// Hard failures come back as Err; the soft `pstr-size-too-small` miscount (nothing is written
/// out of bounds) is returned in Ok so that the rest of the sequence still runs.
fn run_ops(cap_cells: usize, ops: &[Op], last_op: &mut String) -> Result<Option<Fail>, Fail> {
    let mut h = VerifHeap::with_cell_capacity(cap_cells).map_err(|_| fail("harness-alloc", "could not allocate the heap"))?;
    let mut m = Model { bytes: vec![], segs: vec![], cap: cap_cells * 8 };
    let mut soft: Option<Fail> = None;
    for (i, op) in ops.iter().enumerate() {
        *last_op = format!("op #{i} {}", show_op(op));
        let len_before = m.bytes.len();
        let free_before = m.cap - len_before;
        let mut g0 = alloc_fault::attempts();
        let mut expect_ret: Option<(u64, u64)> = None; // (got, expected)
        match op {
            Op::Push(raw) => {
                h.push_cell(*raw).map_err(|_| fail("alloc-error:push_cell", last_op.clone()))?;
                m.push(*raw);
            }
            Op::Reserve(n, k) => {
                let n = *n as usize;
                let k = (*k as usize).min(n);
                let cells: Vec<u64> = (0..k as u64).map(|j| 0x0101_0101_0101_0101u64.wrapping_mul(j + 1) ^ (i as u64)).collect();
                h.reserve_and_write(n, &cells).map_err(|_| fail("alloc-error:reserve", last_op.clone()))?;
                for c in &cells {
                    m.push(*c);
                }
            }
            Op::Pstr(s) | Op::Cstr(s) => {
                let cstr = matches!(op, Op::Cstr(_));
                let got = if cstr { h.allocate_cstr(s) } else { h.allocate_pstr(s) }.map_err(|_| fail(format!("alloc-error:{}", op.name()), last_op.clone()))?;
                let r = m.push_pstr(s);
                if cstr && r.is_some() {
                    m.push(calib().empty_list);
                }
                expect_ret = Some((got, r.unwrap_or(calib().empty_list)));
                // "Returns the number of bytes needed to store `src` as a PStr" (incl. the tail cell)
                let need = (m.bytes.len() - len_before) + if cstr && r.is_some() { 0 } else { 8 };
                let said = VerifHeap::compute_pstr_size(s);
                if said < need {
                    soft.get_or_insert(fail(format!("pstr-size-too-small:{}", if s.contains('\0') { "string-with-nul" } else { "plain-string" }), format!("compute_pstr_size({s:?}) = {said} bytes but the string occupies {need} bytes with its tail cell")));
                }
            }
            Op::CopyPstr(sel, off) => {
                if m.segs.is_empty() {
                    continue;
                }
                let seg = m.segs[*sel as usize % m.segs.len()].clone();
                let text = std::str::from_utf8(&m.bytes[seg.start..seg.start + seg.len]).expect("model segment is utf-8").to_string();
                let nchars = text.chars().count();
                let skip_chars = *off as usize % nchars;
                let boff = text.char_indices().nth(skip_chars).map(|(b, _)| b).unwrap_or(0);
                let loc = seg.start + boff;
                let s_len = seg.len - boff;
                *last_op = format!("op #{i} copy_pstr_within(byte {loc}) of a {s_len}-byte string");
                let got_tail = h.copy_pstr_within(loc).map_err(|_| fail("alloc-error:copy_pstr_within", last_op.clone()))?;
                let dst = m.bytes.len();
                let copy: Vec<u8> = m.bytes[loc..loc + s_len].to_vec();
                m.segs.push(Seg { start: dst, len: s_len });
                m.bytes.extend_from_slice(&copy);
                m.bytes.extend(std::iter::repeat(0u8).take(pad_len(s_len)));
                // the tail cell of the *source* follows its padding
                let exp_tail = (seg.start + seg.len + pad_len(seg.len)) / 8;
                expect_ret = Some((got_tail as u64, exp_tail as u64));
            }
            Op::CopySlice(a, b) => {
                let n = m.cells();
                let (mut x, mut y) = (*a as usize % (n + 1), *b as usize % (n + 1));
                if x > y {
                    std::mem::swap(&mut x, &mut y);
                }
                y = y.min(x + 32);
                *last_op = format!("op #{i} copy_slice_to_end({x}..{y})");
                h.copy_slice_to_end(x, y).map_err(|_| fail("alloc-error:copy_slice_to_end", last_op.clone()))?;
                let dst = m.bytes.len();
                let copy: Vec<u8> = m.bytes[x * 8..y * 8].to_vec();
                m.bytes.extend_from_slice(&copy);
                m.clone_segs(x * 8, y * 8, dst);
            }
            Op::Append(cells, s) => {
                let mut other = VerifHeap::with_cell_capacity(1 + *cells as usize).map_err(|_| fail("harness-alloc", "other heap"))?;
                let mut om = Model { bytes: vec![], segs: vec![], cap: 0 };
                for j in 0..*cells as u64 {
                    let raw = 0xA0A0_0000_0000_0000u64 | (j << 8) | i as u64;
                    other.push_cell(raw).map_err(|_| fail("alloc-error:push_cell", "building the heap to append"))?;
                    om.push(raw);
                }
                if let Some(s) = s {
                    other.allocate_cstr(s).map_err(|_| fail("alloc-error:allocate_cstr", "building the heap to append"))?;
                    if om.push_pstr(s).is_some() {
                        om.push(calib().empty_list);
                    }
                }
                if other.bytes() != &om.bytes[..] {
                    return Err(fail("contents:append-source", format!("{last_op}: the heap to append differs from its model")));
                }
                // growth of the other heap must not be booked on this one
                g0 = alloc_fault::attempts();
                h.append(&other).map_err(|_| fail("alloc-error:append", last_op.clone()))?;
                let dst = m.bytes.len();
                m.bytes.extend_from_slice(&om.bytes);
                for s in om.segs {
                    m.segs.push(Seg { start: s.start + dst, len: s.len });
                }
            }
            Op::Truncate(t) => {
                let to = *t as usize % (m.cells() + 1);
                h.truncate(to);
                m.bytes.truncate(to * 8);
                m.drop_segs_beyond();
            }
            Op::FillTo(k) => {
                let want_free = (*k as usize) * 8;
                let mut guard = 0;
                while m.cap - m.bytes.len() > want_free && guard < 4096 {
                    let raw = 0xF1F1_0000_0000_0000u64 | guard as u64;
                    h.push_cell(raw).map_err(|_| fail("alloc-error:push_cell", last_op.clone()))?;
                    m.push(raw);
                    guard += 1;
                }
            }
        }
        // capacity bookkeeping: every run of InnerHeap::grow doubles the capacity
        let grew = alloc_fault::attempts() - g0;
        for _ in 0..grew {
            m.cap = if m.cap == 0 { 256 * 256 * 8 } else { m.cap * 2 };
        }
        if h.byte_len() > m.cap {
            return Err(fail(
                format!("heap-overrun:{}", op.name()),
                format!("{last_op}: heap length {} bytes exceeds its capacity {} bytes (free space before the operation {} bytes, it wrote {} bytes, grow ran {} times)", h.byte_len(), m.cap, free_before, h.byte_len().saturating_sub(len_before), grew),
            ));
        }
        if h.byte_len() != m.bytes.len() {
            return Err(fail(format!("contents:length:{}", op.name()), format!("{last_op}: heap is {} bytes long, the model {} bytes", h.byte_len(), m.bytes.len())));
        }
        if h.bytes() != &m.bytes[..] {
            let at = h.bytes().iter().zip(m.bytes.iter()).position(|(a, b)| a != b).unwrap_or(0);
            return Err(fail(
                format!("contents:bytes:{}", op.name()),
                format!("{last_op}: heap differs from the model at byte {at} (cell {}): heap {:02x?} model {:02x?}", at / 8, &h.bytes()[at / 8 * 8..(at / 8 * 8 + 8).min(h.byte_len())], &m.bytes[at / 8 * 8..(at / 8 * 8 + 8).min(m.bytes.len())]),
            ));
        }
        if let Some((got, exp)) = expect_ret {
            if got != exp {
                return Err(fail(format!("contents:return:{}", op.name()), format!("{last_op}: returned {got:#x}, expected {exp:#x}")));
            }
        }
    }
    drop(h);
    Ok(soft)
}

/// Err = a hard failure or (when nothing else failed) the soft miscount.
pub fn check(c: &Case) -> Result<(), (String, String)> {
    let cap = (c.cap as usize).clamp(1, 64);
    let mut last_op = String::from("(none)");
    let r = guarded(|| run_ops(cap, &c.ops, &mut last_op));
    let r = match r {
        Ok(r) => r,
        Err(p) => Err((panic_sig(&p), format!("{last_op} panicked: {p}"))),
    };
    match r {
        Ok(None) => Ok(()),
        Ok(Some(soft)) => Err((soft.0, format!("capacity {cap} cells; {}", soft.1))),
        Err((sig, _)) if sig == "harness-alloc" => Ok(()),
        Err((sig, d)) => Err((sig, format!("capacity {cap} cells; {d}; ops {:?}", c.ops))),
    }
}
