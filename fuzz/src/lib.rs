//! Oracles shared by the libFuzzer targets of the Scryer Prolog verification harness
//! (DESIGN §2.7). Every target decodes its bytes into a structured case through
//! `arbitrary::Unstructured`, runs the semantic oracle of the property (the same one the proptest
//! check in harness/src/props/cNN.rs uses, re-stated here without the harness's engine types),
//! tolerates the open known findings by exact signature and aborts on anything else.
#![allow(clippy::all)]

/// reference UTF-8 item decoder, shared with the proptest harness (no harness-only dependencies)
#[path = "../../harness/src/shared/utf8ref.rs"]
pub mod utf8ref;

/// term model, exact numeric helpers and the ISO tokenizer / literal evaluator of the harness
#[path = "../../harness/src/term.rs"]
#[allow(dead_code)]
pub mod term;
#[path = "../../harness/src/num.rs"]
#[allow(dead_code)]
pub mod num;
#[path = "../../harness/src/shared/isotok.rs"]
#[allow(dead_code)]
pub mod isotok;

pub mod c15;
pub mod c16;
pub mod c17;
pub mod c18;
pub mod c33;
pub mod mach;
