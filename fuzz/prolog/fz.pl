% Prelude of the machine-level fuzz targets (consulted into module user of the target's machine).
% Fuzz data never travels as program text: it arrives in a file or as a list of character codes.

:- use_module(library(charsio)).
:- use_module(library(lists)).
:- use_module(library(iso_ext)).
:- use_module(library(between)).

fz_loaded(yes).

% ---------------------------------------------------------------------------------------------
% reader (C17): read every clause of a file with read_term/3, reifying each outcome as
%   t (a term) | v (success with the term left unbound... or a variable) | syn(Kind) |
%   other(Name) | eof | limit

fz_read_file(File, Max, Rs) :-
    open(File, read, S),
    fz_loop(S, Max, none, Rs),
    close(S).

% Stuck = the previous read and this one both consumed nothing (same byte position before and
% after) and gave the same outcome: the state of the stream and the outcome repeat, so every
% further read does the same. Reported as `limit` at once instead of after Max reads (Max stays
% as the backstop).
fz_loop(S, N, Prev, Rs) :-
    (   N =< 0 -> Rs = [limit]
    ;   fz_pos(S, P0),
        catch(read_term(S, T, []), E, true),
        fz_pos(S, P1),
        (   nonvar(E) -> fz_class(E, R)
        ;   var(T) -> R = v
        ;   T == end_of_file -> R = eof
        ;   R = t
        ),
        (   R == eof -> Rs = [eof]
        ;   R = other(_) -> Rs = [R]
        ;   integer(P0), P0 == P1 ->
            (   Prev == R -> Rs = [R, limit]
            ;   Rs = [R|Rs1], N1 is N - 1, fz_loop(S, N1, R, Rs1)
            )
        ;   Rs = [R|Rs1], N1 is N - 1, fz_loop(S, N1, none, Rs1)
        )
    ).

fz_pos(S, P) :-
    (   catch(stream_property(S, position(position_and_lines_read(P0, _))), _, fail) -> P = P0
    ;   P = unknown
    ).

fz_class(E, R) :-
    (   nonvar(E), E = error(F, _), nonvar(F) ->
        (   F = syntax_error(K) ->
            (   var(K) -> R = syn('_') ; functor(K, KN, _), R = syn(KN) )
        ;   functor(F, FN, _), R = other(FN)
        )
    ;   R = other('$ball')
    ).

% the same text as one list of characters: first clause only
fz_alone(Codes, R) :-
    atom_codes(A, Codes), atom_chars(A, Chars),
    catch(( read_term_from_chars(Chars, T, []), ( var(T) -> R = v ; T == end_of_file -> R = eof ; R = t ) ), E, fz_class(E, R)).

fz_reader_case(File, Max, Codes, r(R1, R2, R3)) :-
    fz_read_file(File, Max, R1),
    fz_read_file(File, Max, R2),
    fz_alone(Codes, R3).

% ---------------------------------------------------------------------------------------------
% numlit (C16)
%   outcome of a conversion to a number: num(N) | neg(N) (the reader read -(N)) | nonnum |
%   failed | syn | ex(Name)

fzn_outcome(G, V, R) :-
    catch(( call(G) -> fzn_value(V, R) ; R = failed ), E, fzn_err(E, R)).

fzn_value(V, R) :-
    (   number(V) -> R = num(V)
    ;   nonvar(V), V = -(N), number(N) -> R = neg(N)
    ;   R = nonnum
    ).

fzn_err(E, R) :-
    (   nonvar(E), E = error(F, _), nonvar(F) ->
        (   F = syntax_error(_) -> R = syn ; functor(F, FN, _), R = ex(FN) )
    ;   R = ex('$ball')
    ).

fz_codes_chars([], []).
fz_codes_chars([C|Cs], [Ch|Chs]) :- char_code(Ch, C), fz_codes_chars(Cs, Chs).

% a spelling (code list) seen by the reader, number_codes/2 and number_chars/2
fzn_spell(Codes, r(R1, R2, R3)) :-
    fz_codes_chars(Codes, Chars),
    % a newline before the end token: the spelling may end in a % comment
    append(Chars, "\n.", Cs1),
    fzn_outcome(read_term_from_chars(Cs1, T, []), T, R1),
    fzn_outcome(number_codes(N2, Codes), N2, R2),
    fzn_outcome(number_chars(N3, Chars), N3, R3).

% a number converted to text and back: t(TextAsCodes, Outcome) | failed | syn | ex(Name)
fzn_number(N, r(N, C1, C2, C3)) :-
    fzn_conv(( number_codes(N, Codes), fzn_outcome(number_codes(B1, Codes), B1, RB1) ), t(Codes, RB1), C1),
    fzn_conv(( number_chars(N, Chars), fz_codes_chars(Codes2, Chars), fzn_outcome(number_chars(B2, Chars), B2, RB2) ), t(Codes2, RB2), C2),
    fzn_conv(( write_term_to_chars(N, [quoted(true)], W), fz_codes_chars(Codes3, W), append(W, " .", W1),
               fzn_outcome(read_term_from_chars(W1, B3, []), B3, RB3) ), t(Codes3, RB3), C3).

fzn_conv(G, V, R) :-
    catch(( call(G) -> R = V ; R = failed ), E, fzn_err(E, R)).

% ---------------------------------------------------------------------------------------------
% roundtrip (C15)
% fz_dec(+Mode, +Enc, -Term): tagged encoding -> term, atoms through atom_codes/2 (never the
% reader). v(N) | i(Int) | f(Float) | a(Codes) | s(Codes) | l(Items, Tail) | c(NameCodes, Args).
% Mode = pstr builds s(Codes) and runs of one-character atoms at the front of a list as packed
% strings, Mode = cells builds ordinary list cells. (Same as vpp_dec/3 of the harness.)

fz_dec(Mode, E, T) :- fz_dec_(E, T, Mode, [], _).

fz_dec_(E, T, M, B0, B) :-
    (   E = v(N) -> fz_binding(N, B0, B, T)
    ;   E = i(I) -> T = I, B = B0
    ;   E = f(F) -> T = F, B = B0
    ;   E = a(Cs) -> atom_codes(T, Cs), B = B0
    ;   E = s(Cs) -> fz_codes_chars(Cs, T0), fz_string(M, T0, [], T), B = B0
    ;   E = l(Items, Tail) ->
        fz_dec_(Tail, TT, M, B0, B1),
        (   M == pstr, fz_char_prefix(Items, Chars, Rest), Chars = [_|_] ->
            fz_dec_items(Rest, TT, T1, M, B1, B),
            fz_string(M, Chars, T1, T)
        ;   fz_dec_items(Items, TT, T, M, B1, B)
        )
    ;   E = c(Cs, Args) ->
        atom_codes(Name, Cs),
        fz_dec_all(Args, TArgs, M, B0, B),
        T =.. [Name|TArgs]
    ).

fz_string(cells, Chars, Tail, T) :- append(Chars, Tail, T).
fz_string(pstr, Chars, Tail, T) :-
    (   Chars == [] -> T = Tail
    ;   member(C, Chars), char_code(C, 0) -> append(Chars, Tail, T)
    ;   partial_string(Chars, T, Tail)
    ).

fz_char_prefix([a([C])|Es], [Ch|Chs], Rest) :- !, char_code(Ch, C), fz_char_prefix(Es, Chs, Rest).
fz_char_prefix(Es, [], Es).

fz_dec_items([], TT, TT, _, B, B).
fz_dec_items([E|Es], TT, [T|Ts], M, B0, B) :-
    fz_dec_(E, T, M, B0, B1),
    fz_dec_items(Es, TT, Ts, M, B1, B).

fz_dec_all([], [], _, B, B).
fz_dec_all([E|Es], [T|Ts], M, B0, B) :-
    fz_dec_(E, T, M, B0, B1),
    fz_dec_all(Es, Ts, M, B1, B).

fz_binding(N, B0, B, V) :-
    (   fz_bfind(B0, N, V0) -> V = V0, B = B0
    ;   B = [N-V|B0]
    ).

fz_bfind([M-W|Rest], N, V) :-
    (   M =:= N -> V = W
    ;   fz_bfind(Rest, N, V)
    ).

% A and B are variants (term_variables/2 lists variables in depth-first left-to-right order of
% first occurrence; '$fzv'/1 never occurs in a generated term)
fz_variant(A, B) :-
    \+ \+ ( term_variables(A, Va), term_variables(B, Vb),
            length(Va, N), length(Vb, N),
            fz_bind(Va, 0), fz_bind(Vb, 0),
            A == B ).

fz_bind([], _).
fz_bind([V|Vs], I) :- ( var(V) -> V = '$fzv'(I) ; true ), I1 is I + 1, fz_bind(Vs, I1).

% fzr_case(+Mode, +Enc, +OptionLists, -Results): write_term_to_chars/3 with each option list,
% read back in the same query and compared. Result:
%   ok | mismatch(TextCodes) | readerr(Name, TextCodes) | writeerr(Name)
fzr_case(Mode, Enc, Optss, Rs) :-
    fz_dec(Mode, Enc, T),
    fzr_each(Optss, T, Rs).

fzr_each([], _, []).
fzr_each([Opts|Os], T, [R|Rs]) :-
    catch(( write_term_to_chars(T, Opts, Cs),
            fz_codes_chars(Codes, Cs),
            append(Cs, " .", Cs1),
            catch(( read_term_from_chars(Cs1, T2, []),
                    ( fz_variant(T, T2) -> R = ok ; R = mismatch(Codes) ) ),
                  E, ( fzr_name(E, N), R = readerr(N, Codes) )) ),
          E2, ( fzr_name(E2, N2), R = writeerr(N2) )),
    fzr_each(Os, T, Rs).

fzr_name(E, N) :-
    (   nonvar(E), E = error(F, _), nonvar(F) ->
        (   F = syntax_error(K), atom(K) -> atom_concat('syntax_error:', K, N)
        ;   functor(F, N, _)
        )
    ;   N = '$ball'
    ).

% fzr_repairs(+Mode, +Enc, +ListOfCodeLists, -Found): does one of the texts read back as the term?
fzr_repairs(Mode, Enc, Texts, Found) :-
    fz_dec(Mode, Enc, T),
    (   member(Codes, Texts),
        fz_codes_chars(Codes, Cs0), append(Cs0, " .", Cs),
        catch(read_term_from_chars(Cs, T2, []), _, fail),
        fz_variant(T, T2) -> Found = yes
    ;   Found = no
    ).
