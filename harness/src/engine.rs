//! Check engine: property trait, proptest driver, sharding, evidence, known findings, replay.
#![allow(dead_code)]

use proptest::strategy::{Strategy, ValueTree};
use proptest::test_runner::{Config, RngAlgorithm, TestCaseError, TestError, TestRng, TestRunner};
use serde::{de::DeserializeOwned, Deserialize, Serialize};
use serde_json::{json, Value};
use std::cell::RefCell;
use std::collections::{BTreeMap, HashSet};
use std::fmt::Debug;
use std::panic::{catch_unwind, AssertUnwindSafe};
use std::path::{Path, PathBuf};
use std::time::Instant;

/// Root of the verification tree (where evidence/, replays/, known_findings.json live).
pub fn verif_dir() -> String {
    std::env::var("VERIF_ROOT").unwrap_or_else(|_| "/verif".to_string())
}

#[derive(Clone, Copy, Debug, PartialEq, Eq, Serialize, Deserialize)]
pub enum Tier {
    Quick,
    Thorough,
}

impl Tier {
    pub fn name(&self) -> &'static str {
        match self {
            Tier::Quick => "quick",
            Tier::Thorough => "thorough",
        }
    }
    pub fn pick<V>(&self, quick: V, thorough: V) -> V {
        match self {
            Tier::Quick => quick,
            Tier::Thorough => thorough,
        }
    }
}

/// Result of checking one generated case.
#[derive(Clone, Debug)]
pub enum Verdict {
    Pass { nontrivial: bool, classes: Vec<String> },
    /// the harness rejected its own input (counted, never a verdict on the code)
    Discard(String),
    Fail { signature: String, detail: String },
}

impl Verdict {
    pub fn pass(nontrivial: bool, classes: &[&str]) -> Verdict {
        Verdict::Pass { nontrivial, classes: classes.iter().map(|s| s.to_string()).collect() }
    }
    pub fn fail(signature: impl Into<String>, detail: impl Into<String>) -> Verdict {
        Verdict::Fail { signature: signature.into(), detail: detail.into() }
    }
}

#[derive(Clone, Debug)]
pub struct ShardCfg {
    pub tier: Tier,
    pub seed: u64,
    pub shard: u32,
    pub nshards: u32,
    pub journal: Option<PathBuf>,
    /// restart behind a stuck case: skip every stream before `.0` and the cases with index <= `.1` of that stream
    pub resume: Option<(u64, u64)>,
    /// where partial results are dumped while running
    pub out: Option<PathBuf>,
}

impl ShardCfg {
    /// share of a total budget for this shard
    pub fn share(&self, total: u64) -> u64 {
        let base = total / self.nshards as u64;
        let extra = if (self.shard as u64) < total % self.nshards as u64 { 1 } else { 0 };
        base + extra
    }
    pub fn rng_seed(&self, id: &str, stream: u64) -> u64 {
        let mut h: u64 = 0xcbf29ce484222325;
        for b in id.bytes() {
            h ^= b as u64;
            h = h.wrapping_mul(0x100000001b3);
        }
        h ^ self.seed.wrapping_mul(0x9E3779B97F4A7C15) ^ ((self.shard as u64) << 32) ^ stream.wrapping_mul(0xD1B54A32D192ED03)
    }
}

#[derive(Clone, Debug, Default, Serialize, Deserialize)]
pub struct Failure {
    pub signature: String,
    pub detail: String,
    pub case: Value,
    pub kind: String,
}

#[derive(Clone, Debug, Default, Serialize, Deserialize)]
pub struct ShardResult {
    pub evaluations: u64,
    pub discarded: u64,
    pub nontrivial_hashes: Vec<u64>,
    pub classes: BTreeMap<String, u64>,
    pub samples: Vec<Value>,
    pub excluded_known: BTreeMap<String, u64>,
    pub unconfirmed: u64,
    pub failures: Vec<Failure>,
    pub notes: Vec<String>,
    pub extra: BTreeMap<String, Value>,
    pub exhaustive: bool,
}

impl ShardResult {
    pub fn merge(&mut self, other: ShardResult) {
        self.evaluations += other.evaluations;
        self.discarded += other.discarded;
        self.nontrivial_hashes.extend(other.nontrivial_hashes);
        for (k, v) in other.classes {
            *self.classes.entry(k).or_default() += v;
        }
        for s in other.samples {
            if self.samples.len() < 12 {
                self.samples.push(s);
            }
        }
        for (k, v) in other.excluded_known {
            *self.excluded_known.entry(k).or_default() += v;
        }
        self.unconfirmed += other.unconfirmed;
        // exhaustive only if every shard that contributed says so
        self.exhaustive = if self.evaluations == other.evaluations { other.exhaustive } else { self.exhaustive && other.exhaustive };
        self.failures.extend(other.failures);
        self.notes.extend(other.notes);
        for (k, v) in other.extra {
            // numeric extras are summed, others keep the first
            match (self.extra.get(&k).cloned(), &v) {
                (Some(Value::Number(a)), Value::Number(b)) if a.is_u64() && b.is_u64() => {
                    self.extra.insert(k, json!(a.as_u64().unwrap() + b.as_u64().unwrap()));
                }
                (None, _) => {
                    self.extra.insert(k, v);
                }
                _ => {}
            }
        }
    }
}

pub fn fnv64(bytes: &[u8]) -> u64 {
    let mut h: u64 = 0xcbf29ce484222325;
    for b in bytes {
        h ^= *b as u64;
        h = h.wrapping_mul(0x100000001b3);
    }
    h
}

// ---------------------------------------------------------------------------------------------
// Known findings

#[derive(Clone, Debug, Serialize, Deserialize)]
pub struct KnownFinding {
    pub property: String,
    pub signature: String,
    pub status: String, // "open" | "fixed"
    #[serde(default)]
    pub commit: Option<String>,
    pub what: String,
    #[serde(default)]
    pub witness: Option<String>,
}

pub fn load_known(id: &str) -> Vec<KnownFinding> {
    let p = Path::new(&verif_dir()).join("known_findings.json");
    let Ok(s) = std::fs::read_to_string(&p) else { return vec![] };
    let mut all: Vec<KnownFinding> = serde_json::from_str(&s).expect("known_findings.json must parse");
    // per-property fragments (known/CNN.json) are merged into the main file when a branch lands
    let frag = Path::new(&verif_dir()).join("known").join(format!("{id}.json"));
    if let Ok(s) = std::fs::read_to_string(&frag) {
        let more: Vec<KnownFinding> = serde_json::from_str(&s).expect("known/<id>.json must parse");
        all.extend(more);
    }
    all.into_iter().filter(|k| k.property == id).collect()
}

thread_local! {
    static KNOWN_OPEN: RefCell<Vec<String>> = const { RefCell::new(Vec::new()) };
}

pub fn set_known_open(sigs: Vec<String>) {
    KNOWN_OPEN.with(|k| *k.borrow_mut() = sigs);
}

pub fn is_known_open(sig: &str) -> bool {
    KNOWN_OPEN.with(|k| k.borrow().iter().any(|s| s == sig))
}

/// Development aid (never used by registered commands): with VERIF_SURVEY=1 every failing case is
/// tolerated like a known finding and the first case seen per signature is saved under
/// scratch/survey/<id>/, so that all failure classes of a bug-rich property can be listed in one run.
pub fn survey(id: &str, sig: &str, kind: &str, case: &Value, detail: &str) -> bool {
    if std::env::var("VERIF_SURVEY").is_err() {
        return false;
    }
    let dir = Path::new(&verif_dir()).join("scratch").join("survey").join(id);
    let _ = std::fs::create_dir_all(&dir);
    let p = dir.join(format!("{:016x}.json", fnv64(sig.as_bytes())));
    if !p.exists() {
        let rf = ReplayFile { property: id.to_string(), kind: kind.to_string(), signature: sig.to_string(), detail: detail.to_string(), case: case.clone() };
        let _ = std::fs::write(&p, serde_json::to_string_pretty(&rf).unwrap());
    }
    true
}

// ---------------------------------------------------------------------------------------------
// Property trait

pub trait Prop: Sync {
    fn id(&self) -> &'static str;
    fn rule(&self) -> &'static str;
    fn level(&self) -> &'static str {
        "exploration"
    }
    fn assumptions(&self) -> Vec<String> {
        vec![]
    }
    /// Run this shard's share of the budget.
    fn run_shard(&self, cfg: &ShardCfg) -> ShardResult;
    /// Re-run a saved case (replay file's `case` and `kind`) on fresh state.
    fn replay(&self, kind: &str, case: &Value) -> Verdict;
    /// preferred number of worker processes (None = all cores)
    fn workers(&self, _tier: Tier) -> Option<u32> {
        None
    }
    /// Entry for `vcheck child <ID> <mode> <input.json>` single-case child processes.
    fn child(&self, _mode: &str, _input: &Value) -> i32 {
        eprintln!("no child modes");
        2
    }
    /// Longest time one case may take before the worker is considered hung (seconds). The case is then
    /// re-run alone in a child with twice this budget before anything is reported.
    fn case_timeout_s(&self, _tier: Tier) -> u64 {
        300
    }
    /// Signature for a case that crashed the process or hung; `base` is "hang" or
    /// "crash:stack-overflow|sigsegv|abort|other". Properties refine it from the case.
    fn classify_stuck(&self, _kind: &str, _case: &Value, base: &str) -> String {
        base.to_string()
    }
    /// wall-clock watchdog for one worker in seconds (a hit means "inconclusive", exit 2)
    fn watchdog_s(&self, tier: Tier) -> u64 {
        tier.pick(1500, 14400)
    }
}

// ---------------------------------------------------------------------------------------------
// Generic proptest driver

pub struct Driver<'a> {
    pub cfg: &'a ShardCfg,
    pub id: &'static str,
    pub res: ShardResult,
    seen: HashSet<u64>,
    sample_every: u64,
    /// ordinal of the current run()/run_list() call (deterministic per property); the journal
    /// position is (call_seq, index within the call)
    call_seq: u64,
}

fn write_journal(cfg: &ShardCfg, kind: &str, case: &Value, stream: u64, index: u64) {
    if let Some(p) = &cfg.journal {
        // atomic replace: the master may read the journal at any moment
        let tmp = p.with_extension("jtmp");
        if std::fs::write(&tmp, serde_json::to_vec(&json!({"kind": kind, "case": case, "stream": stream, "index": index})).unwrap()).is_ok() {
            let _ = std::fs::rename(&tmp, p);
        }
    }
}

impl<'a> Driver<'a> {
    pub fn new(cfg: &'a ShardCfg, id: &'static str) -> Self {
        Driver { cfg, id, res: ShardResult::default(), seen: HashSet::new(), sample_every: 1, call_seq: 0 }
    }

    pub fn finish(mut self) -> ShardResult {
        self.res.nontrivial_hashes = self.seen.into_iter().collect();
        self.res
    }

    /// write what has been measured so far (read by the master if this process dies or hangs)
    pub fn dump_partial(&self) {
        if let Some(out) = &self.cfg.out {
            let mut r = self.res.clone();
            r.nontrivial_hashes = self.seen.iter().cloned().collect();
            let tmp = out.with_extension("part");
            if std::fs::write(&tmp, serde_json::to_vec(&r).unwrap()).is_ok() {
                let _ = std::fs::rename(&tmp, out);
            }
        }
    }

    pub fn note(&mut self, s: impl Into<String>) {
        if self.res.notes.len() < 20 {
            self.res.notes.push(s.into());
        }
    }

    pub fn record_pass(&mut self, case_json: &Value, nontrivial: bool, classes: &[String]) {
        self.res.evaluations += 1;
        for c in classes {
            *self.res.classes.entry(c.clone()).or_default() += 1;
        }
        if nontrivial {
            let h = fnv64(case_json.to_string().as_bytes());
            self.seen.insert(h);
        }
        // keep a few samples: first ones, then sparser
        let n = self.res.evaluations;
        if self.res.samples.len() < 6 && (n <= 2 || n % self.sample_every == 0) && (nontrivial || n <= 2) {
            self.res.samples.push(case_json.clone());
            self.sample_every = (self.sample_every * 7).max(5);
        }
    }

    /// Drive `n` cases of `strategy` through `check`. `mk_env` builds fresh state; the
    /// environment is rebuilt every `refresh` cases and after any panic / failure.
    /// `kind` labels the replay files. Stops at the first confirmed unknown failure
    /// (after shrinking); known-open signatures are tolerated and counted.
    pub fn run<C, S, E>(
        &mut self,
        kind: &str,
        stream: u64,
        n: u64,
        refresh: u64,
        strategy: S,
        mk_env: &dyn Fn() -> E,
        check: &dyn Fn(&mut E, &C) -> Verdict,
    ) where
        C: Debug + Clone + Serialize + DeserializeOwned,
        S: Strategy<Value = C>,
    {
        if n == 0 || !self.res.failures.is_empty() {
            return;
        }
        // restarted behind a stuck case: earlier streams were already run by the previous process
        let call_seq = self.call_seq;
        self.call_seq += 1;
        let skip_upto: Option<u64> = match self.cfg.resume {
            Some((s, _)) if call_seq < s => return,
            Some((s, i)) if call_seq == s => Some(i),
            _ => None,
        };
        let case_index = RefCell::new(0u64);
        let seed = self.cfg.rng_seed(self.id, stream);
        let mut seed_bytes = [0u8; 32];
        for i in 0..4 {
            seed_bytes[i * 8..(i + 1) * 8].copy_from_slice(&seed.wrapping_add((i as u64).wrapping_mul(0x9E3779B97F4A7C15)).to_le_bytes());
        }
        let config = Config {
            cases: n as u32,
            failure_persistence: None,
            max_shrink_iters: 400,
            max_global_rejects: 1_000_000,
            ..Config::default()
        };
        let mut runner = TestRunner::new_with_rng(config, TestRng::from_seed(RngAlgorithm::ChaCha, &seed_bytes));

        let env: RefCell<Option<E>> = RefCell::new(None);
        let env_age = RefCell::new(0u64);
        let shrinking: RefCell<Option<String>> = RefCell::new(None); // signature being shrunk
        let last_fail: RefCell<Option<(String, String)>> = RefCell::new(None);
        let this = RefCell::new(self);
        let cfg = this.borrow().cfg.clone();

        let result = runner.run(&strategy, |case: C| {
            let case_json = serde_json::to_value(&case).unwrap();
            let shrink_sig = shrinking.borrow().clone();
            if let Some(sig) = shrink_sig {
                // shrinking mode: every candidate on a fresh environment
                let mut e = mk_env();
                let v = catch_check(check, &mut e, &case);
                return match v {
                    // a candidate that fails with a *listed known* signature is not a smaller instance
                    // of the unknown failure being shrunk: never shrink into a known finding
                    Verdict::Fail { signature, detail } if shrink_key(&signature) == sig && !is_known_open(&signature) => {
                        *last_fail.borrow_mut() = Some((signature.clone(), detail));
                        Err(TestCaseError::fail(signature))
                    }
                    _ => Ok(()),
                };
            }
            let idx = {
                let mut ci = case_index.borrow_mut();
                let v = *ci;
                *ci += 1;
                v
            };
            if let Some(upto) = skip_upto {
                if idx <= upto {
                    return Ok(()); // generated (keeps the random stream identical) but already explored
                }
            }
            write_journal(&cfg, kind, &case_json, call_seq, idx);
            if idx % 64 == 63 {
                this.borrow().dump_partial();
            }
            {
                let mut age = env_age.borrow_mut();
                if env.borrow().is_none() || *age >= refresh {
                    *env.borrow_mut() = Some(mk_env());
                    *age = 0;
                }
                *age += 1;
            }
            let v = {
                let mut eb = env.borrow_mut();
                catch_check(check, eb.as_mut().unwrap(), &case)
            };
            match v {
                Verdict::Pass { nontrivial, classes } => {
                    this.borrow_mut().record_pass(&case_json, nontrivial, &classes);
                    Ok(())
                }
                Verdict::Discard(why) => {
                    let mut t = this.borrow_mut();
                    t.res.discarded += 1;
                    t.res.evaluations += 1;
                    *t.res.classes.entry(format!("discard:{why}")).or_default() += 1;
                    Ok(())
                }
                Verdict::Fail { signature, detail } => {
                    // throw the environment away: it may be poisoned
                    *env.borrow_mut() = None;
                    if is_known_open(&signature) || survey(this.borrow().id, &signature, kind, &case_json, &detail) {
                        let mut t = this.borrow_mut();
                        t.res.evaluations += 1;
                        *t.res.excluded_known.entry(signature).or_default() += 1;
                        return Ok(());
                    }
                    // confirm on a fresh environment
                    let mut e = mk_env();
                    let v2 = catch_check(check, &mut e, &case);
                    match v2 {
                        Verdict::Fail { signature: s2, detail: d2 } => {
                            if is_known_open(&s2) {
                                let mut t = this.borrow_mut();
                                t.res.evaluations += 1;
                                *t.res.excluded_known.entry(s2).or_default() += 1;
                                return Ok(());
                            }
                            *shrinking.borrow_mut() = Some(shrink_key(&s2));
                            *last_fail.borrow_mut() = Some((s2.clone(), d2));
                            Err(TestCaseError::fail(s2))
                        }
                        _ => {
                            let mut t = this.borrow_mut();
                            t.res.evaluations += 1;
                            t.res.unconfirmed += 1;
                            t.note(format!("unconfirmed (state-dependent) failure {signature}: {detail} case={case_json}"));
                            Ok(())
                        }
                    }
                }
            }
        });

        let me = this.into_inner();
        match result {
            Ok(()) => {}
            Err(TestError::Fail(_, minimal)) => {
                let (sig, detail) = last_fail.borrow().clone().unwrap_or_default();
                // re-evaluate the minimal case for an accurate detail line
                let mut e = mk_env();
                let (sig, detail) = match catch_check(check, &mut e, &minimal) {
                    Verdict::Fail { signature, detail } => (signature, detail),
                    _ => (sig, detail),
                };
                me.res.failures.push(Failure { signature: sig, detail, case: serde_json::to_value(&minimal).unwrap(), kind: kind.to_string() });
            }
            Err(TestError::Abort(why)) => {
                me.note(format!("proptest aborted: {why}"));
            }
        }
    }

    /// Run an explicit list of cases (exhaustive enumerations, ladders).
    pub fn run_list<C, E>(&mut self, kind: &str, cases: Vec<C>, refresh: u64, mk_env: &dyn Fn() -> E, check: &dyn Fn(&mut E, &C) -> Verdict)
    where
        C: Debug + Clone + Serialize,
    {
        let call_seq = self.call_seq;
        self.call_seq += 1;
        let skip_upto: Option<u64> = match self.cfg.resume {
            Some((s, _)) if call_seq < s => return,
            Some((s, i)) if call_seq == s => Some(i),
            _ => None,
        };
        let mut env: Option<E> = None;
        let mut age = 0u64;
        for (idx, case) in cases.into_iter().enumerate() {
            if !self.res.failures.is_empty() {
                return;
            }
            if let Some(upto) = skip_upto {
                if idx as u64 <= upto {
                    continue;
                }
            }
            let case_json = serde_json::to_value(&case).unwrap();
            write_journal(self.cfg, kind, &case_json, call_seq, idx as u64);
            if idx % 64 == 63 {
                self.dump_partial();
            }
            if env.is_none() || age >= refresh {
                env = Some(mk_env());
                age = 0;
            }
            age += 1;
            let v = catch_check(check, env.as_mut().unwrap(), &case);
            match v {
                Verdict::Pass { nontrivial, classes } => self.record_pass(&case_json, nontrivial, &classes),
                Verdict::Discard(why) => {
                    self.res.discarded += 1;
                    self.res.evaluations += 1;
                    *self.res.classes.entry(format!("discard:{why}")).or_default() += 1;
                }
                Verdict::Fail { signature, detail } => {
                    env = None;
                    self.res.evaluations += 1;
                    if is_known_open(&signature) {
                        *self.res.excluded_known.entry(signature).or_default() += 1;
                        continue;
                    }
                    let mut e = mk_env();
                    match catch_check(check, &mut e, &case) {
                        Verdict::Fail { signature: s2, detail: d2 } => {
                            if is_known_open(&s2) {
                                *self.res.excluded_known.entry(s2).or_default() += 1;
                                continue;
                            }
                            self.res.failures.push(Failure { signature: s2, detail: d2, case: case_json, kind: kind.to_string() });
                        }
                        _ => {
                            self.res.unconfirmed += 1;
                            self.note(format!("unconfirmed failure {signature}: {detail}"));
                        }
                    }
                }
            }
        }
    }
}

/// Shrinking keeps the failure *class* (text before the first ':'; panics keep their location)
/// so that the minimal case may have a different detailed signature.
pub fn shrink_key(sig: &str) -> String {
    if sig.starts_with("panic") || sig.starts_with("crash") {
        sig.to_string()
    } else {
        sig.split(':').next().unwrap_or(sig).to_string()
    }
}

pub fn catch_check<E, C>(check: &dyn Fn(&mut E, &C) -> Verdict, env: &mut E, case: &C) -> Verdict {
    let r = catch_unwind(AssertUnwindSafe(|| check(env, case)));
    // every allocation carries a canary red zone (guard_alloc.rs): a write past the end of any
    // block, e.g. past the reserved capacity of a term heap, shows up here
    if let Some((n, size, off)) = crate::guard_alloc::take_corruptions() {
        if !matches!(r, Ok(Verdict::Fail { .. })) {
            return Verdict::fail("heap-overrun:canary", format!("{n} allocation(s) were written past their end (last: block of {size} bytes, first bad byte {off} past the end)"));
        }
    }
    match r {
        Ok(v) => v,
        Err(_) => {
            let p = crate::session::take_last_panic();
            // a panic that escaped the session layer: classify by location
            let loc = p.split_whitespace().next().unwrap_or("?").to_string();
            if loc.starts_with("harness:") {
                // a bug of the harness itself: never a verdict on scryer; the master turns any
                // such discard into exit 2 (inconclusive)
                Verdict::Discard(format!("harness-panic {loc}"))
            } else {
                Verdict::fail(format!("panic:{loc}"), p)
            }
        }
    }
}

/// Generate one value from a strategy with an explicit seed (for ad-hoc sampling).
pub fn sample_one<S: Strategy>(strategy: &S, seed: u64) -> S::Value {
    let mut seed_bytes = [0u8; 32];
    seed_bytes[..8].copy_from_slice(&seed.to_le_bytes());
    let mut runner = TestRunner::new_with_rng(Config::default(), TestRng::from_seed(RngAlgorithm::ChaCha, &seed_bytes));
    strategy.new_tree(&mut runner).unwrap().current()
}

/// Helper for `Prop::replay` implementations.
pub fn replay_case<C: DeserializeOwned, E>(case: &Value, mk_env: &dyn Fn() -> E, check: &dyn Fn(&mut E, &C) -> Verdict) -> Verdict {
    let c: C = match serde_json::from_value(case.clone()) {
        Ok(c) => c,
        Err(e) => return Verdict::Discard(format!("replay: cannot decode case: {e}")),
    };
    let mut env = mk_env();
    catch_check(check, &mut env, &c)
}

// ---------------------------------------------------------------------------------------------
// Master: spawn workers, aggregate, evidence, verdict lines

#[derive(Serialize, Deserialize)]
pub struct ReplayFile {
    pub property: String,
    pub kind: String,
    pub signature: String,
    pub detail: String,
    pub case: Value,
}

pub fn save_replay(id: &str, f: &Failure) -> PathBuf {
    let dir = Path::new(&verif_dir()).join("replays").join(id);
    std::fs::create_dir_all(&dir).ok();
    let rf = ReplayFile { property: id.to_string(), kind: f.kind.clone(), signature: f.signature.clone(), detail: f.detail.clone(), case: f.case.clone() };
    let body = serde_json::to_string_pretty(&rf).unwrap();
    let h = fnv64(format!("{}{}", f.signature, f.case).as_bytes());
    let p = dir.join(format!("{:016x}.json", h));
    std::fs::write(&p, body).ok();
    p
}

pub fn run_master(prop: &dyn Prop, tier: Tier, seed: u64) -> i32 {
    let id = prop.id();
    let t0 = Instant::now();
    let known = load_known(id);
    let exe = std::env::current_exe().unwrap();
    let mut exit_code = 0;
    let mut violations: Vec<(String, PathBuf)> = vec![];
    let mut known_lines: Vec<String> = vec![];
    let mut witness_notes: Vec<Value> = vec![];

    // 1. witnesses of known findings + stored regression replays (each in a child process with a
    //    timeout, up to 8 at a time; a witness that hangs or crashes "still fails")
    let replay_timeout = prop.case_timeout_s(tier) * 2 + 30;
    let with_witness: Vec<&KnownFinding> = known.iter().filter(|k| k.witness.is_some()).collect();
    let wpaths: Vec<PathBuf> = with_witness.iter().map(|k| Path::new(&verif_dir()).join(k.witness.as_ref().unwrap())).collect();
    let wouts = replay_many(&exe, id, &wpaths, replay_timeout);
    for ((k, wp), stdout) in with_witness.iter().zip(wpaths.iter()).zip(wouts.iter()) {
        // replay --raw prints "RESULT pass|discard|fail <signature>"; a crash or hang gives no RESULT line
        let still_fails = !stdout.lines().any(|l| l.starts_with("RESULT pass") || l.starts_with("RESULT discard"));
        match (k.status.as_str(), still_fails) {
            ("open", true) => known_lines.push(format!("KNOWN-FINDING: property={} {} -- {}", id, k.signature, k.what)),
            ("open", false) => witness_notes.push(json!({"signature": k.signature, "status": "no-longer-reproduces"})),
            ("fixed", true) => violations.push((format!("regression of fixed finding {}", k.signature), wp.clone())),
            ("fixed", false) => witness_notes.push(json!({"signature": k.signature, "status": "fixed-still-passes"})),
            _ => {}
        }
    }
    for k in known.iter().filter(|k| k.witness.is_none() && k.status == "open") {
        known_lines.push(format!("KNOWN-FINDING: property={} {} -- {}", id, k.signature, k.what));
    }
    // regression replays (saved mutant / fixed-defect cases): /verif/regress/<id>/*.json must pass
    let rdir = Path::new(&verif_dir()).join("regress").join(id);
    let mut regress_run = 0;
    if let Ok(rd) = std::fs::read_dir(&rdir) {
        let mut files: Vec<PathBuf> = rd.filter_map(|e| e.ok()).map(|e| e.path()).filter(|p| p.extension().map(|x| x == "json").unwrap_or(false)).collect();
        files.sort();
        regress_run = files.len();
        let outs = replay_many(&exe, id, &files, replay_timeout);
        for (f, stdout) in files.iter().zip(outs.iter()) {
            let passed = stdout.lines().any(|l| l.starts_with("RESULT pass") || l.starts_with("RESULT discard"));
            if !passed {
                let sig = stdout.lines().find_map(|l| l.strip_prefix("RESULT fail ").map(|s| s.trim().to_string())).unwrap_or_else(|| if stdout.contains("HANG") { "hang".into() } else { "crash".into() });
                if !known.iter().any(|k| k.status == "open" && k.signature == sig) {
                    violations.push((format!("regression replay fails: {sig}"), f.clone()));
                }
            }
        }
    }

    // 2. workers
    let ncpu = std::thread::available_parallelism().map(|n| n.get() as u32).unwrap_or(16);
    let jobs: u32 = std::env::var("VERIF_JOBS").ok().and_then(|s| s.parse().ok()).unwrap_or(ncpu);
    let nshards = prop.workers(tier).unwrap_or(jobs).max(1);
    let tmp = Path::new(&verif_dir()).join("scratch").join(format!("{}-{}", id, std::process::id()));
    std::fs::create_dir_all(&tmp).ok();
    // Each shard is a worker process. A worker that dies (abort, segfault, stack overflow) or that
    // sits on one case longer than the property's per-case timeout is stopped; the journaled case is
    // confirmed in a child process (crash / hang reproduced from the saved input alone), classified,
    // and the shard is restarted just behind that case so the search continues.
    struct Shard {
        shard: u32,
        child: Option<std::process::Child>,
        out: PathBuf,
        journal: PathBuf,
        errfile: PathBuf,
        resume: Option<(u64, u64)>,
        restarts: u32,
        last_journal: Option<std::time::SystemTime>,
        last_change: Instant,
    }
    let spawn = |sh: &Shard| -> std::process::Child {
        let mut args: Vec<String> = vec!["worker".into(), id.into(), "--tier".into(), tier.name().into(), "--seed".into(), seed.to_string(), "--shard".into(), sh.shard.to_string(), "--of".into(), nshards.to_string(), "--out".into(), sh.out.to_str().unwrap().into(), "--journal".into(), sh.journal.to_str().unwrap().into()];
        if let Some((s, i)) = sh.resume {
            args.push("--resume".into());
            args.push(format!("{s}:{i}"));
        }
        std::process::Command::new(&exe).args(&args).stdout(std::process::Stdio::null()).stderr(std::fs::File::create(&sh.errfile).unwrap()).spawn().expect("spawn worker")
    };
    let mut shards: Vec<Shard> = vec![];
    for shard in 0..nshards {
        let mut sh = Shard { shard, child: None, out: tmp.join(format!("shard{shard}.json")), journal: tmp.join(format!("journal{shard}.json")), errfile: tmp.join(format!("err{shard}.txt")), resume: None, restarts: 0, last_journal: None, last_change: Instant::now() };
        sh.child = Some(spawn(&sh));
        shards.push(sh);
    }
    let watchdog = std::time::Duration::from_secs(prop.watchdog_s(tier));
    let case_timeout = std::time::Duration::from_secs(prop.case_timeout_s(tier));
    let mut total = ShardResult::default();
    let mut inconclusive: Vec<String> = vec![];
    let read_partial = |out: &Path| -> Option<ShardResult> { std::fs::read_to_string(out).ok().and_then(|s| serde_json::from_str::<ShardResult>(&s).ok()) };
    loop {
        let mut live = 0;
        for sh in shards.iter_mut() {
            let Some(child) = sh.child.as_mut() else { continue };
            let mut stuck: Option<&str> = None; // "hang" | "died"
            let mut exit_desc = String::new();
            match child.try_wait() {
                Ok(Some(st)) if st.success() => {
                    match read_partial(&sh.out) {
                        Some(r) => total.merge(r),
                        None => inconclusive.push(format!("shard {}: no result file", sh.shard)),
                    }
                    sh.child = None;
                    continue;
                }
                Ok(Some(st)) => {
                    stuck = Some("died");
                    exit_desc = format!("{st}");
                }
                Ok(None) => {
                    live += 1;
                    if t0.elapsed() > watchdog {
                        let _ = child.kill();
                        let _ = child.wait();
                        if let Some(r) = read_partial(&sh.out) {
                            total.merge(r);
                        }
                        inconclusive.push(format!("shard {}: run watchdog ({}s) hit", sh.shard, watchdog.as_secs()));
                        sh.child = None;
                        continue;
                    }
                    let mt = std::fs::metadata(&sh.journal).and_then(|m| m.modified()).ok();
                    if mt != sh.last_journal {
                        sh.last_journal = mt;
                        sh.last_change = Instant::now();
                    } else if sh.last_change.elapsed() > case_timeout && mt.is_some() {
                        let _ = child.kill();
                        let _ = child.wait();
                        stuck = Some("hang");
                        exit_desc = format!("no progress for {}s", case_timeout.as_secs());
                    }
                }
                Err(_) => {
                    stuck = Some("died");
                }
            }
            let Some(how) = stuck else { continue };
            sh.child = None;
            if let Some(r) = read_partial(&sh.out) {
                total.merge(r);
            }
            let _ = std::fs::remove_file(&sh.out);
            let stderr = std::fs::read(&sh.errfile).map(|b| String::from_utf8_lossy(&b).to_string()).unwrap_or_default();
            let tail: String = stderr.lines().rev().take(6).collect::<Vec<_>>().into_iter().rev().collect::<Vec<_>>().join(" | ");
            let Some(j) = std::fs::read_to_string(&sh.journal).ok().and_then(|s| serde_json::from_str::<Value>(&s).ok()) else {
                inconclusive.push(format!("shard {}: worker {how} ({exit_desc}) without journal: {tail}", sh.shard));
                continue;
            };
            let kind = j["kind"].as_str().unwrap_or("case").to_string();
            let case = j["case"].clone();
            let pos = (j["stream"].as_u64().unwrap_or(0), j["index"].as_u64().unwrap_or(0));
            // confirm from the saved input alone, in a child, with twice the per-case timeout
            let f = Failure { signature: "stuck:unconfirmed".into(), detail: format!("worker {how} ({exit_desc}): {tail}"), case: case.clone(), kind: kind.clone() };
            let p = save_replay(id, &f);
            // a hang whose class (computed from the case alone) is a listed known finding is not
            // re-run: confirming it would only spend the timeout again
            let guess = prop.classify_stuck(&kind, &case, "hang");
            let (confirmed, err_tail) = if how == "hang" && known.iter().any(|k| k.status == "open" && k.signature == guess) {
                (Some("hang"), String::new())
            } else {
                confirm_stuck(&exe, id, &p, case_timeout.as_secs() * 2 + 20)
            };
            let _ = std::fs::remove_file(&p);
            match confirmed {
                Some("fail") => {
                    let (sig, detail) = err_tail.split_once('\u{1}').map(|(a, b)| (a.to_string(), b.to_string())).unwrap_or((err_tail.clone(), String::new()));
                    if known.iter().any(|k| k.status == "open" && k.signature == sig) || survey(id, &sig, &kind, &case, "fail") {
                        *total.excluded_known.entry(sig).or_default() += 1;
                    } else {
                        total.failures.push(Failure { signature: sig, detail: format!("the worker died on this case ({exit_desc}); alone it fails: {detail}"), case, kind });
                    }
                }
                Some(what) => {
                    let base = if what == "hang" { "hang".to_string() } else { crash_signature(&err_tail, &tail) };
                    let sig = prop.classify_stuck(&kind, &case, &base);
                    if known.iter().any(|k| k.status == "open" && k.signature == sig) || survey(id, &sig, &kind, &case, what) {
                        *total.excluded_known.entry(sig).or_default() += 1;
                    } else {
                        total.failures.push(Failure { signature: sig, detail: format!("{what} reproduced from the saved case alone: {err_tail}"), case, kind });
                    }
                }
                None => {
                    total.unconfirmed += 1;
                    if total.notes.len() < 20 {
                        total.notes.push(format!("shard {}: worker {how} ({exit_desc}) but the journaled case passes alone; restarted behind it: {tail}", sh.shard));
                    }
                }
            }
            // continue the search behind the stuck case
            if sh.restarts < 200 && total.failures.len() < 4 {
                sh.restarts += 1;
                sh.resume = Some(pos);
                sh.last_journal = None;
                sh.last_change = Instant::now();
                let _ = std::fs::remove_file(&sh.journal);
                sh.child = Some(spawn(sh));
                live += 1;
            } else {
                inconclusive.push(format!("shard {}: stopped after {} restarts", sh.shard, sh.restarts));
            }
        }
        if live == 0 {
            break;
        }
        std::thread::sleep(std::time::Duration::from_millis(40));
    }
    let restarts: u32 = shards.iter().map(|s| s.restarts).sum();
    total.extra.insert("worker_restarts_after_crash_or_hang".into(), json!(restarts as u64));
    let _ = std::fs::remove_dir_all(&tmp);

    // 3. verdicts
    let mut seen_sigs = HashSet::new();
    for f in &total.failures {
        if known.iter().any(|k| k.status == "open" && k.signature == f.signature) {
            *total.excluded_known.entry(f.signature.clone()).or_default() += 1;
            continue;
        }
        if !seen_sigs.insert(f.signature.clone()) || seen_sigs.len() > 8 {
            continue;
        }
        let p = save_replay(id, f);
        violations.push((format!("{} :: {}", f.signature, f.detail), p));
    }
    let nt: HashSet<u64> = total.nontrivial_hashes.iter().cloned().collect();

    // 4. evidence
    let mut coverage = serde_json::Map::new();
    coverage.insert("evaluations".into(), json!(total.evaluations));
    coverage.insert("distinct_nontrivial".into(), json!(nt.len()));
    coverage.insert("rule".into(), json!(prop.rule()));
    coverage.insert("samples".into(), json!(total.samples));
    coverage.insert("classes".into(), json!(total.classes));
    coverage.insert("discarded".into(), json!(total.discarded));
    coverage.insert("excluded_known".into(), json!(total.excluded_known));
    coverage.insert("unconfirmed_state_dependent".into(), json!(total.unconfirmed));
    coverage.insert("regression_replays_run".into(), json!(regress_run));
    coverage.insert("known_finding_witnesses".into(), json!(witness_notes));
    coverage.insert("workers".into(), json!(nshards));
    coverage.insert("exhaustive".into(), json!(total.exhaustive));
    if !total.notes.is_empty() {
        coverage.insert("notes".into(), json!(total.notes));
    }
    if !inconclusive.is_empty() {
        coverage.insert("inconclusive".into(), json!(inconclusive));
    }
    for (k, v) in &total.extra {
        coverage.insert(k.clone(), v.clone());
    }
    let ev = json!({
        "property_id": id,
        "tier": tier.name(),
        "seed": seed,
        "level": prop.level(),
        "coverage": Value::Object(coverage),
        "assumptions": prop.assumptions(),
        "wall_s": (t0.elapsed().as_secs_f64() * 100.0).round() / 100.0,
        "violations": violations.len(),
    });
    let evdir = Path::new(&verif_dir()).join("evidence");
    std::fs::create_dir_all(&evdir).ok();
    std::fs::write(evdir.join(format!("{id}.json")), serde_json::to_string_pretty(&ev).unwrap()).expect("write evidence");

    for l in &known_lines {
        println!("{l}");
    }
    for (what, p) in &violations {
        println!("VIOLATION property={} replay={}", id, p.display());
        println!("  detail: {}", what.chars().take(600).collect::<String>());
        exit_code = 1;
    }
    for (k, v) in &total.classes {
        if k.starts_with("discard:harness-panic") {
            inconclusive.push(format!("{v} case(s) hit a panic inside the harness itself: {k}"));
        }
    }
    if total.evaluations == 0 {
        inconclusive.push("no case was evaluated".to_string());
    }
    if total.evaluations > 0 && total.discarded * 2 > total.evaluations {
        inconclusive.push(format!("more than half of the generated cases were discarded ({} of {})", total.discarded, total.evaluations));
    }
    if exit_code == 0 && !inconclusive.is_empty() {
        for i in &inconclusive {
            println!("INCONCLUSIVE property={id} {i}");
        }
        exit_code = 2;
    }
    println!(
        "{} tier={} seed={} evaluations={} distinct_nontrivial={} excluded_known={} violations={} wall={:.1}s",
        id,
        tier.name(),
        seed,
        total.evaluations,
        nt.len(),
        total.excluded_known.values().sum::<u64>(),
        violations.len(),
        t0.elapsed().as_secs_f64()
    );
    exit_code
}

/// Replay several files (`vcheck replay <id> <file> --raw`) in child processes, at most 8 at a time,
/// each killed after `timeout_s`. Returns each child's stdout ("HANG" appended when it was killed).
fn replay_many(exe: &Path, id: &str, files: &[PathBuf], timeout_s: u64) -> Vec<String> {
    let mut outs: Vec<String> = vec![String::new(); files.len()];
    let dir = Path::new(&verif_dir()).join("scratch").join(format!("replays-{}-{}", id, std::process::id()));
    let _ = std::fs::create_dir_all(&dir);
    let mut running: Vec<(usize, std::process::Child, Instant, PathBuf)> = vec![];
    let mut next = 0usize;
    while next < files.len() || !running.is_empty() {
        while next < files.len() && running.len() < 8 {
            let outp = dir.join(format!("o{next}.txt"));
            if let Ok(c) = std::process::Command::new(exe)
                .args(["replay", id, files[next].to_str().unwrap(), "--raw"])
                .stdout(std::fs::File::create(&outp).unwrap())
                .stderr(std::process::Stdio::null())
                .spawn()
            {
                running.push((next, c, Instant::now(), outp));
            }
            next += 1;
        }
        let mut i = 0;
        while i < running.len() {
            let done = match running[i].1.try_wait() {
                Ok(Some(_)) => Some(false),
                Ok(None) if running[i].2.elapsed().as_secs() > timeout_s => {
                    let _ = running[i].1.kill();
                    let _ = running[i].1.wait();
                    Some(true)
                }
                Ok(None) => None,
                Err(_) => Some(false),
            };
            if let Some(hung) = done {
                let (idx, _, _, outp) = running.remove(i);
                let mut s = std::fs::read_to_string(&outp).unwrap_or_default();
                if hung {
                    s.push_str("\nHANG\n");
                }
                outs[idx] = s;
                let _ = std::fs::remove_file(&outp);
            } else {
                i += 1;
            }
        }
        std::thread::sleep(std::time::Duration::from_millis(20));
    }
    let _ = std::fs::remove_dir_all(&dir);
    outs
}

/// Re-run a saved case alone in a child process. Some("hang") when it exceeds the timeout,
/// Some("crash") when the child dies without printing a RESULT line, None when it completes.
fn confirm_stuck(exe: &Path, id: &str, replay: &Path, timeout_s: u64) -> (Option<&'static str>, String) {
    let errp = replay.with_extension("err");
    let outp = replay.with_extension("out");
    let mut child = match std::process::Command::new(exe)
        .args(["replay", id, replay.to_str().unwrap(), "--raw"])
        .stdout(std::fs::File::create(&outp).unwrap())
        .stderr(std::fs::File::create(&errp).unwrap())
        .spawn()
    {
        Ok(c) => c,
        Err(e) => return (None, e.to_string()),
    };
    let t0 = Instant::now();
    let mut hung = false;
    loop {
        match child.try_wait() {
            Ok(Some(_)) => break,
            Ok(None) => {
                if t0.elapsed().as_secs() > timeout_s {
                    let _ = child.kill();
                    let _ = child.wait();
                    hung = true;
                    break;
                }
                std::thread::sleep(std::time::Duration::from_millis(20));
            }
            Err(_) => break,
        }
    }
    let stdout = std::fs::read_to_string(&outp).unwrap_or_default();
    let stderr = std::fs::read(&errp).map(|b| String::from_utf8_lossy(&b).to_string()).unwrap_or_default();
    let _ = std::fs::remove_file(&outp);
    let _ = std::fs::remove_file(&errp);
    let err_tail = stderr.lines().rev().take(4).collect::<Vec<_>>().join(" | ");
    if hung {
        (Some("hang"), err_tail)
    } else if !stdout.lines().any(|l| l.starts_with("RESULT ")) {
        (Some("crash"), err_tail)
    } else if let Some(sig) = stdout.lines().find_map(|l| l.strip_prefix("RESULT fail ")) {
        // the case fails in an ordinary way when run alone (e.g. a panic that killed the worker
        // because it happened outside the checked call): report it with its own signature
        let detail = stdout.lines().find(|l| l.trim_start().starts_with("detail:")).unwrap_or("").trim().to_string();
        (Some("fail"), format!("{}\u{1}{}", sig.trim(), detail))
    } else {
        (None, err_tail)
    }
}

fn crash_signature(err_tail: &str, worker_tail: &str) -> String {
    let t = format!("{err_tail} {worker_tail}");
    if t.contains("has overflowed its stack") || t.contains("stack overflow") {
        "crash:stack-overflow".into()
    } else if t.contains("SIGSEGV") || t.contains("signal: 11") {
        "crash:sigsegv".into()
    } else if t.contains("signal: 6") || t.contains("SIGABRT") {
        "crash:abort".into()
    } else {
        "crash:other".into()
    }
}

pub fn run_worker(prop: &dyn Prop, cfg: &ShardCfg, out: &Path) -> i32 {
    let known = load_known(prop.id());
    set_known_open(known.iter().filter(|k| k.status == "open").map(|k| k.signature.clone()).collect());
    let res = match catch_unwind(AssertUnwindSafe(|| prop.run_shard(cfg))) {
        Ok(r) => r,
        Err(_) => {
            eprintln!("worker panic: {}", crate::session::take_last_panic());
            return 101;
        }
    };
    std::fs::write(out, serde_json::to_vec(&res).unwrap()).expect("write shard result");
    0
}

pub fn run_replay(prop: &dyn Prop, file: &Path, raw: bool) -> i32 {
    let body = match std::fs::read_to_string(file) {
        Ok(b) => b,
        Err(e) => {
            eprintln!("cannot read replay file {}: {e}", file.display());
            return 2;
        }
    };
    let rf: ReplayFile = match serde_json::from_str(&body) {
        Ok(r) => r,
        Err(e) => {
            eprintln!("cannot parse replay file: {e}");
            return 2;
        }
    };
    let v = match catch_unwind(AssertUnwindSafe(|| prop.replay(&rf.kind, &rf.case))) {
        Ok(v) => v,
        Err(_) => Verdict::fail(format!("panic:{}", crate::session::take_last_panic().split_whitespace().next().unwrap_or("?")), "panic during replay"),
    };
    match v {
        Verdict::Pass { .. } => {
            println!("RESULT pass");
            0
        }
        Verdict::Discard(w) => {
            println!("RESULT discard {w}");
            0
        }
        Verdict::Fail { signature, detail } => {
            println!("RESULT fail {signature}");
            if !raw {
                let known = load_known(prop.id());
                if known.iter().any(|k| k.status == "open" && k.signature == signature) {
                    println!("KNOWN-FINDING: property={} {}", prop.id(), signature);
                    println!("  detail: {detail}");
                    return 0;
                }
                println!("VIOLATION property={} replay={}", prop.id(), file.display());
            }
            println!("  detail: {detail}");
            1
        }
    }
}

// ---------------------------------------------------------------------------------------------
// Child processes (one case per process, main thread with the default 8 MiB stack)

#[derive(Clone, Debug)]
pub struct ChildOutcome {
    /// exit code when the child exited normally
    pub code: Option<i32>,
    /// terminating signal, if any
    pub signal: Option<i32>,
    pub timed_out: bool,
    pub stdout: String,
    pub stderr: String,
}

impl ChildOutcome {
    pub fn stack_overflow(&self) -> bool {
        self.stderr.contains("has overflowed its stack") || self.stderr.contains("stack overflow")
    }
    pub fn crashed(&self) -> bool {
        self.signal.is_some() || self.stack_overflow()
    }
}

static CHILD_SEQ: std::sync::atomic::AtomicU64 = std::sync::atomic::AtomicU64::new(0);

/// Run `vcheck child <id> <mode> <input>` and wait for it (killed after `timeout_s`).
/// `env` adds environment variables (e.g. RUST_MIN_STACK is irrelevant: the case runs on the main thread).
pub fn run_child(id: &str, mode: &str, input: &Value, timeout_s: u64, env: &[(&str, &str)]) -> ChildOutcome {
    use std::os::unix::process::ExitStatusExt;
    let exe = std::env::current_exe().unwrap();
    let dir = Path::new(&verif_dir()).join("scratch").join(format!("child-{}", std::process::id()));
    std::fs::create_dir_all(&dir).ok();
    let seq = CHILD_SEQ.fetch_add(1, std::sync::atomic::Ordering::SeqCst);
    let inp = dir.join(format!("in{seq}.json"));
    let outp = dir.join(format!("out{seq}.txt"));
    let errp = dir.join(format!("err{seq}.txt"));
    std::fs::write(&inp, serde_json::to_vec(input).unwrap()).unwrap();
    let mut cmd = std::process::Command::new(&exe);
    cmd.args(["child", id, mode, inp.to_str().unwrap()]);
    for (k, v) in env {
        cmd.env(k, v);
    }
    cmd.stdin(std::process::Stdio::null());
    cmd.stdout(std::fs::File::create(&outp).unwrap());
    cmd.stderr(std::fs::File::create(&errp).unwrap());
    let t0 = Instant::now();
    let mut child = cmd.spawn().expect("spawn child");
    let mut timed_out = false;
    let status = loop {
        match child.try_wait() {
            Ok(Some(st)) => break Some(st),
            Ok(None) => {
                if t0.elapsed().as_secs() >= timeout_s {
                    let _ = child.kill();
                    let _ = child.wait();
                    timed_out = true;
                    break None;
                }
                std::thread::sleep(std::time::Duration::from_millis(5));
            }
            Err(_) => break None,
        }
    };
    let stdout = std::fs::read_to_string(&outp).unwrap_or_default();
    let stderr = std::fs::read(&errp).map(|b| String::from_utf8_lossy(&b).to_string()).unwrap_or_default();
    let _ = std::fs::remove_file(&inp);
    let _ = std::fs::remove_file(&outp);
    let _ = std::fs::remove_file(&errp);
    let _ = std::fs::remove_dir(&dir);
    ChildOutcome { code: status.and_then(|s| s.code()), signal: status.and_then(|s| s.signal()), timed_out, stdout, stderr }
}
