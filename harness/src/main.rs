mod engine;
mod gen;
mod guard_alloc;
mod num;
mod props;
mod session;
#[path = "shared_mod.rs"]
mod shared;
mod term;

use engine::{ShardCfg, Tier};

#[global_allocator]
static GLOBAL: guard_alloc::Guard = guard_alloc::Guard;
use std::path::PathBuf;

fn arg_val(args: &[String], name: &str) -> Option<String> {
    args.iter().position(|a| a == name).and_then(|i| args.get(i + 1).cloned())
}

fn main() {
    let args: Vec<String> = std::env::args().collect();
    if args.len() < 2 {
        eprintln!("usage: vcheck run <ID> --tier quick|thorough | replay <ID> <file> | worker ... | list | q <goal> <template> [libs]");
        std::process::exit(2);
    }
    session::install_quiet_panic_hook();
    let cmd = args[1].as_str();
    if cmd == "list" {
        for p in props::all() {
            println!("{}", p.id());
        }
        return;
    }
    if cmd == "q" {
        // ad-hoc query for triage: vcheck q '<goal>' '<template>' [lib,lib]
        let libs: Vec<String> = args.get(4).map(|s| s.split(',').map(|x| x.to_string()).collect()).unwrap_or_default();
        let libs_ref: Vec<&str> = libs.iter().map(|s| s.as_str()).collect();
        let mut s = session::Session::new(&libs_ref);
        let o = s.ask(&args[2], args.get(3).map(|s| s.as_str()).unwrap_or("[]"));
        println!("{}", o.short());
        return;
    }
    let id = args.get(2).cloned().unwrap_or_default();
    let Some(prop) = props::all().into_iter().find(|p| p.id() == id) else {
        eprintln!("unknown property {id}");
        std::process::exit(2);
    };
    if cmd == "child" {
        // vcheck child <ID> <mode> <input.json>: single-case child process (main thread, default stack)
        let mode = args.get(3).cloned().unwrap_or_default();
        let input: serde_json::Value = args
            .get(4)
            .and_then(|p| std::fs::read_to_string(p).ok())
            .and_then(|s| serde_json::from_str(&s).ok())
            .unwrap_or(serde_json::Value::Null);
        std::process::exit(prop.child(&mode, &input));
    }
    let tier = match arg_val(&args, "--tier").as_deref() {
        Some("thorough") => Tier::Thorough,
        _ => Tier::Quick,
    };
    let seed: u64 = arg_val(&args, "--seed")
        .or_else(|| std::env::var("VERIF_SEED").ok())
        .and_then(|s| s.parse::<i64>().ok())
        .map(|v| v as u64)
        .unwrap_or(0);
    let code = match cmd {
        "run" => engine::run_master(prop, tier, seed),
        "worker" => {
            let cfg = ShardCfg {
                tier,
                seed,
                shard: arg_val(&args, "--shard").unwrap().parse().unwrap(),
                nshards: arg_val(&args, "--of").unwrap().parse().unwrap(),
                journal: arg_val(&args, "--journal").map(PathBuf::from),
                resume: arg_val(&args, "--resume").and_then(|s| {
                    let (a, b) = s.split_once(':')?;
                    Some((a.parse().ok()?, b.parse().ok()?))
                }),
                out: arg_val(&args, "--out").map(PathBuf::from),
            };
            let out = PathBuf::from(arg_val(&args, "--out").unwrap());
            engine::run_worker(prop, &cfg, &out)
        }
        "replay" => {
            let file = PathBuf::from(args.get(3).cloned().unwrap_or_default());
            let raw = args.iter().any(|a| a == "--raw");
            engine::run_replay(prop, &file, raw)
        }
        _ => {
            eprintln!("unknown command {cmd}");
            2
        }
    };
    std::process::exit(code);
}
