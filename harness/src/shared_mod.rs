//! Shared helper modules (generated list: every file in src/shared/).
#![allow(dead_code, unused_imports)]
include!(concat!(env!("OUT_DIR"), "/shared.rs"));
