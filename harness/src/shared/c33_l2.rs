//! C33 second layer (Prolog-level string workloads on a machine whose heap is filled to just below
//! its capacity) — see run().
use crate::engine::*;
use serde_json::Value;
pub fn run(_d: &mut Driver, _cfg: &ShardCfg) {}
pub fn replay(kind: &str, _case: &Value) -> Verdict {
    Verdict::Discard(format!("unknown kind {kind}"))
}
