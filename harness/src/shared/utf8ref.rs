//! Reference UTF-8 item decoder used by C18 (and by anything else that needs "what does the
//! byte string decode to, item by item").
//!
//! An *item* at byte offset `pos` of `bytes` is
//!   * `Char(c)`     — the next well-formed UTF-8 sequence,
//!   * `Bad(seq)`    — an ill-formed sequence; its extent is `Utf8Error::error_len()` of
//!                     `std::str::from_utf8`, i.e. the maximal prefix of a well-formed sequence
//!                     ("maximal subpart" of Unicode ch. 3 / W3C), at least one byte,
//!   * `BadTail(seq)`— a sequence that is a proper prefix of a well-formed one and is cut off by
//!                     the end of the input: all remaining bytes,
//!   * `End`.
//! Only a 4-byte window is inspected, so decoding a long input item by item is linear.

#[derive(Clone, Debug, PartialEq, Eq)]
pub enum Item {
    Char(char),
    Bad(Vec<u8>),
    BadTail(Vec<u8>),
    End,
}

impl Item {
    pub fn kind(&self) -> &'static str {
        match self {
            Item::Char(_) => "char",
            Item::Bad(_) => "bad",
            Item::BadTail(_) => "bad-trunc-end",
            Item::End => "end",
        }
    }
    /// number of input bytes the item covers
    pub fn len(&self) -> usize {
        match self {
            Item::Char(c) => c.len_utf8(),
            Item::Bad(b) | Item::BadTail(b) => b.len(),
            Item::End => 0,
        }
    }
}

/// The item at `pos`; `bytes` is the complete input.
pub fn item_at(bytes: &[u8], pos: usize) -> Item {
    match item_in_prefix(bytes, pos) {
        Some(i) => i,
        None => Item::BadTail(bytes[pos..].to_vec()),
    }
}

/// The item at `pos` as far as it is already determined by `bytes` when more bytes may still
/// follow: `None` = the bytes from `pos` on are a proper prefix of a well-formed sequence.
/// (`Some(End)` only says that nothing is there yet.)
pub fn item_in_prefix(bytes: &[u8], pos: usize) -> Option<Item> {
    if pos >= bytes.len() {
        return Some(Item::End);
    }
    let end = (pos + 4).min(bytes.len());
    let w = &bytes[pos..end];
    match std::str::from_utf8(w) {
        Ok(s) => Some(Item::Char(s.chars().next().unwrap())),
        Err(e) => {
            if e.valid_up_to() > 0 {
                let s = std::str::from_utf8(&w[..e.valid_up_to()]).unwrap();
                Some(Item::Char(s.chars().next().unwrap()))
            } else {
                match e.error_len() {
                    Some(n) => Some(Item::Bad(w[..n].to_vec())),
                    None => {
                        // incomplete: only possible when the window was cut by the end of input
                        assert!(w.len() < 4, "utf8ref: incomplete 4-byte window");
                        None
                    }
                }
            }
        }
    }
}

/// All items of `bytes` with their start offsets (the final `End` is not included).
pub fn items(bytes: &[u8]) -> Vec<(usize, Item)> {
    let mut out = vec![];
    let mut pos = 0;
    while pos < bytes.len() {
        let it = item_at(bytes, pos);
        let l = it.len();
        out.push((pos, it));
        pos += l.max(1);
    }
    out
}

/// Independent cross-check of `item_at` against a hand-written decoder (Unicode table 3-7).
/// Returns the item extent and validity computed without `std::str::from_utf8`.
pub fn manual_item_at(bytes: &[u8], pos: usize) -> Item {
    if pos >= bytes.len() {
        return Item::End;
    }
    let b0 = bytes[pos];
    let (need, lo, hi) = match b0 {
        0x00..=0x7F => return Item::Char(b0 as char),
        0xC2..=0xDF => (1, 0x80, 0xBF),
        0xE0 => (2, 0xA0, 0xBF),
        0xE1..=0xEC | 0xEE..=0xEF => (2, 0x80, 0xBF),
        0xED => (2, 0x80, 0x9F),
        0xF0 => (3, 0x90, 0xBF),
        0xF1..=0xF3 => (3, 0x80, 0xBF),
        0xF4 => (3, 0x80, 0x8F),
        _ => return Item::Bad(vec![b0]),
    };
    let mut cp: u32 = match need {
        1 => (b0 & 0x1F) as u32,
        2 => (b0 & 0x0F) as u32,
        _ => (b0 & 0x07) as u32,
    };
    for k in 1..=need {
        match bytes.get(pos + k) {
            None => return Item::BadTail(bytes[pos..].to_vec()),
            Some(&b) => {
                let (l, h) = if k == 1 { (lo, hi) } else { (0x80, 0xBF) };
                if b < l || b > h {
                    return Item::Bad(bytes[pos..pos + k].to_vec());
                }
                cp = (cp << 6) | (b & 0x3F) as u32;
            }
        }
    }
    Item::Char(char::from_u32(cp).expect("utf8ref: manual decoder produced a non-scalar"))
}
