//! Program + query generator of C07 (DESIGN §6 C07) and a writer that renders a `Program` as
//! Prolog text.
//!
//! * `case_strategy(cfg) -> BoxedStrategy<GenCase>`: a proptest strategy; a case is built by a
//!   deterministic builder (`build_case`) from a stream of `u16` choices (smaller numbers = simpler
//!   choices, an exhausted stream answers 0), so proptest shrinks the stream and the case follows.
//! * `GenCase { prog: Program, queries: Vec<Query> }`, predicates are named `p0..pN` (abstract);
//!   `rename_case(&case, "c17_")` gives every predicate a unique prefix before it is loaded.
//! * Termination by construction: the body of `pI` calls only `pJ` with J < I, except that a
//!   *list-recursive* predicate calls itself on the tail variable of its first head argument;
//!   every call site of a list-recursive predicate (bodies, closures, queries) passes a literal
//!   proper list there. Variables in goal position are dedicated variables bound only to goal
//!   terms the generator wrote itself.
//! * No text that can fail at load time: goals are callable, arithmetic literals only contain
//!   evaluable functors, integers and variables.
//! * Shapes aimed at the WAM compiler: void / temporary / permanent / unsafe variables, first
//!   occurrences inside structures and in later chunks, variables shared only between disjuncts,
//!   clauses with more than 8 permanent variables ("wide"), arities up to 12, deep head
//!   structures, every kind of goal in last-call position, cuts at any depth (branches and
//!   conditions of if-then-else, disjunctions, inside \+, call/N, findall/3, catch/3).
//! * `render_program(&Program) -> String`: `T::text()` for heads and ordinary goals, plain
//!   `,` `;` `->` `\+` syntax (always parenthesised) for control, also in the goal arguments of
//!   call/N, findall/3, catch/3, \+/1. `goal_text(&T)` renders one body/query.
//! * `features(&Program)`: syntactic classes for the evidence histogram / non-trivial rule.
#![allow(dead_code)]
use crate::shared::refint::{Clause, Pred, Program};
use crate::term::{atom, cmp, int, list, nil, T};
use proptest::prelude::*;
use serde::{Deserialize, Serialize};
use std::collections::BTreeSet;

#[derive(Clone, Debug, PartialEq, Serialize, Deserialize)]
pub struct Query {
    pub goal: T,
    pub template: T,
}

#[derive(Clone, Debug, PartialEq, Serialize, Deserialize)]
pub struct GenCase {
    pub prog: Program,
    pub queries: Vec<Query>,
}

#[derive(Clone, Debug)]
pub struct GenCfg {
    pub max_preds: usize,
    pub max_clauses: usize,
    pub max_goals: usize,
    pub max_depth: u32,
    pub max_queries: usize,
    pub stream_len: usize,
    /// rewrite the shapes of the open known findings out of generated programs (see `sanitize`)
    pub avoid_known: bool,
}

impl Default for GenCfg {
    fn default() -> Self {
        GenCfg { max_preds: 6, max_clauses: 5, max_goals: 6, max_depth: 3, max_queries: 7, stream_len: 2400, avoid_known: true }
    }
}

/// The case is a deterministic function of (keep-masks, choice stream). The masks are all-true
/// when generated and shrink to false: proptest first tries to drop queries, clauses and body
/// goals (structural shrinking), then shrinks the stream.
pub fn case_strategy(cfg: GenCfg) -> BoxedStrategy<GenCase> {
    let n = cfg.stream_len;
    let keep = |len: usize| proptest::collection::vec(proptest::bool::weighted(1.0), len..=len);
    (keep(8), keep(40), keep(160), proptest::collection::vec(any::<u16>(), n / 2..=n))
        .prop_map(move |(kq, kc, kg, s)| {
            let c = apply_masks(build_case(&s, &cfg), &kq, &kc, &kg);
            if cfg.avoid_known {
                GenCase { prog: sanitize(&c.prog), queries: c.queries }
            } else {
                c
            }
        })
        .boxed()
}

fn flatten_conj(t: &T, out: &mut Vec<T>) {
    match t {
        T::Cmp(n, a) if n == "," && a.len() == 2 => {
            flatten_conj(&a[0], out);
            flatten_conj(&a[1], out);
        }
        other => out.push(other.clone()),
    }
}

/// Drop queries / clauses / top-level body goals whose mask bit is false (never the last query,
/// never the last clause of a predicate). Dropping goals cannot break termination: recursion
/// stays on the tail variable, calls still go to lower-numbered predicates.
pub fn apply_masks(mut c: GenCase, keep_q: &[bool], keep_c: &[bool], keep_g: &[bool]) -> GenCase {
    let mut qi = 0;
    let total_q = c.queries.len();
    let mut kept = 0;
    c.queries = c
        .queries
        .into_iter()
        .enumerate()
        .filter(|(i, _)| {
            let k = keep_q.get(qi).copied().unwrap_or(true) || (kept == 0 && *i + 1 == total_q);
            qi += 1;
            if k {
                kept += 1;
            }
            k
        })
        .map(|(_, q)| q)
        .collect();
    let (mut ci, mut gi) = (0, 0);
    for pr in &mut c.prog.preds {
        let total = pr.clauses.len();
        let mut out = vec![];
        for (i, cl) in pr.clauses.drain(..).enumerate() {
            let k = keep_c.get(ci).copied().unwrap_or(true) || (out.is_empty() && i + 1 == total);
            ci += 1;
            if !k {
                continue;
            }
            let mut goals = vec![];
            flatten_conj(&cl.body, &mut goals);
            let goals: Vec<T> = goals
                .into_iter()
                .filter(|_| {
                    let k = keep_g.get(gi).copied().unwrap_or(true);
                    gi += 1;
                    k
                })
                .collect();
            out.push(Clause { head: cl.head, body: if goals.is_empty() { atom("true") } else { conj_of(goals) } });
        }
        pr.clauses = out;
    }
    c
}

// ---------------------------------------------------------------------------------------------
// shapes of the open known findings of C07 (see known/C07.json)

const CMP_OPS: &[&str] = &["<", ">", "=<", ">=", "=:=", "=\\="];

fn is_cmp_goal(t: &T) -> bool {
    matches!(t, T::Cmp(n, a) if a.len() == 2 && CMP_OPS.contains(&n.as_str()))
}

/// a comparison the generator may emit as is: Var op Var, Var op Integer
fn cmp_is_plain(a: &[T]) -> bool {
    matches!((&a[0], &a[1]), (T::Var(_), T::Var(_)) | (T::Var(_), T::Int(_)))
}

fn has_transparent_cut(t: &T) -> bool {
    match t {
        T::Atom(a) => a == "!",
        T::Cmp(n, a) if a.len() == 2 && matches!(n.as_str(), "," | ";" | "->") => has_transparent_cut(&a[0]) || has_transparent_cut(&a[1]),
        _ => false,
    }
}

fn has_transparent_ite(t: &T) -> bool {
    match t {
        T::Cmp(n, a) if a.len() == 2 && n == "->" => true,
        T::Cmp(n, a) if a.len() == 2 && matches!(n.as_str(), "," | ";") => has_transparent_ite(&a[0]) || has_transparent_ite(&a[1]),
        _ => false,
    }
}

fn remove_transparent_cut(t: &T) -> T {
    match t {
        T::Atom(a) if a == "!" => atom("true"),
        T::Cmp(n, a) if a.len() == 2 && matches!(n.as_str(), "," | ";" | "->") => T::Cmp(n.clone(), vec![remove_transparent_cut(&a[0]), remove_transparent_cut(&a[1])]),
        other => other.clone(),
    }
}

fn goal_args(n: &str, arity: usize) -> &'static [usize] {
    match (n, arity) {
        (",", 2) | (";", 2) | ("->", 2) | ("forall", 2) => &[0, 1],
        ("\\+", 1) | ("once", 1) | ("ignore", 1) => &[0],
        ("call", 1) => &[0],
        ("findall", 3) => &[1],
        ("catch", 3) => &[0, 2],
        _ => &[],
    }
}

const TYPE_TESTS: &[&str] = &["var", "nonvar", "atom", "integer", "atomic", "compound", "callable", "number", "float"];

struct Fix {
    rewrite: bool,
    seen: Vec<u32>,
    counts: std::collections::HashMap<u32, usize>,
    fresh: u32,
    found: BTreeSet<&'static str>,
}

impl Fix {
    fn fresh(&mut self) -> T {
        self.fresh += 1;
        T::Var(self.fresh - 1)
    }
    fn see(&mut self, t: &T) {
        let mut vs = vec![];
        t.vars(&mut vs);
        for v in vs {
            if !self.seen.contains(&v) {
                self.seen.push(v);
            }
        }
    }
}

fn count_vars(t: &T, m: &mut std::collections::HashMap<u32, usize>) {
    match t {
        T::Var(v) => *m.entry(*v).or_default() += 1,
        T::Cmp(_, a) => a.iter().for_each(|x| count_vars(x, m)),
        T::PList(i, tl) => {
            i.iter().for_each(|x| count_vars(x, m));
            count_vars(tl, m)
        }
        _ => {}
    }
}

fn intersect(a: &[u32], b: &[u32]) -> Vec<u32> {
    a.iter().copied().filter(|v| b.contains(v)).collect()
}

/// variables of an arithmetic expression / operand that are not yet initialised
fn unseen_vars(t: &T, st: &Fix) -> Vec<u32> {
    let mut vs = vec![];
    t.vars(&mut vs);
    vs.into_iter().filter(|v| !st.seen.contains(v)).collect()
}

/// One walker for detection (`rewrite == false`: records the tags of known-defect shapes) and
/// for sanitising (`rewrite == true`: returns the rewritten goal). Goals are visited in
/// execution order; `seen` holds the variables that are certainly initialised before the current
/// goal on every control path (branches of ;/2 and ->/2 are joined by intersection, \+ adds
/// nothing, a meta-called goal term initialises all its variables when it is built).
fn fix_goal(t: &T, cond: bool, st: &mut Fix) -> T {
    let mut t = t.clone();
    if cond && has_transparent_cut(&t) {
        st.found.insert("cut-in-condition");
        if st.rewrite {
            t = remove_transparent_cut(&t);
        }
    }
    // control constructs first (path-sensitive bookkeeping)
    if let T::Cmp(n, a) = &t {
        match (n.as_str(), a.len()) {
            (",", 2) => {
                let x = fix_goal(&a[0], false, st);
                let y = fix_goal(&a[1], false, st);
                return T::Cmp(n.clone(), vec![x, y]);
            }
            (";", 2) => {
                let before = st.seen.clone();
                let x = fix_goal(&a[0], false, st);
                let after_x = std::mem::replace(&mut st.seen, before);
                let y = fix_goal(&a[1], false, st);
                st.seen = intersect(&after_x, &st.seen);
                return T::Cmp(n.clone(), vec![x, y]);
            }
            ("->", 2) => {
                let x = fix_goal(&a[0], true, st);
                let y = fix_goal(&a[1], false, st);
                return T::Cmp(n.clone(), vec![x, y]);
            }
            ("\\+", 1) => {
                let before = st.seen.clone();
                st.see(&t);
                // known finding: \+ whose goal has a transparent cut and an if-then(-else) panics
                // (dispatch.rs CutPrev "attempt to subtract with overflow")
                let mut inner = a[0].clone();
                if has_transparent_cut(&inner) && has_transparent_ite(&inner) {
                    st.found.insert("cut-and-if-then-else-in-negation");
                    if st.rewrite {
                        inner = remove_transparent_cut(&inner);
                    }
                }
                let x = fix_goal(&inner, false, st);
                st.seen = before;
                return T::Cmp(n.clone(), vec![x]);
            }
            ("call", 1) if matches!(&a[0], T::Cmp(tn, ta) if ta.len() == 1 && TYPE_TESTS.contains(&tn.as_str())) => {
                st.see(&t);
                return t.clone();
            }
            _ => {
                let idx = goal_args(n, a.len());
                if !idx.is_empty() {
                    st.see(&t);
                    let args = a.iter().enumerate().map(|(i, x)| if idx.contains(&i) { fix_goal(x, false, st) } else { x.clone() }).collect();
                    return T::Cmp(n.clone(), args);
                }
            }
        }
    }
    let mut pre: Vec<T> = vec![];
    let mut init = |vs: Vec<u32>, st: &mut Fix, tag: &'static str, pre: &mut Vec<T>| {
        for v in vs {
            st.found.insert(tag);
            if st.rewrite {
                pre.push(cmp("=", vec![T::Var(v), st.fresh()]));
            }
            st.seen.push(v);
        }
    };
    let out = match &t {
        T::Cmp(n, a) if is_cmp_goal(&t) => {
            init(unseen_vars(&t, st), st, "uninitialised-variable-in-arithmetic", &mut pre);
            if cmp_is_plain(a) {
                t.clone()
            } else {
                st.found.insert("inline-comparison-of-non-variable");
                if st.rewrite {
                    // E1 op E2  ==>  F1 is E1, F2 is E2, F1 op F2 (same evaluation order, same errors)
                    let mut goals = vec![];
                    let mut ops = vec![];
                    for (k, e) in a.iter().enumerate() {
                        match e {
                            T::Var(_) => ops.push(e.clone()),
                            T::Int(_) if k == 1 => ops.push(e.clone()),
                            _ => {
                                let v = st.fresh();
                                goals.push(cmp("is", vec![v.clone(), e.clone()]));
                                ops.push(v);
                            }
                        }
                    }
                    goals.push(T::Cmp(n.clone(), ops));
                    conj_of(goals)
                } else {
                    t.clone()
                }
            }
        }
        T::Cmp(n, a) if a.len() == 1 && TYPE_TESTS.contains(&n.as_str()) => {
            let _ = n;
            match &a[0] {
                T::Var(_) => {
                    // known findings: an inlined type test on a variable overwrites X1 when the
                    // variable is at its first occurrence, and leaves the first argument of the
                    // next goal unloaded when the variable lives in another register
                    st.found.insert("inline-type-test-on-variable");
                    if st.rewrite {
                        st.see(&t);
                        return cmp("call", vec![t.clone()]);
                    }
                    t.clone()
                }
                // a type test on a literal compiles to succeed/fail: the variables inside are not initialised by it
                _ => {
                    return t.clone();
                }
            }
        }
        T::Cmp(n, a) if n == "is" && a.len() == 2 => {
            init(unseen_vars(&a[1], st), st, "uninitialised-variable-in-arithmetic", &mut pre);
            // known finding: `V is W` with V void (or first seen in this branch) reads a wrong
            // register (wrong error, wrong value, or a segmentation fault): every bare-variable
            // expression is written W + 0
            if matches!(&a[1], T::Var(_)) {
                st.found.insert("is-with-bare-variable-expression");
                if st.rewrite {
                    cmp("is", vec![a[0].clone(), cmp("+", vec![a[1].clone(), int(0)])])
                } else {
                    t.clone()
                }
            } else {
                t.clone()
            }
        }
        T::Cmp(n, a) if n == "copy_term" && a.len() == 2 && !a[0].is_ground() => {
            // known finding: copy_term/2 binds unbound permanent (stack) variables of its first argument
            st.found.insert("copy_term-of-variables");
            if st.rewrite {
                atom("true")
            } else {
                t.clone()
            }
        }
        _ => t.clone(),
    };
    st.see(&t);
    if pre.is_empty() {
        out
    } else {
        pre.push(out);
        conj_of(pre)
    }
}

fn fix_clause(c: &Clause, rewrite: bool, found: &mut BTreeSet<&'static str>) -> Clause {
    let mut st = Fix { rewrite, seen: vec![], counts: Default::default(), fresh: 300, found: BTreeSet::new() };
    count_vars(&c.head, &mut st.counts);
    count_vars(&c.body, &mut st.counts);
    st.see(&c.head);
    let mut body = fix_goal(&c.body, false, &mut st);
    found.extend(st.found.iter());
    if rewrite {
        // known findings around unbound permanent (stack) variables (copy_term/2 binds them, the
        // culprit of a builtin's type error may keep pointing to their dead stack cell -> SIGSEGV):
        // every body-only variable is created on the heap by a first goal `_ = i(V1, .., Vk)`
        let mut hv = vec![];
        c.head.vars(&mut hv);
        let mut bv = vec![];
        body.vars(&mut bv);
        let only: Vec<T> = bv.into_iter().filter(|v| !hv.contains(v)).map(T::Var).collect();
        if !only.is_empty() {
            body = cmp(",", vec![cmp("=", vec![st.fresh(), T::Cmp("i".into(), only)]), body]);
        }
    }
    Clause { head: c.head.clone(), body }
}

/// Tags of the known-defect shapes present in a program (used to qualify failure signatures).
pub fn known_shapes(p: &Program) -> BTreeSet<&'static str> {
    let mut out = BTreeSet::new();
    for pr in &p.preds {
        for c in &pr.clauses {
            fix_clause(c, false, &mut out);
        }
    }
    out
}

/// Rewrite the shapes of the open known findings (known/C07.json) out of a program:
/// * a cut that is transparent inside an if-then(-else) condition becomes `true`;
/// * an inlined arithmetic comparison keeps only the operand forms Var-Var and Var-Integer,
///   other operands are evaluated by is/2 into fresh variables first;
/// * an inlined type test on a variable is run through call/1;
/// * a variable that may be uninitialised when an arithmetic goal is reached gets `V = _` first;
/// * `V is W` with V occurring nowhere else becomes `V is W + 0`;
/// * `copy_term(T, X)` with a non-ground T becomes `true`;
/// * every body-only variable is first created on the heap by an initial goal `_ = i(V1, .., Vk)`.
pub fn sanitize(p: &Program) -> Program {
    let mut ignore = BTreeSet::new();
    Program {
        preds: p.preds.iter().map(|pr| Pred { name: pr.name.clone(), arity: pr.arity, dynamic: pr.dynamic, clauses: pr.clauses.iter().map(|c| fix_clause(c, true, &mut ignore)).collect() }).collect(),
    }
}

// ---------------------------------------------------------------------------------------------
// choice stream

struct Src<'a> {
    data: &'a [u16],
    pos: usize,
}

impl<'a> Src<'a> {
    fn raw(&mut self) -> u32 {
        let v = self.data.get(self.pos).copied().unwrap_or(0);
        self.pos += 1;
        v as u32
    }
    /// 0..n, monotone in the raw value
    fn n(&mut self, n: usize) -> usize {
        if n <= 1 {
            return 0;
        }
        (self.raw() as usize * n) >> 16
    }
    fn range(&mut self, lo: usize, hi: usize) -> usize {
        lo + self.n(hi - lo + 1)
    }
    fn chance(&mut self, pct: u32) -> bool {
        // raw 0 (exhausted stream) answers "no"
        self.raw() * 100 >= (100 - pct.min(100)) * 65536
    }
    /// index into a weight table (put the simplest alternative first)
    fn weighted(&mut self, w: &[u32]) -> usize {
        let total: u32 = w.iter().sum();
        let mut x = (self.raw() as u64 * total as u64 >> 16) as u32;
        for (i, wi) in w.iter().enumerate() {
            if x < *wi {
                return i;
            }
            x -= wi;
        }
        w.len() - 1
    }
}

#[derive(Clone, Copy, Debug, PartialEq)]
enum Hint {
    Any,
    Int,
    List,
}

#[derive(Clone, Debug)]
struct Sig {
    arity: usize,
    hints: Vec<Hint>,
    recursive: bool,
}

/// per-clause variable bookkeeping
struct Cx {
    pool: u32,
    used: Vec<u32>,
    ints: Vec<u32>,
    fresh: u32,
    /// the tail variable of a list-recursive clause (never handed out as an ordinary variable)
    reserved: Option<u32>,
}

impl Cx {
    fn new(pool: u32) -> Cx {
        Cx { pool, used: vec![], ints: vec![], fresh: 100, reserved: None }
    }
    fn fresh(&mut self) -> T {
        self.fresh += 1;
        T::Var(self.fresh - 1)
    }
}

struct B<'a> {
    src: Src<'a>,
    sigs: Vec<Sig>,
    cfg: GenCfg,
}

const ATOMS: &[&str] = &["a", "b", "c", "[]"];

fn pname(i: usize) -> String {
    format!("p{i}")
}

impl<'a> B<'a> {
    fn var(&mut self, cx: &mut Cx, want_int: bool) -> T {
        if want_int && !cx.ints.is_empty() && self.src.chance(75) {
            let k = self.src.n(cx.ints.len());
            return T::Var(cx.ints[k]);
        }
        if !cx.used.is_empty() && ((cx.used.len() as u32) >= cx.pool || self.src.chance(60)) {
            let k = self.src.n(cx.used.len());
            return T::Var(cx.used[k]);
        }
        if self.src.chance(12) {
            return cx.fresh(); // a void variable
        }
        let mut v = cx.used.len() as u32;
        if Some(v) == cx.reserved {
            v = cx.pool + 50;
        }
        while cx.used.contains(&v) {
            v += 1;
        }
        cx.used.push(v);
        T::Var(v)
    }

    fn small_int(&mut self) -> T {
        let k = self.src.weighted(&[30, 30, 20, 10, 6, 4]);
        int([0i64, 1, 2, 3, -1, 7][k])
    }

    fn term(&mut self, cx: &mut Cx, depth: u32, hint: Hint) -> T {
        match hint {
            Hint::Int => match self.src.weighted(&[50, 42, 8]) {
                0 => self.small_int(),
                1 => {
                    let v = self.var(cx, true);
                    if let T::Var(i) = v {
                        if !cx.ints.contains(&i) {
                            cx.ints.push(i);
                        }
                    }
                    v
                }
                _ => self.term(cx, depth, Hint::Any),
            },
            Hint::List => {
                let n = self.src.weighted(&[20, 35, 30, 15]);
                list((0..n).map(|_| self.term(cx, depth.saturating_sub(1), Hint::Any)).collect())
            }
            Hint::Any => {
                let w: [u32; 5] = if depth == 0 { [40, 35, 25, 0, 0] } else { [35, 25, 15, 17, 8] };
                match self.src.weighted(&w) {
                    0 => self.var(cx, false),
                    1 => {
                        let k = self.src.n(ATOMS.len());
                        atom(ATOMS[k])
                    }
                    2 => self.small_int(),
                    3 => {
                        let k = self.src.weighted(&[50, 35, 15]);
                        let (f, n) = [("f", 1), ("g", 2), ("h", 3)][k];
                        cmp(f, (0..n).map(|_| self.term(cx, depth - 1, Hint::Any)).collect())
                    }
                    _ => {
                        let n = self.src.range(1, 3);
                        let items: Vec<T> = (0..n).map(|_| self.term(cx, depth - 1, Hint::Any)).collect();
                        if self.src.chance(20) {
                            T::PList(items, Box::new(self.var(cx, false)))
                        } else {
                            list(items)
                        }
                    }
                }
            }
        }
    }

    fn expr(&mut self, cx: &mut Cx, depth: u32) -> T {
        if depth == 0 || self.src.chance(45) {
            return if self.src.chance(50) { self.small_int() } else { self.var(cx, true) };
        }
        match self.src.weighted(&[30, 20, 15, 8, 8, 6, 5, 4, 4]) {
            0 => cmp("+", vec![self.expr(cx, depth - 1), self.expr(cx, depth - 1)]),
            1 => cmp("-", vec![self.expr(cx, depth - 1), self.expr(cx, depth - 1)]),
            2 => cmp("*", vec![self.expr(cx, depth - 1), self.expr(cx, depth - 1)]),
            3 => {
                let d = if self.src.chance(85) { int(self.src.range(1, 3) as i64) } else { self.expr(cx, depth - 1) };
                cmp("//", vec![self.expr(cx, depth - 1), d])
            }
            4 => {
                let d = if self.src.chance(85) { int(self.src.range(1, 3) as i64) } else { self.expr(cx, depth - 1) };
                cmp("mod", vec![self.expr(cx, depth - 1), d])
            }
            5 => cmp("-", vec![self.expr(cx, depth - 1)]),
            6 => cmp("max", vec![self.expr(cx, depth - 1), self.expr(cx, depth - 1)]),
            7 => cmp("min", vec![self.expr(cx, depth - 1), self.expr(cx, depth - 1)]),
            _ => cmp("abs", vec![self.expr(cx, depth - 1)]),
        }
    }

    fn call_args(&mut self, cx: &mut Cx, j: usize, depth: u32) -> Vec<T> {
        let sig = self.sigs[j].clone();
        let mut args = vec![];
        for (k, h) in sig.hints.iter().enumerate() {
            if k == 0 && sig.recursive {
                args.push(self.term(cx, 1, Hint::List));
            } else {
                args.push(self.term(cx, depth.min(2), *h));
            }
        }
        args
    }

    fn mk_goal(name: String, args: Vec<T>) -> T {
        if args.is_empty() {
            T::Atom(name)
        } else {
            T::Cmp(name, args)
        }
    }

    /// a call to a lower-numbered predicate (None when there is none)
    fn user_call(&mut self, cx: &mut Cx, i: usize, depth: u32) -> Option<T> {
        if i == 0 {
            return None;
        }
        let j = i - 1 - self.src.n(i);
        let args = self.call_args(cx, j, depth);
        Some(Self::mk_goal(pname(j), args))
    }

    fn closure_call(&mut self, cx: &mut Cx, i: usize, depth: u32) -> Option<T> {
        if i == 0 {
            return None;
        }
        let j = i - 1 - self.src.n(i);
        let args = self.call_args(cx, j, depth);
        let extra = self.src.n(args.len().min(7) + 1); // number of arguments passed through call/N
        let fixed = args.len() - extra;
        let mut cargs = vec![Self::mk_goal(pname(j), args[..fixed].to_vec())];
        cargs.extend_from_slice(&args[fixed..]);
        Some(T::Cmp("call".into(), cargs))
    }

    fn conj(&mut self, cx: &mut Cx, i: usize, n: usize, depth: u32) -> T {
        let goals: Vec<T> = (0..n.max(1)).map(|_| self.goal(cx, i, depth)).collect();
        conj_of(goals)
    }

    fn small_conj(&mut self, cx: &mut Cx, i: usize, depth: u32) -> T {
        let n = self.src.weighted(&[55, 30, 15]) + 1;
        self.conj(cx, i, n, depth)
    }

    fn goal(&mut self, cx: &mut Cx, i: usize, depth: u32) -> T {
        let ctl = if depth > 0 { 16 } else { 0 };
        let w = [14, 30, 6, 6, 8, 5, 7, ctl, 6, 3, 4, 2, 4, 3];
        match self.src.weighted(&w) {
            0 => cmp("=", vec![self.term(cx, 2, Hint::Any), self.term(cx, 2, Hint::Any)]),
            1 => match self.user_call(cx, i, depth) {
                Some(g) => g,
                None => cmp("=", vec![self.var(cx, false), self.term(cx, 1, Hint::Any)]),
            },
            2 => {
                let op = ["\\=", "==", "\\=="][self.src.n(3)];
                cmp(op, vec![self.term(cx, 1, Hint::Any), self.term(cx, 1, Hint::Any)])
            }
            3 => {
                let t = ["var", "nonvar", "atom", "integer", "atomic", "compound", "callable", "number"][self.src.n(8)];
                cmp(t, vec![self.term(cx, 1, Hint::Any)])
            }
            4 => {
                let e = self.expr(cx, 2);
                let v = if self.src.chance(85) { self.var(cx, false) } else { self.small_int() };
                if let T::Var(k) = v {
                    if !cx.ints.contains(&k) {
                        cx.ints.push(k);
                    }
                }
                cmp("is", vec![v, e])
            }
            5 => {
                let op = ["<", ">", "=<", ">=", "=:=", "=\\="][self.src.n(6)];
                cmp(op, vec![self.expr(cx, 1), self.expr(cx, 1)])
            }
            6 => atom("!"),
            7 => match self.src.weighted(&[28, 30, 12, 18, 12]) {
                0 => cmp(";", vec![self.small_conj(cx, i, depth - 1), self.small_conj(cx, i, depth - 1)]),
                1 => {
                    let c = self.small_conj(cx, i, depth - 1);
                    let t = self.small_conj(cx, i, depth - 1);
                    cmp(";", vec![cmp("->", vec![c, t]), self.small_conj(cx, i, depth - 1)])
                }
                2 => cmp("->", vec![self.small_conj(cx, i, depth - 1), self.small_conj(cx, i, depth - 1)]),
                3 => cmp("\\+", vec![self.small_conj(cx, i, depth - 1)]),
                _ => self.conj(cx, i, 2, depth - 1),
            },
            8 => match self.src.weighted(&[40, 35, 25]) {
                0 => cmp("call", vec![self.small_conj(cx, i, depth.saturating_sub(1))]),
                1 => match self.closure_call(cx, i, depth) {
                    Some(g) => g,
                    None => cmp("call", vec![atom("true")]),
                },
                _ => {
                    // a dedicated goal variable: bound to a goal we wrote, or left unbound (rare)
                    let gv = cx.fresh();
                    let inner = match self.src.weighted(&[30, 25, 25, 12, 8]) {
                        0 => self.user_call(cx, i, 1).unwrap_or(atom("true")),
                        1 => atom("!"),
                        2 => conj_of(vec![self.goal(cx, i, 0), atom("!")]),
                        3 => cmp(";", vec![atom("!"), atom("fail")]),
                        _ => return if self.src.chance(50) { gv } else { cmp("call", vec![gv]) },
                    };
                    let use_it = if self.src.chance(50) { gv.clone() } else { cmp("call", vec![gv.clone()]) };
                    conj_of(vec![cmp("=", vec![gv, inner]), use_it])
                }
            },
            9 => {
                let tpl = self.term(cx, 1, Hint::Any);
                let g = self.small_conj(cx, i, depth.saturating_sub(1));
                let l = if self.src.chance(85) { self.var(cx, false) } else { self.term(cx, 1, Hint::List) };
                T::Cmp("findall".into(), vec![tpl, g, l])
            }
            10 => {
                if self.src.chance(40) {
                    let b = if self.src.chance(90) { self.term(cx, 1, Hint::Any) } else { cx.fresh() };
                    cmp("throw", vec![b])
                } else {
                    let g = self.small_conj(cx, i, depth.saturating_sub(1));
                    let (catcher, rec) = match self.src.weighted(&[40, 25, 20, 15]) {
                        0 => {
                            let c = self.var(cx, false);
                            (c, self.goal(cx, i, 0))
                        }
                        1 => (self.term(cx, 1, Hint::Any), self.goal(cx, i, 0)),
                        2 => {
                            let e = self.var(cx, false);
                            (cmp("error", vec![e, cx.fresh()]), atom("true"))
                        }
                        _ => (cx.fresh(), atom("true")),
                    };
                    T::Cmp("catch".into(), vec![g, catcher, rec])
                }
            }
            11 => atom(["true", "fail"][self.src.n(2)]),
            12 => match self.src.n(5) {
                0 => T::Cmp("functor".into(), vec![self.term(cx, 1, Hint::Any), self.term(cx, 0, Hint::Any), self.term(cx, 0, Hint::Int)]),
                1 => T::Cmp("arg".into(), vec![int(self.src.range(0, 3) as i64), self.term(cx, 2, Hint::Any), self.term(cx, 1, Hint::Any)]),
                2 => cmp("=..", vec![self.term(cx, 1, Hint::Any), if self.src.chance(50) { self.var(cx, false) } else { self.term(cx, 1, Hint::List) }]),
                3 => cmp("copy_term", vec![self.term(cx, 2, Hint::Any), self.term(cx, 1, Hint::Any)]),
                _ => {
                    // Order is a fresh variable or a valid order atom (scryer reports a compound
                    // Order as domain_error(order, _) where ISO says type_error(atom, _): not C07's subject)
                    let o = if self.src.chance(80) { cx.fresh() } else { atom(["<", "=", ">"][self.src.n(3)]) };
                    T::Cmp("compare".into(), vec![o, self.term(cx, 1, Hint::Any), self.term(cx, 1, Hint::Any)])
                }
            },
            _ => {
                let op = ["@<", "@>", "@=<", "@>="][self.src.n(4)];
                cmp(op, vec![self.term(cx, 1, Hint::Any), self.term(cx, 1, Hint::Any)])
            }
        }
    }

    fn head_args(&mut self, cx: &mut Cx, sig: &Sig, skip_first: bool) -> Vec<T> {
        let deep = self.src.chance(15);
        let mut args = vec![];
        for (k, h) in sig.hints.iter().enumerate() {
            if k == 0 && skip_first {
                args.push(nil());
                continue;
            }
            let d = if deep { 3 } else { 1 };
            args.push(self.term(cx, d, *h));
        }
        args
    }

    fn body(&mut self, cx: &mut Cx, i: usize) -> Vec<T> {
        let n = self.src.weighted(&[22, 22, 20, 14, 10, 7, 5]).min(self.cfg.max_goals);
        (0..n).map(|_| self.goal(cx, i, self.cfg.max_depth)).collect()
    }

    /// a clause with more than 8 variables that must survive calls
    fn wide_clause(&mut self, i: usize, sig: &Sig) -> Clause {
        let mut cx = Cx::new(14);
        let args = self.head_args(&mut cx, sig, false);
        let nv = self.src.range(9, 12) as u32;
        let vs: Vec<T> = (0..nv).map(|k| T::Var(20 + k)).collect();
        let mut goals = vec![];
        for v in &vs {
            match self.src.weighted(&[50, 30, 20]) {
                0 => goals.push(cmp("=", vec![v.clone(), self.term(&mut cx, 1, Hint::Any)])),
                1 => goals.push(cmp("is", vec![v.clone(), self.expr(&mut cx, 1)])),
                _ => {}
            }
            if self.src.chance(30) {
                goals.push(self.user_call(&mut cx, i, 1).unwrap_or(cmp("call", vec![atom("true")])));
            }
        }
        goals.push(self.user_call(&mut cx, i, 1).unwrap_or(cmp("call", vec![atom("true")])));
        let out = self.var(&mut cx, false);
        goals.push(cmp("=", vec![out, T::Cmp("w".into(), vs)]));
        if self.src.chance(40) {
            goals.push(self.goal(&mut cx, i, 1));
        }
        Clause { head: Self::mk_goal(pname(i), args), body: conj_of(goals) }
    }

    fn clause(&mut self, i: usize, sig: &Sig) -> Clause {
        if self.src.chance(4) {
            return self.wide_clause(i, sig);
        }
        let pool = self.src.range(1, 8) as u32;
        let mut cx = Cx::new(pool);
        let args = self.head_args(&mut cx, sig, false);
        let goals = self.body(&mut cx, i);
        Clause { head: Self::mk_goal(pname(i), args), body: if goals.is_empty() { atom("true") } else { conj_of(goals) } }
    }

    fn rec_clauses(&mut self, i: usize, sig: &Sig) -> Vec<Clause> {
        let mut out = vec![];
        // base
        let mut cx = Cx::new(4);
        let args = self.head_args(&mut cx, sig, true);
        let goals = if self.src.chance(40) { self.body(&mut cx, i) } else { vec![] };
        out.push(Clause { head: Self::mk_goal(pname(i), args), body: if goals.is_empty() { atom("true") } else { conj_of(goals) } });
        // recursive clause(s)
        let nrec = self.src.weighted(&[75, 25]) + 1;
        for _ in 0..nrec {
            let pool = self.src.range(2, 7) as u32;
            let mut cx = Cx::new(pool);
            let tail = T::Var(90);
            cx.reserved = Some(90);
            let mut args = self.head_args(&mut cx, sig, true);
            let nh = self.src.weighted(&[85, 15]) + 1;
            let hs: Vec<T> = (0..nh).map(|_| self.term(&mut cx, 1, Hint::Any)).collect();
            args[0] = T::PList(hs, Box::new(tail.clone()));
            let mut goals = vec![];
            let npre = self.src.weighted(&[40, 35, 25]);
            for _ in 0..npre {
                goals.push(self.goal(&mut cx, i, 2));
            }
            let mut rargs = vec![tail.clone()];
            for h in sig.hints.iter().skip(1) {
                rargs.push(self.term(&mut cx, 1, *h));
            }
            goals.push(Self::mk_goal(pname(i), rargs));
            let npost = self.src.weighted(&[50, 35, 15]);
            for _ in 0..npost {
                goals.push(self.goal(&mut cx, i, 2));
            }
            out.push(Clause { head: Self::mk_goal(pname(i), args), body: conj_of(goals) });
        }
        if self.src.chance(25) {
            // an extra non-recursive clause on a non-empty list
            let mut cx = Cx::new(4);
            let mut args = self.head_args(&mut cx, sig, true);
            args[0] = T::PList(vec![self.term(&mut cx, 1, Hint::Any)], Box::new(self.var(&mut cx, false)));
            let goals = self.body(&mut cx, i);
            out.push(Clause { head: Self::mk_goal(pname(i), args), body: if goals.is_empty() { atom("true") } else { conj_of(goals) } });
        }
        // clause order is part of the shape
        if self.src.chance(35) {
            out.rotate_left(1);
        }
        out
    }

    fn query(&mut self, j: usize) -> Query {
        let sig = self.sigs[j].clone();
        let mut cx = Cx::new(sig.arity.max(1) as u32);
        let mode = self.src.weighted(&[35, 50, 15]);
        let mut args = vec![];
        for (k, h) in sig.hints.iter().enumerate() {
            if k == 0 && sig.recursive {
                args.push(self.term(&mut cx, 1, Hint::List));
                continue;
            }
            let a = match mode {
                0 => {
                    let v = cx.used.len() as u32;
                    cx.used.push(v);
                    T::Var(v)
                }
                1 => {
                    if self.src.chance(50) {
                        let v = cx.used.len() as u32;
                        cx.used.push(v);
                        T::Var(v)
                    } else {
                        match h {
                            Hint::Int => self.small_int(),
                            _ => self.term(&mut cx, 1, *h),
                        }
                    }
                }
                _ => self.term(&mut cx, 1, *h),
            };
            args.push(a);
        }
        let base = Self::mk_goal(pname(j), args);
        let goal = match self.src.weighted(&[80, 5, 4, 4, 4, 3]) {
            0 => base,
            1 => {
                let (f, a) = match &base {
                    T::Cmp(f, a) => (f.clone(), a.clone()),
                    T::Atom(f) => (f.clone(), vec![]),
                    _ => unreachable!(),
                };
                let mut c = vec![atom(&f)];
                c.extend(a.into_iter().take(7));
                if c.len() - 1 == sig.arity {
                    T::Cmp("call".into(), c)
                } else {
                    base
                }
            }
            2 => cmp(",", vec![base, atom("!")]),
            3 => cmp("\\+", vec![base]),
            4 => cmp(";", vec![cmp("->", vec![base.clone(), atom("true")]), atom("fail")]),
            _ => {
                let l = cx.fresh();
                let mut vs = vec![];
                base.vars(&mut vs);
                T::Cmp("findall".into(), vec![list(vs.into_iter().map(T::Var).collect()), base, l])
            }
        };
        let mut vs = vec![];
        goal.vars(&mut vs);
        Query { template: list(vs.into_iter().map(T::Var).collect()), goal }
    }
}

pub fn conj_of(mut goals: Vec<T>) -> T {
    let mut t = goals.pop().unwrap_or(atom("true"));
    while let Some(g) = goals.pop() {
        t = cmp(",", vec![g, t]);
    }
    t
}

pub fn build_case(stream: &[u16], cfg: &GenCfg) -> GenCase {
    let mut b = B { src: Src { data: stream, pos: 0 }, sigs: vec![], cfg: cfg.clone() };
    let npreds = b.src.range(1, cfg.max_preds);
    let mut prog = Program::default();
    for i in 0..npreds {
        let arity = match b.src.weighted(&[8, 28, 28, 18, 8, 4, 6]) {
            6 => b.src.range(6, 12),
            k => k,
        };
        let recursive = arity >= 1 && b.src.chance(22);
        let hints: Vec<Hint> = (0..arity)
            .map(|k| {
                if k == 0 && recursive {
                    Hint::List
                } else {
                    [Hint::Any, Hint::Any, Hint::Int, Hint::List][b.src.weighted(&[40, 15, 33, 12])]
                }
            })
            .collect();
        let sig = Sig { arity, hints, recursive };
        b.sigs.push(sig.clone());
        let clauses = if recursive {
            b.rec_clauses(i, &sig)
        } else {
            let n = b.src.weighted(&[20, 30, 25, 15, 10]).min(cfg.max_clauses - 1) + 1;
            (0..n).map(|_| b.clause(i, &sig)).collect()
        };
        prog.preds.push(Pred { name: pname(i), arity, dynamic: false, clauses });
    }
    let mut queries = vec![];
    // the top predicate first (it exercises everything below it), then the others
    let nq = cfg.max_queries.min(npreds + 3);
    for q in 0..nq {
        let j = if q < 2 { npreds - 1 } else { b.src.n(npreds) };
        let qy = b.query(j);
        if !queries.contains(&qy) {
            queries.push(qy);
        }
    }
    GenCase { prog, queries }
}

// ---------------------------------------------------------------------------------------------
// renaming

fn is_pname(s: &str) -> bool {
    s.len() >= 2 && s.starts_with('p') && s[1..].chars().all(|c| c.is_ascii_digit())
}

pub fn rename_term(t: &T, prefix: &str) -> T {
    match t {
        T::Atom(a) if is_pname(a) => T::Atom(format!("{prefix}{a}")),
        T::Cmp(n, args) => {
            let n2 = if is_pname(n) { format!("{prefix}{n}") } else { n.clone() };
            T::Cmp(n2, args.iter().map(|a| rename_term(a, prefix)).collect())
        }
        T::PList(items, tail) => T::PList(items.iter().map(|a| rename_term(a, prefix)).collect(), Box::new(rename_term(tail, prefix))),
        other => other.clone(),
    }
}

pub fn rename_program(p: &Program, prefix: &str) -> Program {
    Program {
        preds: p
            .preds
            .iter()
            .map(|pr| Pred {
                name: if is_pname(&pr.name) { format!("{prefix}{}", pr.name) } else { pr.name.clone() },
                arity: pr.arity,
                dynamic: pr.dynamic,
                clauses: pr.clauses.iter().map(|c| Clause { head: rename_term(&c.head, prefix), body: rename_term(&c.body, prefix) }).collect(),
            })
            .collect(),
    }
}

pub fn rename_case(c: &GenCase, prefix: &str) -> GenCase {
    GenCase { prog: rename_program(&c.prog, prefix), queries: c.queries.iter().map(|q| Query { goal: rename_term(&q.goal, prefix), template: rename_term(&q.template, prefix) }).collect() }
}

// ---------------------------------------------------------------------------------------------
// writer

fn is_ctl2(t: &T, name: &str) -> bool {
    matches!(t, T::Cmp(n, a) if n == name && a.len() == 2)
}

fn write_goal(t: &T, out: &mut String) {
    match t {
        T::Atom(a) if a == "!" => out.push('!'),
        T::Cmp(n, a) if n == "," && a.len() == 2 => {
            out.push('(');
            let mut cur = t;
            loop {
                match cur {
                    T::Cmp(n2, a2) if n2 == "," && a2.len() == 2 => {
                        write_goal(&a2[0], out);
                        out.push_str(", ");
                        cur = &a2[1];
                    }
                    last => {
                        write_goal(last, out);
                        break;
                    }
                }
            }
            out.push(')');
        }
        T::Cmp(n, a) if (n == ";" || n == "->" || n == "*->") && a.len() == 2 => {
            out.push('(');
            write_goal(&a[0], out);
            out.push(' ');
            out.push_str(n);
            out.push(' ');
            write_goal(&a[1], out);
            out.push(')');
        }
        T::Cmp(n, a) if n == "\\+" && a.len() == 1 => {
            out.push_str("\\+ (");
            write_goal(&a[0], out);
            out.push(')');
        }
        T::Cmp(n, a) if (n == "call" && !a.is_empty() && a.len() <= 8) || (matches!(n.as_str(), "once" | "ignore") && a.len() == 1) => {
            out.push_str(n);
            out.push('(');
            write_goal(&a[0], out);
            for x in &a[1..] {
                out.push(',');
                x.write_text(out);
            }
            out.push(')');
        }
        T::Cmp(n, a) if n == "findall" && a.len() == 3 => {
            out.push_str("findall(");
            a[0].write_text(out);
            out.push(',');
            write_goal(&a[1], out);
            out.push(',');
            a[2].write_text(out);
            out.push(')');
        }
        T::Cmp(n, a) if n == "catch" && a.len() == 3 => {
            out.push_str("catch(");
            write_goal(&a[0], out);
            out.push(',');
            a[1].write_text(out);
            out.push(',');
            write_goal(&a[2], out);
            out.push(')');
        }
        T::Cmp(n, a) if n == "forall" && a.len() == 2 => {
            out.push_str("forall(");
            write_goal(&a[0], out);
            out.push(',');
            write_goal(&a[1], out);
            out.push(')');
        }
        other => other.write_text(out),
    }
}

/// One goal / body / query in plain control syntax.
pub fn goal_text(t: &T) -> String {
    let mut s = String::new();
    write_goal(t, &mut s);
    s
}

pub fn clause_text(c: &Clause) -> String {
    let mut s = c.head.text();
    if !matches!(&c.body, T::Atom(a) if a == "true") {
        s.push_str(" :- ");
        let b = goal_text(&c.body);
        // a top-level conjunction needs no parentheses
        if is_ctl2(&c.body, ",") {
            s.push_str(&b[1..b.len() - 1]);
        } else {
            s.push_str(&b);
        }
    }
    s.push('.');
    s
}

pub fn render_program(p: &Program) -> String {
    let mut s = String::new();
    for pr in &p.preds {
        if pr.dynamic {
            s.push_str(&format!(":- dynamic({}/{}).\n", crate::term::write_atom(&pr.name), pr.arity));
        }
        for c in &pr.clauses {
            s.push_str(&clause_text(c));
            s.push('\n');
        }
    }
    s
}

// ---------------------------------------------------------------------------------------------
// syntactic features (classes of the evidence histogram)

#[derive(Default, Clone, Copy)]
struct Ctx {
    in_disj: bool,
    in_branch: bool,
    in_cond: bool,
    in_neg: bool,
    in_meta: bool,
}

fn scan(t: &T, c: Ctx, f: &mut BTreeSet<&'static str>) {
    match t {
        T::Atom(a) if a == "!" => {
            f.insert("cut");
            if c.in_disj {
                f.insert("cut-in-disjunction");
            }
            if c.in_branch {
                f.insert("cut-in-ite-branch");
            }
            if c.in_cond {
                f.insert("cut-in-condition");
            }
            if c.in_neg {
                f.insert("cut-in-negation");
            }
            if c.in_meta {
                f.insert("cut-in-meta-call");
            }
        }
        T::Var(_) => {
            f.insert("variable-goal");
        }
        T::Cmp(n, a) => match (n.as_str(), a.len()) {
            (",", 2) => {
                scan(&a[0], c, f);
                scan(&a[1], c, f);
            }
            (";", 2) => {
                if let T::Cmp(m, ct) = &a[0] {
                    if m == "->" && ct.len() == 2 {
                        f.insert("if-then-else");
                        if c.in_disj {
                            f.insert("ite-in-disjunction");
                        }
                        scan(&ct[0], Ctx { in_cond: true, ..c }, f);
                        scan(&ct[1], Ctx { in_branch: true, ..c }, f);
                        scan(&a[1], Ctx { in_branch: true, ..c }, f);
                        return;
                    }
                }
                f.insert("disjunction");
                scan(&a[0], Ctx { in_disj: true, ..c }, f);
                scan(&a[1], Ctx { in_disj: true, ..c }, f);
            }
            ("->", 2) => {
                f.insert("if-then");
                if c.in_disj {
                    f.insert("ite-in-disjunction");
                }
                scan(&a[0], Ctx { in_cond: true, ..c }, f);
                scan(&a[1], Ctx { in_branch: true, ..c }, f);
            }
            ("\\+", 1) => {
                f.insert("negation");
                scan(&a[0], Ctx { in_neg: true, ..c }, f);
            }
            ("call", 1) => {
                f.insert("call/1");
                scan(&a[0], Ctx { in_meta: true, ..c }, f);
            }
            ("call", _) => {
                f.insert("call/N");
            }
            ("findall", 3) => {
                f.insert("findall");
                scan(&a[1], Ctx { in_meta: true, ..c }, f);
            }
            ("catch", 3) => {
                f.insert("catch");
                scan(&a[0], Ctx { in_meta: true, ..c }, f);
                scan(&a[2], Ctx { in_meta: true, ..c }, f);
            }
            ("throw", 1) => {
                f.insert("throw");
            }
            ("is", 2) | ("<", 2) | (">", 2) | ("=<", 2) | (">=", 2) | ("=:=", 2) | ("=\\=", 2) => {
                f.insert("arithmetic");
            }
            ("functor", 3) | ("arg", 3) | ("=..", 2) | ("copy_term", 2) | ("compare", 3) => {
                f.insert("term-inspection");
            }
            _ => {}
        },
        _ => {}
    }
}

fn depth(t: &T) -> usize {
    match t {
        T::Cmp(_, a) => 1 + a.iter().map(depth).max().unwrap_or(0),
        T::PList(i, tl) => 1 + i.iter().map(depth).max().unwrap_or(0).max(depth(tl)),
        _ => 0,
    }
}

fn is_call_goal(t: &T) -> bool {
    // goals that end a chunk: anything that is not an inlined builtin / control construct
    match t {
        T::Atom(a) => !matches!(a.as_str(), "!" | "true" | "fail"),
        T::Var(_) => true,
        T::Cmp(n, a) => !matches!(
            (n.as_str(), a.len()),
            ("=", 2) | ("\\=", 2) | ("==", 2) | ("\\==", 2) | ("is", 2) | ("<", 2) | (">", 2) | ("=<", 2) | (">=", 2) | ("=:=", 2) | ("=\\=", 2) | ("var", 1) | ("nonvar", 1) | ("atom", 1) | ("integer", 1)
                | ("atomic", 1) | ("compound", 1) | ("callable", 1) | ("number", 1) | ("@<", 2) | ("@>", 2) | ("@=<", 2) | ("@>=", 2)
        ),
        _ => false,
    }
}

/// number of variables of the clause that occur in more than one chunk (approximation of
/// "permanent": the head and the goals up to the first call form the first chunk)
pub fn permanent_vars(c: &Clause) -> usize {
    let mut flat = vec![];
    fn flatten<'a>(t: &'a T, out: &mut Vec<&'a T>) {
        match t {
            T::Cmp(n, a) if n == "," && a.len() == 2 => {
                flatten(&a[0], out);
                flatten(&a[1], out);
            }
            other => out.push(other),
        }
    }
    flatten(&c.body, &mut flat);
    let mut chunk_of: std::collections::HashMap<u32, BTreeSet<usize>> = Default::default();
    let mut chunk = 0usize;
    let mut vs = vec![];
    c.head.vars(&mut vs);
    for v in vs {
        chunk_of.entry(v).or_default().insert(0);
    }
    for g in flat {
        let mut vs = vec![];
        g.vars(&mut vs);
        for v in vs {
            chunk_of.entry(v).or_default().insert(chunk);
        }
        if is_call_goal(g) {
            chunk += 1;
        }
    }
    chunk_of.values().filter(|s| s.len() >= 2).count()
}

pub fn features(p: &Program) -> BTreeSet<&'static str> {
    let mut f = BTreeSet::new();
    for pr in &p.preds {
        if pr.arity >= 9 {
            f.insert("arity>=9");
        }
        if pr.clauses.len() >= 2 {
            f.insert("multi-clause");
        }
        for c in &pr.clauses {
            scan(&c.body, Ctx::default(), &mut f);
            if depth(&c.head) >= 3 {
                f.insert("deep-head");
            }
            let pv = permanent_vars(c);
            if pv >= 2 {
                f.insert("permanent-vars>=2");
            }
            if pv >= 9 {
                f.insert("permanent-vars>=9");
            }
            let mut hv = vec![];
            c.head.vars(&mut hv);
            if let Some((n, _)) = crate::shared::refint::name_arity(&c.head) {
                fn calls(t: &T, n: &str) -> bool {
                    match t {
                        T::Cmp(m, a) => (m == n) || a.iter().any(|x| calls(x, n)),
                        T::Atom(m) => m == n,
                        _ => false,
                    }
                }
                if calls(&c.body, &n) {
                    f.insert("recursion");
                }
            }
        }
    }
    f
}

#[cfg(test)]
mod tests {
    use super::*;
    use crate::shared::refint::{solve, Limits, RefOutcome};

    #[test]
    fn proggen_builds_and_terminates() {
        let cfg = GenCfg::default();
        let (mut sols, mut ex, mut lim, mut unsup, mut nq) = (0, 0, 0, 0, 0);
        let mut feats: std::collections::BTreeMap<&str, usize> = Default::default();
        for seed in 0..300u64 {
            let c = crate::engine::sample_one(&case_strategy(cfg.clone()), seed);
            let c = rename_case(&c, "t_");
            let text = render_program(&c.prog);
            assert!(!text.is_empty());
            for f in features(&c.prog) {
                *feats.entry(f).or_default() += 1;
            }
            if seed < 3 {
                println!("{text}");
                for q in &c.queries {
                    println!("?- {}.", goal_text(&q.goal));
                }
            }
            let lim_cfg = Limits { max_steps: 30_000, max_solutions: 300, max_term_nodes: 2000 };
            for q in &c.queries {
                nq += 1;
                match solve(&c.prog, &q.goal, &q.template, &lim_cfg) {
                    RefOutcome::Sols(_) => sols += 1,
                    RefOutcome::Ex(_) => ex += 1,
                    RefOutcome::Limit => lim += 1,
                    RefOutcome::Unsupported(_) => unsup += 1,
                }
            }
        }
        println!("queries {nq}: sols {sols} ex {ex} limit {lim} unsupported {unsup}\n{feats:?}");
        assert!(lim * 10 < nq, "too many limit outcomes");
    }
}
