//! Reference Prolog interpreter over the term model `T` (DESIGN §2.4).
//!
//! Plain, slow, explicit: a continuation (goal stack) as an immutable linked list, a
//! choice-point stack, a binding store with a trail, cut barriers as choice-stack heights.
//! It is the oracle for C07 (and later C09, C11, C12, C25, C29, C40) and the tie-breaker of C08.
//!
//! API
//! ---
//! * `Program { preds: Vec<Pred> }`, `Pred { name, arity, dynamic, clauses: Vec<Clause> }`,
//!   `Clause { head: T, body: T }` (body `true` for facts). Build with `Program::add_clause`,
//!   `Program::declare_dynamic`, or `Program::from_text` (fixed texts, via `plparse`).
//! * `solve(&Program, &query, &template, &Limits) -> RefOutcome` — all solutions of `query`
//!   (run as `call(query)`), each a resolved copy of `template`, variables renumbered in
//!   first-occurrence order (like the session layer does), in `T::norm()` form.
//! * `Interp::new(&Program)` + `Interp::solve(&mut self, ..)` keeps the clause database between
//!   queries (assertz/retract persist), like a scryer machine does.
//! * `RefOutcome::{Sols(Vec<T>), Ex(T), Limit, Unsupported(String)}`: `Ex` is the uncaught ball
//!   (errors are `error(Formal, '$ctx')`: only the Formal is meaningful, use `ball_matches` to
//!   compare with an observed ball); `Limit` = step / solution / term-size bound hit;
//!   `Unsupported` = the run reached something this model deliberately does not decide
//!   (floats in arithmetic, cyclic unification, order of two distinct unbound variables,
//!   arg/3 with unbound N, two different errors possible in one arithmetic expression, ...):
//!   callers must discard such cases, never judge them.
//!
//! Semantics implemented (ISO 13211-1 unless noted)
//! * control: `,/2 ;/2 ->/2 *->/2 !/0 \+/1 call/1..8 catch/3 throw/1 findall/3 true fail false
//!   once/1 ignore/1 forall/2`; body conversion (7.6.2): a variable goal X becomes call(X), so a
//!   cut reached through a variable or call/N is local; a non-callable body is
//!   type_error(callable, Body).
//! * builtins: `= \= == \== @< @> @=< @>= compare/3 var nonvar atom integer float number atomic
//!   compound callable is_list ground functor/3 arg/3 =../2 copy_term/2 is/2 =:= =\= < > =< >=`
//!   (integers only, exact, via dashu).
//! * database: `assertz/1 asserta/1 retract/1 retractall/1 abolish/1 clause/2` on dynamic
//!   predicates, logical update view through generation stamps (a clause is visible to an
//!   activation born at generation g iff birth <= g < death); static procedures give
//!   permission_error(modify, static_procedure, PI) / permission_error(access, private_procedure, PI).
//! * unknown procedure: existence_error(procedure, N/A).
//! * all-solutions predicates (added for C25, section "all-solutions predicates" near the end):
//!   findall/4, bagof/3, setof/3 with ^/2 (ISO 8.10.2, 8.10.3; solution groups are enumerated in
//!   standard order of the witness, like every implementation that keysorts), countall/2,
//!   call_nth/2 (library(iso_ext)); `Interp::bag_groups_max`, `Interp::findall_abandoned_nonempty`.
//! * token log + setup_call_cleanup/3, call_cleanup/2 (added for C12, see the section "token log and
//!   setup_call_cleanup" at the end of this file): `vp_tok(K)` / `vp_tok(K, V)` append an entry to
//!   `Interp::log` (never undone by backtracking or exceptions); every activation of
//!   setup_call_cleanup/3 is recorded in `Interp::scc` with the window of log positions in which
//!   its cleanup may legitimately run.
#![allow(dead_code)]
use crate::num::*;
use crate::term::{atom, cmp, int, nil, T};
use dashu::integer::IBig;
use serde::{Deserialize, Serialize};
use std::cell::Cell;
use std::cmp::Ordering;
use std::collections::HashMap;
use std::rc::Rc;

#[derive(Clone, Debug, PartialEq, Serialize, Deserialize)]
pub struct Clause {
    pub head: T,
    pub body: T,
}

#[derive(Clone, Debug, PartialEq, Serialize, Deserialize)]
pub struct Pred {
    pub name: String,
    pub arity: usize,
    pub dynamic: bool,
    pub clauses: Vec<Clause>,
}

#[derive(Clone, Debug, Default, PartialEq, Serialize, Deserialize)]
pub struct Program {
    pub preds: Vec<Pred>,
}

pub fn name_arity(t: &T) -> Option<(String, usize)> {
    match t {
        T::Atom(a) => Some((a.clone(), 0)),
        T::Cmp(n, args) => Some((n.clone(), args.len())),
        T::PList(items, _) if !items.is_empty() => Some((".".into(), 2)),
        T::Str(s) if !s.is_empty() => Some((".".into(), 2)),
        _ => None,
    }
}

impl Program {
    pub fn pred_mut(&mut self, name: &str, arity: usize) -> &mut Pred {
        if let Some(i) = self.preds.iter().position(|p| p.name == name && p.arity == arity) {
            return &mut self.preds[i];
        }
        self.preds.push(Pred { name: name.to_string(), arity, dynamic: false, clauses: vec![] });
        self.preds.last_mut().unwrap()
    }
    pub fn declare_dynamic(&mut self, name: &str, arity: usize) {
        self.pred_mut(name, arity).dynamic = true;
    }
    pub fn add_clause(&mut self, head: T, body: T) {
        let (n, a) = name_arity(&head).expect("clause head must be callable");
        self.pred_mut(&n, a).clauses.push(Clause { head, body });
    }
    /// Add `Head :- Body` or a fact given as one term; `:- dynamic(N/A)` directives are understood.
    pub fn add_term(&mut self, t: &T) -> Result<(), String> {
        match t {
            T::Cmp(n, args) if n == ":-" && args.len() == 2 => {
                self.add_clause(args[0].clone(), args[1].clone());
                Ok(())
            }
            T::Cmp(n, args) if n == ":-" && args.len() == 1 => match &args[0] {
                T::Cmp(d, pis) if d == "dynamic" && pis.len() == 1 => {
                    let mut stack = vec![pis[0].clone()];
                    while let Some(pi) = stack.pop() {
                        match pi {
                            T::Cmp(c, two) if c == "," && two.len() == 2 => {
                                stack.push(two[1].clone());
                                stack.push(two[0].clone());
                            }
                            T::Cmp(s, na) if s == "/" && na.len() == 2 => match (&na[0], &na[1]) {
                                (T::Atom(name), T::Int(ar)) => self.declare_dynamic(name, usize::try_from(ar).map_err(|_| "bad arity")?),
                                _ => return Err("bad predicate indicator".into()),
                            },
                            _ => return Err("bad dynamic directive".into()),
                        }
                    }
                    Ok(())
                }
                other => Err(format!("unsupported directive {}", other.text())),
            },
            _ => {
                self.add_clause(t.clone(), atom("true"));
                Ok(())
            }
        }
    }
    pub fn from_text(text: &str) -> Result<Program, String> {
        let mut p = Program::default();
        for c in crate::shared::plparse::parse_clauses(text)? {
            p.add_term(&c)?;
        }
        Ok(p)
    }
}

#[derive(Clone, Debug)]
pub struct Limits {
    pub max_steps: u64,
    pub max_solutions: usize,
    /// bound on the resolved size (nodes) of any term a variable is bound to
    pub max_term_nodes: usize,
}

impl Default for Limits {
    fn default() -> Self {
        Limits { max_steps: 200_000, max_solutions: 2_000, max_term_nodes: 4_000 }
    }
}

#[derive(Clone, Debug, PartialEq)]
pub enum RefOutcome {
    Sols(Vec<T>),
    Ex(T),
    Limit,
    Unsupported(String),
}

impl RefOutcome {
    pub fn short(&self) -> String {
        match self {
            RefOutcome::Sols(v) => format!("sols[{}]", v.iter().take(8).map(|t| t.text()).collect::<Vec<_>>().join("; ")),
            RefOutcome::Ex(t) => format!("ex({})", t.text()),
            RefOutcome::Limit => "limit".into(),
            RefOutcome::Unsupported(s) => format!("unsupported({s})"),
        }
    }
}

pub const CTX: &str = "$ctx";

/// Does the observed ball match the reference ball? Equal up to variable renaming, where an
/// `error(Formal, '$ctx')` of the reference matches `error(Formal', _)` with any context.
pub fn ball_matches(reference: &T, observed: &T) -> bool {
    fn mask(r: &T, o: &T) -> T {
        match (r, o) {
            (T::Atom(a), _) if a == CTX => atom(CTX),
            (T::Cmp(n, ra), T::Cmp(m, oa)) if n == m && ra.len() == oa.len() => T::Cmp(m.clone(), ra.iter().zip(oa).map(|(x, y)| mask(x, y)).collect()),
            (T::PList(ri, rt), T::PList(oi, ot)) if ri.len() == oi.len() => T::PList(ri.iter().zip(oi).map(|(x, y)| mask(x, y)).collect(), Box::new(mask(rt, ot))),
            _ => o.clone(),
        }
    }
    let (r, o) = (reference.norm(), observed.norm());
    r.variant(&mask(&r, &o))
}

// ---------------------------------------------------------------------------------------------
// internal term form: no Str, no PList; list cells are Cmp(".", [H, T])

pub fn intern(t: &T) -> T {
    match t {
        T::Str(s) => {
            let mut l = nil();
            for c in s.chars().rev() {
                l = T::Cmp(".".into(), vec![T::Atom(c.to_string()), l]);
            }
            l
        }
        T::PList(items, tail) => {
            let mut l = intern(tail);
            for it in items.iter().rev() {
                l = T::Cmp(".".into(), vec![intern(it), l]);
            }
            l
        }
        T::Cmp(n, args) => T::Cmp(n.clone(), args.iter().map(intern).collect()),
        other => other.clone(),
    }
}

fn max_var(t: &T) -> u32 {
    let mut vs = vec![];
    t.vars(&mut vs);
    vs.into_iter().map(|v| v + 1).max().unwrap_or(0)
}

fn shift(t: &T, off: u32) -> T {
    match t {
        T::Var(v) => T::Var(v + off),
        T::Cmp(n, args) => T::Cmp(n.clone(), args.iter().map(|a| shift(a, off)).collect()),
        other => other.clone(),
    }
}

fn mk_list(items: Vec<T>, tail: T) -> T {
    let mut l = tail;
    for it in items.into_iter().rev() {
        l = T::Cmp(".".into(), vec![it, l]);
    }
    l
}

fn pi(name: &str, arity: usize) -> T {
    cmp("/", vec![atom(name), int(arity as i64)])
}

fn err(formal: T) -> Stop {
    Stop::Throw(cmp("error", vec![formal, atom(CTX)]))
}
fn inst_err() -> Stop {
    err(atom("instantiation_error"))
}
fn type_err(kind: &str, culprit: T) -> Stop {
    err(cmp("type_error", vec![atom(kind), culprit]))
}
fn dom_err(kind: &str, culprit: T) -> Stop {
    err(cmp("domain_error", vec![atom(kind), culprit]))
}
fn unsup(s: &str) -> Stop {
    Stop::Unsup(s.to_string())
}

#[derive(Clone, Debug)]
pub enum Stop {
    Throw(T),
    Limit,
    Unsup(String),
}
type R<X> = Result<X, Stop>;

/// Body conversion (ISO 7.6.2): variables in goal positions become call(V); control constructs
/// are walked; a non-callable goal position makes the whole body a type error (Err(())).
pub fn convert_body(t: &T) -> Result<T, ()> {
    match t {
        T::Var(_) => Ok(cmp("call", vec![t.clone()])),
        T::Cmp(n, args) if args.len() == 2 && matches!(n.as_str(), "," | ";" | "->" | "*->") => Ok(T::Cmp(n.clone(), vec![convert_body(&args[0])?, convert_body(&args[1])?])),
        T::Atom(_) | T::Cmp(_, _) => Ok(t.clone()),
        _ => Err(()),
    }
}

// ---------------------------------------------------------------------------------------------
// database

pub struct DbClause {
    head: T,
    body: T,
    nvars: u32,
    birth: u64,
    death: Cell<u64>,
}

#[derive(Clone)]
struct DbPred {
    dynamic: bool,
    clauses: Rc<Vec<Rc<DbClause>>>,
}

const ALIVE: u64 = u64::MAX;

// ---------------------------------------------------------------------------------------------
// machine

#[derive(Clone)]
enum Frame {
    /// run a (converted) goal with the given cut barrier
    Goal(T, usize),
    /// leaving the protected goal of the catch/3 with this id
    PopCatch(u64),
    /// a solution of the findall/3 whose mark sits at this choice-stack index
    Collect(usize),
    /// the goal of the \+ whose mark sits at this choice-stack index succeeded
    NotOk(usize),
    /// if-then: the condition succeeded, cut back to this height
    CutTo(usize),
    /// soft-cut: the condition succeeded (again), disable the else mark at this index
    SoftOk(usize),
    /// the goal of the setup_call_cleanup/3 activation `.0` (mark at choice-stack index `.1`) exited
    SccExit(usize, usize),
    /// the cleanup of activation `.0` has been run
    SccDone(usize),
    /// fail now (after a cleanup that was triggered by failure)
    FailNow,
    /// the goal of the call_nth/2 whose mark sits at this choice-stack index succeeded; `.1` = N
    NthOk(usize, T),
    /// continue unwinding with this ball (after a cleanup that was triggered by an exception);
    /// `.1` = choice points this ball has unwound so far, `.2` = the catch/3 activations that were
    /// active where the ball was thrown
    Rethrow(T, usize, Rc<Vec<u64>>),
}

struct Node {
    f: Frame,
    next: Cont,
}
type Cont = Option<Rc<Node>>;

impl Drop for Node {
    fn drop(&mut self) {
        // iterative drop of long chains
        let mut next = self.next.take();
        while let Some(rc) = next {
            match Rc::try_unwrap(rc) {
                Ok(mut n) => next = n.next.take(),
                Err(_) => break,
            }
        }
    }
}

fn push(f: Frame, next: &Cont) -> Cont {
    Some(Rc::new(Node { f, next: next.clone() }))
}

enum Kind {
    /// remaining clauses of a user predicate call
    Clauses { goal: T, snap: Rc<Vec<Rc<DbClause>>>, idx: usize, gen: u64 },
    /// alternative goal (right branch of a disjunction, else branch)
    Alt { goal: T, cutb: usize },
    Catch { id: u64, catcher: T, recovery: T },
    Findall { template: T, results: Vec<T>, result: T },
    Not,
    /// else branch of a soft-cut whose condition has already succeeded
    Dead,
    /// mark of a setup_call_cleanup/3 activation whose goal is not finished yet
    Cleanup { act: usize, goal: T },
    /// mark of a call_nth/2 activation: solutions counted so far
    Nth { count: u64 },
    /// clause/2 or retract/1 iteration
    DbIter { head: T, body: T, snap: Rc<Vec<Rc<DbClause>>>, idx: usize, gen: u64, retract: bool },
}

struct Choice {
    trail_len: usize,
    cont: Cont,
    kind: Kind,
}

enum Status {
    Continue,
    Fail,
    Solution,
    Exhausted,
}

pub struct Interp {
    db: HashMap<(String, usize), DbPred>,
    gen: u64,
    bind: HashMap<u32, T>,
    trail: Vec<u32>,
    next_var: u32,
    choices: Vec<Choice>,
    cont: Cont,
    steps: u64,
    lim: Limits,
    next_id: u64,
    /// total steps of the last solve (for callers that want a cost measure)
    pub last_steps: u64,
    /// false (default, ISO 8.9.3.4 "antbee" example): a retract/1 activation still yields a clause
    /// of its snapshot that somebody else removed meanwhile; true: it skips such a clause
    pub retract_skips_erased: bool,
    /// token log of the last solve (vp_tok/1,2), in execution order
    pub log: Vec<LogEntry>,
    /// setup_call_cleanup/3 activations of the last solve, in order of activation
    pub scc: Vec<SccAct>,
    /// activations that exited deterministically in the model: (activation, choice-stack height of the mark)
    scc_pending: Vec<(usize, usize)>,
    /// statistics of the last solve: balls taken by a catcher, active catchers that did not unify
    /// with a ball, largest number of choice points unwound by one ball
    pub caught: u64,
    pub passed_catchers: u64,
    pub max_unwound: usize,
    unwound_carry: usize,
    rethrow_active: Option<Rc<Vec<u64>>>,
    /// a cut removed the mark of an inner setup_call_cleanup/3 activation while the next choice point
    /// below was the mark of an outer activation (the shape of a known finding of C12)
    pub cut_directly_above_mark: bool,
    /// a cut removed several setup_call_cleanup/3 marks at once and the cleanup of one that is not the
    /// outermost of them failed (the shape of a known finding of C12)
    pub failed_cleanup_before_outer: bool,
    /// calls of user predicates (clause resolution attempts started) in the last solve
    pub user_calls: u64,
    /// largest number of solution groups one bagof/3 or setof/3 call had in the last solve
    pub bag_groups_max: usize,
    /// an exception abandoned a findall/3 (or bagof, setof, countall) that had already collected solutions
    pub findall_abandoned_nonempty: bool,
}

pub fn solve(p: &Program, query: &T, template: &T, lim: &Limits) -> RefOutcome {
    Interp::new(p).solve(query, template, lim)
}

impl Interp {
    pub fn new(p: &Program) -> Interp {
        let mut it = Interp { db: HashMap::new(), gen: 0, bind: HashMap::new(), trail: vec![], next_var: 0, choices: vec![], cont: None, steps: 0, lim: Limits::default(), next_id: 0, last_steps: 0, retract_skips_erased: false, log: vec![], scc: vec![], scc_pending: vec![], caught: 0, passed_catchers: 0, max_unwound: 0, unwound_carry: 0, rethrow_active: None, cut_directly_above_mark: false, failed_cleanup_before_outer: false, user_calls: 0, bag_groups_max: 0, findall_abandoned_nonempty: false };
        it.consult(p);
        it
    }

    /// Add the clauses of a program (appending to existing predicates).
    pub fn consult(&mut self, p: &Program) {
        for pr in &p.preds {
            let key = (pr.name.clone(), pr.arity);
            let e = self.db.entry(key).or_insert(DbPred { dynamic: pr.dynamic, clauses: Rc::new(vec![]) });
            e.dynamic |= pr.dynamic;
            for c in &pr.clauses {
                let body = convert_body(&intern(&c.body)).expect("program clause body must be callable");
                let cl = Self::mk_clause(&intern(&c.head), &body, 0);
                Rc::make_mut(&mut e.clauses).push(Rc::new(cl));
            }
        }
    }

    fn mk_clause(head: &T, body: &T, birth: u64) -> DbClause {
        let both = cmp(":-", vec![head.clone(), body.clone()]).canon_vars();
        let nvars = max_var(&both);
        let T::Cmp(_, mut hb) = both else { unreachable!() };
        let body = hb.pop().unwrap();
        let head = hb.pop().unwrap();
        DbClause { head, body, nvars, birth, death: Cell::new(ALIVE) }
    }

    // ------------------------------------------------------------------ bindings

    fn deref(&self, t: &T) -> T {
        let mut t = t.clone();
        loop {
            match &t {
                T::Var(v) => match self.bind.get(v) {
                    Some(n) => t = n.clone(),
                    None => return t,
                },
                _ => return t,
            }
        }
    }

    pub fn resolve(&self, t: &T) -> T {
        match self.deref(t) {
            T::Cmp(n, args) => T::Cmp(n, args.iter().map(|a| self.resolve(a)).collect()),
            other => other,
        }
    }

    fn fresh(&mut self) -> T {
        let v = self.next_var;
        self.next_var += 1;
        T::Var(v)
    }

    /// resolved copy with fresh variables
    fn copy(&mut self, t: &T) -> T {
        let r = self.resolve(t).canon_vars();
        let n = max_var(&r);
        let off = self.next_var;
        self.next_var += n;
        shift(&r, off)
    }

    fn undo_to(&mut self, mark: usize) {
        while self.trail.len() > mark {
            let v = self.trail.pop().unwrap();
            self.bind.remove(&v);
        }
    }

    /// bind with occurs check (a cycle is outside the model) and a size bound
    fn bind_var(&mut self, v: u32, t: &T) -> R<()> {
        let mut stack = vec![t.clone()];
        let mut nodes = 0usize;
        while let Some(x) = stack.pop() {
            nodes += 1;
            if nodes > self.lim.max_term_nodes {
                return Err(Stop::Limit);
            }
            match self.deref(&x) {
                T::Var(w) => {
                    if w == v {
                        return Err(unsup("cyclic term created by unification"));
                    }
                }
                T::Cmp(_, args) => stack.extend(args),
                _ => {}
            }
        }
        self.bind.insert(v, t.clone());
        self.trail.push(v);
        Ok(())
    }

    fn unify(&mut self, a: &T, b: &T) -> R<bool> {
        let mut stack = vec![(a.clone(), b.clone())];
        while let Some((x, y)) = stack.pop() {
            let (x, y) = (self.deref(&x), self.deref(&y));
            match (&x, &y) {
                (T::Var(v), T::Var(w)) if v == w => {}
                (T::Var(v), _) => self.bind_var(*v, &y)?,
                (_, T::Var(w)) => self.bind_var(*w, &x)?,
                (T::Atom(p), T::Atom(q)) => {
                    if p != q {
                        return Ok(false);
                    }
                }
                (T::Int(p), T::Int(q)) => {
                    if p != q {
                        return Ok(false);
                    }
                }
                (T::Float(p), T::Float(q)) => {
                    if p.to_bits() != q.to_bits() {
                        if p == q {
                            return Err(unsup("unification of 0.0 and -0.0"));
                        }
                        return Ok(false);
                    }
                }
                (T::Rat(..), T::Rat(..)) => {
                    if !x.norm().eq_struct(&y.norm()) {
                        return Ok(false);
                    }
                }
                (T::Cmp(n, aa), T::Cmp(m, bb)) => {
                    if n != m || aa.len() != bb.len() {
                        return Ok(false);
                    }
                    for (p, q) in aa.iter().zip(bb).rev() {
                        stack.push((p.clone(), q.clone()));
                    }
                }
                _ => return Ok(false),
            }
        }
        Ok(true)
    }

    /// unify, undoing the bindings when it fails
    fn unify_or_undo(&mut self, a: &T, b: &T) -> R<bool> {
        let mark = self.trail.len();
        let ok = self.unify(a, b)?;
        if !ok {
            self.undo_to(mark);
        }
        Ok(ok)
    }

    // ------------------------------------------------------------------ top level

    pub fn solve(&mut self, query: &T, template: &T, lim: &Limits) -> RefOutcome {
        self.lim = lim.clone();
        self.bind.clear();
        self.trail.clear();
        self.choices.clear();
        self.steps = 0;
        self.log.clear();
        self.scc.clear();
        self.scc_pending.clear();
        self.caught = 0;
        self.passed_catchers = 0;
        self.max_unwound = 0;
        self.unwound_carry = 0;
        self.rethrow_active = None;
        self.cut_directly_above_mark = false;
        self.failed_cleanup_before_outer = false;
        self.user_calls = 0;
        self.bag_groups_max = 0;
        self.findall_abandoned_nonempty = false;
        let q = intern(query);
        let tpl = intern(template);
        self.next_var = max_var(&q).max(max_var(&tpl));
        self.cont = push(Frame::Goal(cmp("call", vec![q]), 0), &None);
        let mut sols = vec![];
        let mut failing = false;
        let out = loop {
            let r = if failing { self.backtrack() } else { self.step() };
            match r {
                Ok(Status::Continue) => failing = false,
                Ok(Status::Fail) => failing = true,
                Ok(Status::Solution) => {
                    sols.push(self.resolve(&tpl).norm().canon_vars());
                    if sols.len() > self.lim.max_solutions {
                        break RefOutcome::Limit;
                    }
                    failing = true;
                }
                Ok(Status::Exhausted) => break RefOutcome::Sols(sols),
                Err(Stop::Throw(ball)) => match self.handle_throw(ball) {
                    Ok(None) => failing = false,
                    Ok(Some(ball)) => break RefOutcome::Ex(ball.norm().canon_vars()),
                    Err(Stop::Limit) => break RefOutcome::Limit,
                    Err(Stop::Unsup(s)) => break RefOutcome::Unsupported(s),
                    Err(Stop::Throw(_)) => break RefOutcome::Unsupported("throw while unwinding".into()),
                },
                Err(Stop::Limit) => break RefOutcome::Limit,
                Err(Stop::Unsup(s)) => break RefOutcome::Unsupported(s),
            }
        };
        self.last_steps = self.steps;
        self.choices.clear();
        self.cont = None;
        self.bind.clear();
        self.trail.clear();
        out
    }

    /// `ball` is already a resolved copy. Ok(None): a catcher took it, execution continues.
    fn handle_throw(&mut self, ball: T) -> R<Option<T>> {
        // the catch/3 activations whose goal is being executed where the ball is thrown (a ball that
        // continues after a cleanup keeps the set it started with)
        let active: Rc<Vec<u64>> = match self.rethrow_active.take() {
            Some(a) => a,
            None => {
                let mut active: Vec<u64> = vec![];
                let mut c = self.cont.clone();
                while let Some(n) = c {
                    match &n.f {
                        Frame::PopCatch(id) => active.push(*id),
                        // the goal of a findall/3 or \+/1 runs on its own continuation; the construct
                        // itself continues with the continuation saved in its mark
                        Frame::Collect(idx) | Frame::NotOk(idx) => {
                            c = self.choices[*idx].cont.clone();
                            continue;
                        }
                        _ => {}
                    }
                    c = n.next.clone();
                }
                Rc::new(active)
            }
        };
        let mut popped = std::mem::take(&mut self.unwound_carry);
        while let Some(ch) = self.choices.pop() {
            self.undo_to(ch.trail_len);
            self.scc_settle();
            popped += 1;
            self.max_unwound = self.max_unwound.max(popped);
            if matches!(&ch.kind, Kind::Findall { results, .. } if !results.is_empty()) {
                self.findall_abandoned_nonempty = true;
            }
            if let Kind::Cleanup { act, goal } = &ch.kind {
                // the goal is abandoned by the exception: run the cleanup (its own exceptions and
                // failure are ignored), then go on unwinding
                let s = self.strict_count();
                let a = &mut self.scc[*act];
                if !a.nondet_exit {
                    a.lower = s;
                }
                a.upper = Some(s);
                a.how = "exception";
                let h = self.choices.len();
                let guarded = cmp("catch", vec![Self::ignore_goal(goal), self.fresh(), atom("true")]);
                let n3 = push(Frame::Rethrow(ball, popped, active.clone()), &ch.cont);
                let n2 = push(Frame::SccDone(*act), &n3);
                self.cont = push(Frame::Goal(guarded, h), &n2);
                return Ok(None);
            }
            if let Kind::Catch { id, catcher, recovery } = &ch.kind {
                if active.contains(id) {
                    let b = self.copy(&ball);
                    if !self.unify_or_undo(catcher, &b)? {
                        self.passed_catchers += 1;
                    } else {
                        self.caught += 1;
                        let h = self.choices.len();
                        self.cont = push(Frame::Goal(cmp("call", vec![recovery.clone()]), h), &ch.cont);
                        return Ok(None);
                    }
                }
            }
        }
        self.cont = None;
        Ok(Some(ball))
    }

    fn backtrack(&mut self) -> R<Status> {
        let Some(ch) = self.choices.pop() else { return Ok(Status::Exhausted) };
        self.undo_to(ch.trail_len);
        self.scc_settle();
        self.steps += 1;
        if self.steps > self.lim.max_steps {
            return Err(Stop::Limit);
        }
        match ch.kind {
            Kind::Clauses { goal, snap, idx, gen } => self.try_clauses(goal, snap, idx, gen, ch.cont.clone()),
            Kind::Alt { goal, cutb } => {
                self.cont = push(Frame::Goal(goal, cutb), &ch.cont);
                Ok(Status::Continue)
            }
            Kind::Catch { .. } | Kind::Dead | Kind::Nth { .. } => Ok(Status::Fail),
            Kind::Cleanup { act, goal } => {
                // the goal failed / has no more solutions
                let s = self.strict_count();
                let a = &mut self.scc[act];
                if !a.nondet_exit {
                    a.lower = s;
                }
                a.upper = Some(s);
                a.how = "fail";
                let h = self.choices.len();
                let n3 = push(Frame::FailNow, &ch.cont);
                let n2 = push(Frame::SccDone(act), &n3);
                self.cont = push(Frame::Goal(Self::ignore_goal(&goal), h), &n2);
                Ok(Status::Continue)
            }
            Kind::Not => {
                self.cont = ch.cont.clone();
                Ok(Status::Continue)
            }
            Kind::Findall { results, result, .. } => {
                let l = mk_list(results, nil());
                if self.unify_or_undo(&result, &l)? {
                    self.cont = ch.cont.clone();
                    Ok(Status::Continue)
                } else {
                    Ok(Status::Fail)
                }
            }
            Kind::DbIter { head, body, snap, idx, gen, retract } => self.db_iter(head, body, snap, idx, gen, retract, ch.cont.clone()),
        }
    }

    fn visible(cl: &DbClause, gen: u64) -> bool {
        cl.birth <= gen && gen < cl.death.get()
    }

    fn rename(&mut self, cl: &DbClause) -> (T, T) {
        let off = self.next_var;
        self.next_var += cl.nvars;
        (shift(&cl.head, off), shift(&cl.body, off))
    }

    fn try_clauses(&mut self, goal: T, snap: Rc<Vec<Rc<DbClause>>>, mut idx: usize, gen: u64, cont: Cont) -> R<Status> {
        let h = self.choices.len();
        while idx < snap.len() {
            let cl = snap[idx].clone();
            idx += 1;
            if !Self::visible(&cl, gen) {
                continue;
            }
            let mark = self.trail.len();
            let (head, body) = self.rename(&cl);
            if self.unify(&head, &goal)? {
                if snap[idx..].iter().any(|c| Self::visible(c, gen)) {
                    self.choices.push(Choice { trail_len: mark, cont: cont.clone(), kind: Kind::Clauses { goal, snap: snap.clone(), idx, gen } });
                }
                self.cont = push(Frame::Goal(body, h), &cont);
                return Ok(Status::Continue);
            }
            self.undo_to(mark);
        }
        Ok(Status::Fail)
    }

    fn step(&mut self) -> R<Status> {
        self.steps += 1;
        if self.steps > self.lim.max_steps {
            return Err(Stop::Limit);
        }
        let Some(node) = self.cont.clone() else { return Ok(Status::Solution) };
        let next = node.next.clone();
        match node.f.clone() {
            Frame::Goal(g, cutb) => self.exec(g, cutb, next),
            Frame::PopCatch(_) => {
                self.cont = next;
                Ok(Status::Continue)
            }
            Frame::Collect(idx) => {
                let tpl = match &self.choices[idx].kind {
                    Kind::Findall { template, .. } => template.clone(),
                    _ => panic!("refint: findall mark missing"),
                };
                let c = self.copy(&tpl);
                if let Kind::Findall { results, .. } = &mut self.choices[idx].kind {
                    results.push(c);
                }
                Ok(Status::Fail)
            }
            Frame::NotOk(idx) => {
                assert!(matches!(self.choices[idx].kind, Kind::Not), "refint: negation mark missing");
                // cut back to the mark (cleanups of cut setup_call_cleanup/3 goals run now), then fail
                let after = self.choices[idx].cont.clone();
                self.cont = self.cut_to(idx, push(Frame::FailNow, &after));
                Ok(Status::Continue)
            }
            Frame::CutTo(h) => {
                self.cont = self.cut_to(h, next);
                Ok(Status::Continue)
            }
            Frame::FailNow => Ok(Status::Fail),
            Frame::NthOk(idx, n) => {
                let count = match &mut self.choices[idx].kind {
                    Kind::Nth { count } => {
                        *count += 1;
                        *count
                    }
                    _ => panic!("refint: call_nth mark missing"),
                };
                match self.deref(&n) {
                    T::Int(want) => {
                        if want == IBig::from(count) {
                            // the N-th solution: commit to it
                            self.cont = self.cut_to(idx, next);
                            Ok(Status::Continue)
                        } else {
                            Ok(Status::Fail)
                        }
                    }
                    other => {
                        if self.unify_or_undo(&other, &T::Int(IBig::from(count)))? {
                            self.cont = next;
                            Ok(Status::Continue)
                        } else {
                            Ok(Status::Fail)
                        }
                    }
                }
            }
            Frame::Rethrow(ball, n, active) => {
                self.cont = next;
                self.unwound_carry = n;
                self.rethrow_active = Some(active);
                Err(Stop::Throw(ball))
            }
            Frame::SccDone(_) => {
                self.cont = next;
                Ok(Status::Continue)
            }
            Frame::SccExit(act, idx) => self.scc_exit(act, idx, next),
            Frame::SoftOk(idx) => {
                self.choices[idx].kind = Kind::Dead;
                self.cont = next;
                Ok(Status::Continue)
            }
        }
    }
}

// ---------------------------------------------------------------------------------------------
// goal execution

fn is_control(name: &str, arity: usize) -> bool {
    matches!(
        (name, arity),
        (",", 2) | (";", 2) | ("->", 2) | ("*->", 2) | ("!", 0) | ("\\+", 1) | ("catch", 3) | ("throw", 1) | ("findall", 3) | ("true", 0) | ("fail", 0) | ("false", 0) | ("once", 1) | ("ignore", 1) | ("forall", 2)
            | ("vp_tok", 1) | ("vp_tok", 2) | ("setup_call_cleanup", 3) | ("call_cleanup", 2) | ("$scc_go", 2) | ("$scc_note_failed", 0)
            | ("findall", 4) | ("$app", 3) | ("bagof", 3) | ("setof", 3) | ("$bag", 4) | ("^", 2) | ("countall", 2) | ("$len", 2) | ("call_nth", 2)
    ) || (name == "call" && (1..=8).contains(&arity))
}

const DET_BUILTINS: &[(&str, usize)] = &[
    ("=", 2), ("\\=", 2), ("==", 2), ("\\==", 2), ("@<", 2), ("@>", 2), ("@=<", 2), ("@>=", 2), ("compare", 3),
    ("var", 1), ("nonvar", 1), ("atom", 1), ("integer", 1), ("float", 1), ("number", 1), ("atomic", 1), ("compound", 1),
    ("callable", 1), ("is_list", 1), ("ground", 1), ("functor", 3), ("arg", 3), ("=..", 2), ("copy_term", 2),
    ("is", 2), ("=:=", 2), ("=\\=", 2), ("<", 2), (">", 2), ("=<", 2), (">=", 2),
    ("assertz", 1), ("asserta", 1), ("retractall", 1), ("abolish", 1),
];
const NONDET_BUILTINS: &[(&str, usize)] = &[("clause", 2), ("retract", 1)];

/// Is name/arity a control construct or builtin of the model (so not a user predicate)?
pub fn is_builtin(name: &str, arity: usize) -> bool {
    is_control(name, arity) || DET_BUILTINS.contains(&(name, arity)) || NONDET_BUILTINS.contains(&(name, arity))
}

impl Interp {
    /// call(G) semantics: G resolved, converted, run with a fresh cut barrier
    fn call_goal(&mut self, g: &T, next: Cont) -> R<Status> {
        let g = self.resolve(g);
        if let T::Var(_) = g {
            return Err(inst_err());
        }
        let Ok(conv) = convert_body(&g) else { return Err(type_err("callable", g)) };
        let h = self.choices.len();
        self.cont = push(Frame::Goal(conv, h), &next);
        Ok(Status::Continue)
    }

    fn exec(&mut self, g: T, cutb: usize, next: Cont) -> R<Status> {
        let (name, args): (String, Vec<T>) = match g {
            T::Atom(a) => (a, vec![]),
            T::Cmp(n, a) => (n, a),
            // goal positions are converted, so a variable or number cannot appear here
            other => return Err(type_err("callable", other)),
        };
        let ar = args.len();
        match (name.as_str(), ar) {
            ("true", 0) => {
                self.cont = next;
                Ok(Status::Continue)
            }
            ("fail", 0) | ("false", 0) => Ok(Status::Fail),
            ("!", 0) => {
                self.cont = self.cut_to(cutb, next);
                Ok(Status::Continue)
            }
            (",", 2) => {
                let n2 = push(Frame::Goal(args[1].clone(), cutb), &next);
                self.cont = push(Frame::Goal(args[0].clone(), cutb), &n2);
                Ok(Status::Continue)
            }
            (";", 2) => {
                let h = self.choices.len();
                let mark = self.trail.len();
                match &args[0] {
                    T::Cmp(n, ct) if n == "->" && ct.len() == 2 => {
                        self.choices.push(Choice { trail_len: mark, cont: next.clone(), kind: Kind::Alt { goal: args[1].clone(), cutb } });
                        let n3 = push(Frame::Goal(ct[1].clone(), cutb), &next);
                        let n2 = push(Frame::CutTo(h), &n3);
                        self.cont = push(Frame::Goal(ct[0].clone(), h + 1), &n2);
                    }
                    T::Cmp(n, ct) if n == "*->" && ct.len() == 2 => {
                        self.choices.push(Choice { trail_len: mark, cont: next.clone(), kind: Kind::Alt { goal: args[1].clone(), cutb } });
                        let n3 = push(Frame::Goal(ct[1].clone(), cutb), &next);
                        let n2 = push(Frame::SoftOk(h), &n3);
                        self.cont = push(Frame::Goal(ct[0].clone(), h + 1), &n2);
                    }
                    _ => {
                        self.choices.push(Choice { trail_len: mark, cont: next.clone(), kind: Kind::Alt { goal: args[1].clone(), cutb } });
                        self.cont = push(Frame::Goal(args[0].clone(), cutb), &next);
                    }
                }
                Ok(Status::Continue)
            }
            ("->", 2) => {
                let h = self.choices.len();
                let n3 = push(Frame::Goal(args[1].clone(), cutb), &next);
                let n2 = push(Frame::CutTo(h), &n3);
                self.cont = push(Frame::Goal(args[0].clone(), h), &n2);
                Ok(Status::Continue)
            }
            ("*->", 2) => {
                let h = self.choices.len();
                let n2 = push(Frame::Goal(args[1].clone(), cutb), &next);
                self.cont = push(Frame::Goal(args[0].clone(), h), &n2);
                Ok(Status::Continue)
            }
            ("call", 1) => self.call_goal(&args[0], next),
            ("call", n) if (2..=8).contains(&n) => {
                let g0 = self.deref(&args[0]);
                let g1 = match g0 {
                    T::Var(_) => return Err(inst_err()),
                    T::Atom(a) => T::Cmp(a, args[1..].to_vec()),
                    T::Cmp(f, mut a0) => {
                        a0.extend_from_slice(&args[1..]);
                        T::Cmp(f, a0)
                    }
                    other => return Err(type_err("callable", other)),
                };
                self.call_goal(&g1, next)
            }
            ("once", 1) => {
                let g = cmp("->", vec![cmp("call", vec![args[0].clone()]), atom("true")]);
                self.cont = push(Frame::Goal(g, cutb), &next);
                Ok(Status::Continue)
            }
            ("ignore", 1) => {
                let g = cmp(";", vec![cmp("->", vec![cmp("call", vec![args[0].clone()]), atom("true")]), atom("true")]);
                self.cont = push(Frame::Goal(g, cutb), &next);
                Ok(Status::Continue)
            }
            ("forall", 2) => {
                let inner = cmp(",", vec![cmp("call", vec![args[0].clone()]), cmp("\\+", vec![args[1].clone()])]);
                self.cont = push(Frame::Goal(cmp("\\+", vec![inner]), cutb), &next);
                Ok(Status::Continue)
            }
            ("\\+", 1) => {
                let h = self.choices.len();
                self.choices.push(Choice { trail_len: self.trail.len(), cont: next, kind: Kind::Not });
                let n2 = push(Frame::NotOk(h), &None);
                self.cont = push(Frame::Goal(cmp("call", vec![args[0].clone()]), h + 1), &n2);
                Ok(Status::Continue)
            }
            ("findall", 3) => {
                // 8.10.1.3: Instances must be a partial list or a list
                let r = self.resolve(&args[2]);
                let mut t = &r;
                loop {
                    match t {
                        T::Cmp(n, a) if n == "." && a.len() == 2 => t = &a[1],
                        T::Var(_) => break,
                        x if x.is_nil() => break,
                        _ => return Err(type_err("list", r.clone())),
                    }
                }
                let h = self.choices.len();
                self.choices.push(Choice { trail_len: self.trail.len(), cont: next, kind: Kind::Findall { template: args[0].clone(), results: vec![], result: args[2].clone() } });
                let n2 = push(Frame::Collect(h), &None);
                self.cont = push(Frame::Goal(cmp("call", vec![args[1].clone()]), h + 1), &n2);
                Ok(Status::Continue)
            }
            ("catch", 3) => {
                let h = self.choices.len();
                self.next_id += 1;
                let id = self.next_id;
                self.choices.push(Choice { trail_len: self.trail.len(), cont: next.clone(), kind: Kind::Catch { id, catcher: args[1].clone(), recovery: args[2].clone() } });
                let n2 = push(Frame::PopCatch(id), &next);
                self.cont = push(Frame::Goal(cmp("call", vec![args[0].clone()]), h + 1), &n2);
                Ok(Status::Continue)
            }
            ("throw", 1) => {
                let b = self.resolve(&args[0]);
                if let T::Var(_) = b {
                    return Err(inst_err());
                }
                let b = self.copy(&b);
                Err(Stop::Throw(b))
            }
            ("findall", 4) => {
                self.check_list_arg(&args[2])?;
                self.check_list_arg(&args[3])?;
                let s = self.fresh();
                let n2 = push(Frame::Goal(T::Cmp("$app".into(), vec![s.clone(), args[3].clone(), args[2].clone()]), cutb), &next);
                self.cont = push(Frame::Goal(T::Cmp("findall".into(), vec![args[0].clone(), args[1].clone(), s]), cutb), &n2);
                Ok(Status::Continue)
            }
            ("$app", 3) => {
                // args[0] is a proper list made by findall/3
                let Ok(items) = self.list_items(&args[0])? else { panic!("refint: $app on a non-list") };
                let l = mk_list(items, args[1].clone());
                if self.unify_or_undo(&args[2], &l)? {
                    self.cont = next;
                    Ok(Status::Continue)
                } else {
                    Ok(Status::Fail)
                }
            }
            ("bagof", 3) | ("setof", 3) => self.bagof_start(&args[0], &args[1], &args[2], name == "setof", cutb, next),
            ("$bag", 4) => self.bag_groups(&args[0], &args[1], &args[2], &args[3], cutb, next),
            ("^", 2) => self.call_goal(&args[1], next),
            ("countall", 2) => {
                self.check_count_arg(&args[1])?;
                let s = self.fresh();
                let n2 = push(Frame::Goal(T::Cmp("$len".into(), vec![s.clone(), args[1].clone()]), cutb), &next);
                self.cont = push(Frame::Goal(T::Cmp("findall".into(), vec![atom("x"), args[0].clone(), s]), cutb), &n2);
                Ok(Status::Continue)
            }
            ("$len", 2) => {
                let Ok(items) = self.list_items(&args[0])? else { panic!("refint: $len on a non-list") };
                if self.unify_or_undo(&args[1], &int(items.len() as i64))? {
                    self.cont = next;
                    Ok(Status::Continue)
                } else {
                    Ok(Status::Fail)
                }
            }
            ("call_nth", 2) => {
                self.check_count_arg(&args[1])?;
                if matches!(self.deref(&args[1]), T::Int(i) if i == IBig::ZERO) {
                    return Ok(Status::Fail);
                }
                let h = self.choices.len();
                self.choices.push(Choice { trail_len: self.trail.len(), cont: next.clone(), kind: Kind::Nth { count: 0 } });
                let n2 = push(Frame::NthOk(h, args[1].clone()), &next);
                self.cont = push(Frame::Goal(cmp("call", vec![args[0].clone()]), h + 1), &n2);
                Ok(Status::Continue)
            }
            ("vp_tok", 1) | ("vp_tok", 2) => {
                self.tok(&args);
                self.cont = next;
                Ok(Status::Continue)
            }
            ("setup_call_cleanup", 3) => self.scc_start(&args[0], &args[1], &args[2], cutb, next),
            ("call_cleanup", 2) => self.scc_start(&atom("true"), &args[0], &args[1], cutb, next),
            ("$scc_go", 2) => self.scc_go(&args[0], &args[1], next),
            ("$scc_note_failed", 0) => {
                self.failed_cleanup_before_outer = true;
                self.cont = next;
                Ok(Status::Continue)
            }
            ("clause", 2) => self.start_db_iter(&args[0], &args[1], false, next),
            ("retract", 1) => {
                let c = self.deref(&args[0]);
                let (h, b) = match &c {
                    T::Cmp(n, hb) if n == ":-" && hb.len() == 2 => (hb[0].clone(), hb[1].clone()),
                    _ => (c.clone(), atom("true")),
                };
                self.start_db_iter(&h, &b, true, next)
            }
            _ => {
                if DET_BUILTINS.contains(&(name.as_str(), ar)) {
                    let mark = self.trail.len();
                    if self.det_builtin(&name, &args)? {
                        self.cont = next;
                        Ok(Status::Continue)
                    } else {
                        self.undo_to(mark);
                        Ok(Status::Fail)
                    }
                } else {
                    let key = (name.clone(), ar);
                    match self.db.get(&key) {
                        None => Err(err(cmp("existence_error", vec![atom("procedure"), pi(&name, ar)]))),
                        Some(p) => {
                            let snap = p.clauses.clone();
                            let gen = self.gen;
                            self.user_calls += 1;
                            self.try_clauses(T::Cmp(name, args).atomize(), snap, 0, gen, next)
                        }
                    }
                }
            }
        }
    }
}

trait Atomize {
    fn atomize(self) -> T;
}
impl Atomize for T {
    /// Cmp with no arguments is an atom
    fn atomize(self) -> T {
        match self {
            T::Cmp(n, a) if a.is_empty() => T::Atom(n),
            other => other,
        }
    }
}

// ---------------------------------------------------------------------------------------------
// deterministic builtins

impl Interp {
    fn type_test(&self, name: &str, t: &T) -> bool {
        let d = self.deref(t);
        match name {
            "var" => matches!(d, T::Var(_)),
            "nonvar" => !matches!(d, T::Var(_)),
            "atom" => matches!(d, T::Atom(_)),
            "integer" => matches!(d, T::Int(_)),
            "float" => matches!(d, T::Float(_)),
            "number" => matches!(d, T::Int(_) | T::Float(_) | T::Rat(..)),
            "atomic" => matches!(d, T::Atom(_) | T::Int(_) | T::Float(_) | T::Rat(..)),
            "compound" => matches!(d, T::Cmp(..)),
            "callable" => matches!(d, T::Atom(_) | T::Cmp(..)),
            "ground" => self.resolve(&d).is_ground(),
            "is_list" => {
                let mut x = d;
                loop {
                    match x {
                        T::Cmp(n, a) if n == "." && a.len() == 2 => x = self.deref(&a[1]),
                        other => return other.is_nil(),
                    }
                }
            }
            _ => unreachable!(),
        }
    }

    /// standard order on resolved terms; the relative order of two distinct variables is
    /// implementation dependent -> Unsupported
    fn std_order(a: &T, b: &T) -> R<Ordering> {
        fn rank(t: &T) -> u8 {
            match t {
                T::Var(_) => 0,
                T::Float(_) | T::Int(_) | T::Rat(..) => 1,
                T::Atom(_) => 3,
                _ => 4,
            }
        }
        let (ra, rb) = (rank(a), rank(b));
        if ra != rb {
            return Ok(ra.cmp(&rb));
        }
        match (a, b) {
            (T::Var(x), T::Var(y)) => {
                if x == y {
                    Ok(Ordering::Equal)
                } else {
                    Err(unsup("standard order of two distinct variables"))
                }
            }
            (T::Int(x), T::Int(y)) => Ok(x.cmp(y)),
            (T::Int(x), T::Float(f)) => Ok(match cmp_int_f64_exact(x, *f) {
                Ordering::Equal => Ordering::Greater,
                o => o,
            }),
            (T::Float(f), T::Int(y)) => Ok(match cmp_int_f64_exact(y, *f) {
                Ordering::Equal => Ordering::Less,
                o => o.reverse(),
            }),
            (T::Float(x), T::Float(y)) => {
                if x == y && x.to_bits() != y.to_bits() {
                    return Err(unsup("order of 0.0 and -0.0"));
                }
                Ok(x.partial_cmp(y).unwrap_or(Ordering::Equal))
            }
            (T::Rat(..), _) | (_, T::Rat(..)) => Err(unsup("rationals in standard order")),
            (T::Atom(x), T::Atom(y)) => Ok(x.chars().cmp(y.chars())),
            (T::Cmp(n, aa), T::Cmp(m, bb)) => {
                if aa.len() != bb.len() {
                    return Ok(aa.len().cmp(&bb.len()));
                }
                let c = n.chars().cmp(m.chars());
                if c != Ordering::Equal {
                    return Ok(c);
                }
                for (x, y) in aa.iter().zip(bb) {
                    let c = Self::std_order(x, y)?;
                    if c != Ordering::Equal {
                        return Ok(c);
                    }
                }
                Ok(Ordering::Equal)
            }
            _ => Err(unsup("standard order of unexpected terms")),
        }
    }

    fn identical(a: &T, b: &T) -> bool {
        match (a, b) {
            (T::Float(x), T::Float(y)) => x.to_bits() == y.to_bits(),
            (T::Cmp(n, aa), T::Cmp(m, bb)) => n == m && aa.len() == bb.len() && aa.iter().zip(bb).all(|(x, y)| Self::identical(x, y)),
            _ => a == b,
        }
    }

    fn list_items(&self, l: &T) -> R<Result<Vec<T>, T>> {
        // Ok(Ok(items)) proper list; Ok(Err(tail)) partial (tail var) or non-list (tail other)
        let mut items = vec![];
        let mut x = self.deref(l);
        loop {
            match x {
                T::Cmp(n, a) if n == "." && a.len() == 2 => {
                    items.push(a[0].clone());
                    x = self.deref(&a[1]);
                }
                other if other.is_nil() => return Ok(Ok(items)),
                other => return Ok(Err(other)),
            }
        }
    }

    fn det_builtin(&mut self, name: &str, args: &[T]) -> R<bool> {
        match name {
            "=" => self.unify(&args[0], &args[1]),
            "\\=" => {
                let mark = self.trail.len();
                let ok = self.unify(&args[0], &args[1])?;
                self.undo_to(mark);
                Ok(!ok)
            }
            "==" | "\\==" => {
                let eq = Self::identical(&self.resolve(&args[0]), &self.resolve(&args[1]));
                Ok(eq == (name == "=="))
            }
            "@<" | "@>" | "@=<" | "@>=" => {
                let (a, b) = (self.resolve(&args[0]), self.resolve(&args[1]));
                if Self::identical(&a, &b) {
                    return Ok(matches!(name, "@=<" | "@>="));
                }
                let o = Self::std_order(&a, &b)?;
                Ok(match name {
                    "@<" | "@=<" => o == Ordering::Less,
                    _ => o == Ordering::Greater,
                })
            }
            "compare" => {
                let o = self.deref(&args[0]);
                match &o {
                    T::Var(_) => {}
                    T::Atom(a) if matches!(a.as_str(), "<" | "=" | ">") => {}
                    T::Atom(_) => return Err(dom_err("order", o)),
                    _ => return Err(type_err("atom", o)),
                }
                let (a, b) = (self.resolve(&args[1]), self.resolve(&args[2]));
                let ord = if Self::identical(&a, &b) { Ordering::Equal } else { Self::std_order(&a, &b)? };
                let s = match ord {
                    Ordering::Less => "<",
                    Ordering::Equal => "=",
                    Ordering::Greater => ">",
                };
                self.unify(&o, &atom(s))
            }
            "var" | "nonvar" | "atom" | "integer" | "float" | "number" | "atomic" | "compound" | "callable" | "is_list" | "ground" => Ok(self.type_test(name, &args[0])),
            "copy_term" => {
                let c = self.copy(&args[0]);
                self.unify(&args[1], &c)
            }
            "functor" => {
                let t = self.deref(&args[0]);
                match &t {
                    T::Var(_) => {
                        let (n, a) = (self.deref(&args[1]), self.deref(&args[2]));
                        if matches!(n, T::Var(_)) || matches!(a, T::Var(_)) {
                            return Err(inst_err());
                        }
                        let T::Int(ai) = &a else { return Err(type_err("integer", a)) };
                        if matches!(n, T::Cmp(..)) {
                            return Err(type_err("atomic", self.resolve(&n)));
                        }
                        if *ai < IBig::ZERO {
                            return Err(dom_err("not_less_than_zero", a.clone()));
                        }
                        if *ai == IBig::ZERO {
                            return self.unify(&t, &n);
                        }
                        let T::Atom(nm) = &n else { return Err(type_err("atom", n)) };
                        let k = usize::try_from(ai).unwrap_or(usize::MAX);
                        if k > 255 {
                            return Err(unsup("functor/3 arity above max_arity"));
                        }
                        let fresh: Vec<T> = (0..k).map(|_| self.fresh()).collect();
                        self.unify(&t, &T::Cmp(nm.clone(), fresh))
                    }
                    T::Cmp(n, a) => {
                        let ok = self.unify(&args[1], &atom(n))?;
                        Ok(ok && self.unify(&args[2], &int(a.len() as i64))?)
                    }
                    _ => {
                        let ok = self.unify(&args[1], &t)?;
                        Ok(ok && self.unify(&args[2], &int(0))?)
                    }
                }
            }
            "arg" => {
                let (n, t) = (self.deref(&args[0]), self.deref(&args[1]));
                if let T::Var(_) = t {
                    return Err(inst_err());
                }
                let ni = match &n {
                    T::Var(_) => return Err(unsup("arg/3 with unbound N (ISO: instantiation_error; scryer enumerates)")),
                    T::Int(i) => i.clone(),
                    _ => return Err(type_err("integer", n)),
                };
                let T::Cmp(_, ta) = &t else { return Err(type_err("compound", t)) };
                if ni < IBig::ZERO {
                    return Err(dom_err("not_less_than_zero", n));
                }
                match usize::try_from(&ni) {
                    Ok(k) if k >= 1 && k <= ta.len() => self.unify(&args[2], &ta[k - 1]),
                    _ => Ok(false),
                }
            }
            "=.." => {
                let t = self.deref(&args[0]);
                match &t {
                    T::Var(_) => match self.list_items(&args[1])? {
                        Err(T::Var(_)) => Err(inst_err()),
                        Err(_) => Err(type_err("list", self.resolve(&args[1]))),
                        Ok(items) => {
                            if items.is_empty() {
                                return Err(dom_err("non_empty_list", nil()));
                            }
                            let h = self.deref(&items[0]);
                            if items.len() == 1 {
                                return match h {
                                    T::Var(_) => Err(inst_err()),
                                    T::Cmp(..) => Err(type_err("atomic", self.resolve(&h))),
                                    _ => self.unify(&t, &h),
                                };
                            }
                            match h {
                                T::Var(_) => Err(inst_err()),
                                T::Atom(nm) => {
                                    if items.len() - 1 > 255 {
                                        return Err(unsup("=.. above max_arity"));
                                    }
                                    self.unify(&t, &T::Cmp(nm, items[1..].to_vec()))
                                }
                                other => Err(type_err("atom", self.resolve(&other))),
                            }
                        }
                    },
                    _ => {
                        // 8.5.3.3 b, d, e hold whether or not Term is a variable
                        match self.list_items(&args[1])? {
                            Err(T::Var(_)) => {}
                            Err(_) => return Err(type_err("list", self.resolve(&args[1]))),
                            Ok(items) => {
                                if let Some(h0) = items.first() {
                                    let h = self.deref(h0);
                                    if items.len() == 1 {
                                        if let T::Cmp(..) = h {
                                            return Err(type_err("atomic", self.resolve(&h)));
                                        }
                                    } else if !matches!(h, T::Var(_) | T::Atom(_)) {
                                        return Err(type_err("atom", self.resolve(&h)));
                                    }
                                }
                            }
                        }
                        let items = match &t {
                            T::Cmp(n, a) => {
                                let mut v = vec![atom(n)];
                                v.extend(a.iter().cloned());
                                v
                            }
                            _ => vec![t.clone()],
                        };
                        self.unify(&args[1], &mk_list(items, nil()))
                    }
                }
            }
            "is" => {
                let v = self.eval(&args[1])?;
                self.unify(&args[0], &T::Int(v))
            }
            "=:=" | "=\\=" | "<" | ">" | "=<" | ">=" => {
                let (a, b) = self.eval2(&args[0], &args[1])?;
                Ok(match name {
                    "=:=" => a == b,
                    "=\\=" => a != b,
                    "<" => a < b,
                    ">" => a > b,
                    "=<" => a <= b,
                    _ => a >= b,
                })
            }
            "assertz" | "asserta" => self.assert_clause(&args[0], name == "asserta"),
            "retractall" => self.retractall(&args[0]),
            "abolish" => self.abolish(&args[0]),
            _ => unreachable!("det builtin {name}"),
        }
    }
}

// ---------------------------------------------------------------------------------------------
// arithmetic (integers only)

/// evaluable functors of scryer that this model does not implement -> Unsupported, not type_error
const OTHER_EVALUABLES: &[(&str, usize)] = &[
    ("/", 2), ("**", 2), ("rdiv", 2), ("atan2", 2), ("cos", 1), ("sin", 1), ("tan", 1), ("acos", 1), ("asin", 1), ("atan", 1), ("exp", 1), ("log", 1), ("log", 2), ("sqrt", 1),
    ("float", 1), ("float_fractional_part", 1), ("float_integer_part", 1), ("floor", 1), ("ceiling", 1), ("round", 1), ("truncate", 1), ("e", 0), ("pi", 0), ("epsilon", 0),
    ("max_tagged_integer", 0), ("min_tagged_integer", 0), ("random", 0), ("random_float", 0), ("cputime", 0), ("realtime", 0), ("inf", 0), ("nan", 0), ("infinite", 0), ("msb", 1), ("lsb", 1),
    ("popcount", 1), ("succ", 1), ("plus", 2), ("truncate", 1), ("trunc", 1), ("integer", 1), ("cot", 1), ("sinh", 1), ("cosh", 1), ("tanh", 1), ("asinh", 1), ("acosh", 1), ("atanh", 1),
    ("log2", 1), ("erf", 1), ("erfc", 1), ("gamma", 1), ("lgamma", 1), ("numerator", 1), ("denominator", 1), ("rational", 1), ("rationalize", 1), (".", 2),
];

impl Interp {
    fn eval2(&mut self, a: &T, b: &T) -> R<(IBig, IBig)> {
        let (ra, rb) = (self.eval(a), self.eval(b));
        match (ra, rb) {
            (Ok(x), Ok(y)) => Ok((x, y)),
            (Err(Stop::Throw(e1)), Err(Stop::Throw(e2))) => {
                if e1 == e2 {
                    Err(Stop::Throw(e1))
                } else {
                    Err(unsup("two different errors possible in one arithmetic evaluation"))
                }
            }
            // Limit / Unsupported on either side wins over an error of the other side
            (Err(e @ (Stop::Limit | Stop::Unsup(_))), _) | (_, Err(e @ (Stop::Limit | Stop::Unsup(_)))) => Err(e),
            (Err(e), _) | (_, Err(e)) => Err(e),
        }
    }

    fn eval(&mut self, t: &T) -> R<IBig> {
        let t = self.deref(t);
        let big = |v: IBig| -> R<IBig> {
            if bit_len(&v) > 8192 {
                Err(unsup("integer above the model's size bound"))
            } else {
                Ok(v)
            }
        };
        match &t {
            T::Var(_) => Err(inst_err()),
            T::Int(i) => Ok(i.clone()),
            T::Float(_) | T::Rat(..) => Err(unsup("non-integer arithmetic")),
            T::Atom(a) => {
                if OTHER_EVALUABLES.contains(&(a.as_str(), 0)) {
                    Err(unsup("evaluable atom outside the model"))
                } else {
                    Err(type_err("evaluable", pi(a, 0)))
                }
            }
            T::Cmp(n, args) if args.len() == 1 => {
                let known = matches!(n.as_str(), "-" | "+" | "abs" | "sign" | "\\");
                if !known {
                    if OTHER_EVALUABLES.contains(&(n.as_str(), 1)) {
                        return Err(unsup("evaluable functor outside the model"));
                    }
                    // the operand may itself raise; with an unknown functor both are possible
                    return match self.eval(&args[0]) {
                        Ok(_) => Err(type_err("evaluable", pi(n, 1))),
                        Err(Stop::Throw(_)) => Err(unsup("two different errors possible in one arithmetic evaluation")),
                        Err(e) => Err(e),
                    };
                }
                let x = self.eval(&args[0])?;
                big(match n.as_str() {
                    "-" => -x,
                    "+" => x,
                    "abs" => iabs(&x),
                    "sign" => isign(&x),
                    _ => -x - IBig::ONE,
                })
            }
            T::Cmp(n, args) if args.len() == 2 => {
                let known = matches!(n.as_str(), "+" | "-" | "*" | "//" | "mod" | "rem" | "div" | "min" | "max" | "gcd" | "^" | ">>" | "<<" | "/\\" | "\\/" | "xor");
                if !known {
                    if OTHER_EVALUABLES.contains(&(n.as_str(), 2)) {
                        return Err(unsup("evaluable functor outside the model"));
                    }
                    return match self.eval2(&args[0], &args[1]) {
                        Ok(_) => Err(type_err("evaluable", pi(n, 2))),
                        Err(Stop::Throw(_)) => Err(unsup("two different errors possible in one arithmetic evaluation")),
                        Err(e) => Err(e),
                    };
                }
                let (x, y) = self.eval2(&args[0], &args[1])?;
                let zero_div = || err(cmp("evaluation_error", vec![atom("zero_divisor")]));
                big(match n.as_str() {
                    "+" => x + y,
                    "-" => x - y,
                    "*" => {
                        if bit_len(&x) + bit_len(&y) > 8192 {
                            return Err(unsup("integer above the model's size bound"));
                        }
                        x * y
                    }
                    "//" | "rem" | "div" | "mod" => {
                        if y == IBig::ZERO {
                            return Err(zero_div());
                        }
                        match n.as_str() {
                            "//" => &x / &y,
                            "rem" => &x - (&x / &y) * &y,
                            "div" => div_floor(&x, &y),
                            _ => mod_floor(&x, &y),
                        }
                    }
                    "min" => {
                        if x <= y {
                            x
                        } else {
                            y
                        }
                    }
                    "max" => {
                        if x >= y {
                            x
                        } else {
                            y
                        }
                    }
                    "gcd" => igcd(&x, &y),
                    "^" => {
                        if x == IBig::ONE {
                            IBig::ONE
                        } else if x == IBig::NEG_ONE {
                            if &y % IBig::from(2) == IBig::ZERO {
                                IBig::ONE
                            } else {
                                IBig::NEG_ONE
                            }
                        } else if is_neg(&y) {
                            // 0^-1: undefined; 2^-1: type_error(float, 2) -- both left to C01
                            return Err(unsup("negative exponent"));
                        } else {
                            let Ok(k) = u32::try_from(&y) else { return Err(unsup("exponent above the model's size bound")) };
                            if (bit_len(&x).max(1) as u64) * (k as u64) > 8192 {
                                return Err(unsup("integer above the model's size bound"));
                            }
                            let mut r = IBig::ONE;
                            for _ in 0..k {
                                r *= &x;
                            }
                            r
                        }
                    }
                    ">>" | "<<" => {
                        let Ok(k) = i32::try_from(&y) else { return Err(unsup("shift count above the model's size bound")) };
                        if k.unsigned_abs() > 4096 {
                            return Err(unsup("shift count above the model's size bound"));
                        }
                        let left = (n == "<<") == (k >= 0);
                        let k = k.unsigned_abs();
                        if left {
                            x * ipow2(k)
                        } else {
                            div_floor(&x, &ipow2(k))
                        }
                    }
                    "/\\" => x & y,
                    "\\/" => x | y,
                    _ => x ^ y,
                })
            }
            T::Cmp(n, args) => {
                if OTHER_EVALUABLES.contains(&(n.as_str(), args.len())) {
                    return Err(unsup("evaluable functor outside the model"));
                }
                for a in args {
                    match self.eval(a) {
                        Ok(_) => {}
                        Err(Stop::Throw(_)) => return Err(unsup("two different errors possible in one arithmetic evaluation")),
                        Err(e) => return Err(e),
                    }
                }
                Err(type_err("evaluable", pi(n, args.len())))
            }
            _ => Err(unsup("unexpected term in arithmetic")),
        }
    }
}

// ---------------------------------------------------------------------------------------------
// clause database

impl Interp {
    fn perm_err(action: &str, kind: &str, name: &str, arity: usize) -> Stop {
        err(cmp("permission_error", vec![atom(action), atom(kind), pi(name, arity)]))
    }

    /// split and check a clause term for assert: (head, converted body)
    fn clause_parts(&self, c: &T) -> R<(T, T)> {
        let c = self.resolve(c);
        let (h, b) = match c {
            T::Var(_) => return Err(inst_err()),
            T::Cmp(n, mut hb) if n == ":-" && hb.len() == 2 => {
                let b = hb.pop().unwrap();
                (hb.pop().unwrap(), b)
            }
            other => (other, atom("true")),
        };
        match &h {
            T::Var(_) => return Err(inst_err()),
            T::Atom(_) | T::Cmp(..) => {}
            _ => return Err(type_err("callable", h)),
        }
        let Ok(body) = convert_body(&b) else { return Err(type_err("callable", b)) };
        Ok((h, body))
    }

    fn assert_clause(&mut self, c: &T, front: bool) -> R<bool> {
        let (h, body) = self.clause_parts(c)?;
        let (name, ar) = name_arity(&h).unwrap();
        if is_builtin(&name, ar) {
            return Err(Self::perm_err("modify", "static_procedure", &name, ar));
        }
        if let Some(p) = self.db.get(&(name.clone(), ar)) {
            if !p.dynamic {
                return Err(Self::perm_err("modify", "static_procedure", &name, ar));
            }
        }
        self.gen += 1;
        let cl = Rc::new(Self::mk_clause(&h, &body, self.gen));
        let e = self.db.entry((name, ar)).or_insert(DbPred { dynamic: true, clauses: Rc::new(vec![]) });
        let v = Rc::make_mut(&mut e.clauses);
        if front {
            v.insert(0, cl);
        } else {
            v.push(cl);
        }
        Ok(true)
    }

    fn retractall(&mut self, head: &T) -> R<bool> {
        let h = self.resolve(head);
        let (name, ar) = match &h {
            T::Var(_) => return Err(inst_err()),
            T::Atom(_) | T::Cmp(..) => name_arity(&h).unwrap(),
            _ => return Err(type_err("callable", h)),
        };
        if is_builtin(&name, ar) {
            return Err(Self::perm_err("modify", "static_procedure", &name, ar));
        }
        let snap = match self.db.get(&(name.clone(), ar)) {
            None => {
                self.db.insert((name, ar), DbPred { dynamic: true, clauses: Rc::new(vec![]) });
                return Ok(true);
            }
            Some(p) if !p.dynamic => return Err(Self::perm_err("modify", "static_procedure", &name, ar)),
            Some(p) => p.clauses.clone(),
        };
        let gen = self.gen;
        for cl in snap.iter() {
            if !Self::visible(cl, gen) {
                continue;
            }
            let mark = self.trail.len();
            let (ch, _) = self.rename(cl);
            let ok = self.unify(&ch, &h)?;
            self.undo_to(mark);
            if ok && cl.death.get() == ALIVE {
                self.gen += 1;
                cl.death.set(self.gen);
            }
        }
        Ok(true)
    }

    fn abolish(&mut self, pi_t: &T) -> R<bool> {
        let p = self.resolve(pi_t);
        let (n, a) = match &p {
            T::Var(_) => return Err(inst_err()),
            T::Cmp(s, na) if s == "/" && na.len() == 2 => (na[0].clone(), na[1].clone()),
            _ => return Err(type_err("predicate_indicator", p)),
        };
        if matches!(n, T::Var(_)) || matches!(a, T::Var(_)) {
            return Err(inst_err());
        }
        let T::Atom(name) = &n else { return Err(type_err("atom", n)) };
        let T::Int(ai) = &a else { return Err(type_err("integer", a)) };
        if *ai < IBig::ZERO {
            return Err(dom_err("not_less_than_zero", a.clone()));
        }
        let ar = usize::try_from(ai).map_err(|_| unsup("abolish arity above max_arity"))?;
        if ar > 255 {
            return Err(unsup("abolish arity above max_arity"));
        }
        if is_builtin(name, ar) {
            return Err(Self::perm_err("modify", "static_procedure", name, ar));
        }
        match self.db.get(&(name.clone(), ar)) {
            None => Ok(true),
            Some(pr) if !pr.dynamic => Err(Self::perm_err("modify", "static_procedure", name, ar)),
            Some(pr) => {
                let snap = pr.clauses.clone();
                for cl in snap.iter() {
                    if cl.death.get() == ALIVE {
                        self.gen += 1;
                        cl.death.set(self.gen);
                    }
                }
                self.db.remove(&(name.clone(), ar));
                Ok(true)
            }
        }
    }

    fn start_db_iter(&mut self, head: &T, body: &T, retract: bool, next: Cont) -> R<Status> {
        let h = self.deref(head);
        let (name, ar) = match &h {
            T::Var(_) => return Err(inst_err()),
            T::Atom(_) | T::Cmp(..) => name_arity(&h).unwrap(),
            _ => return Err(type_err("callable", self.resolve(&h))),
        };
        let b = self.deref(body);
        if !retract && !matches!(b, T::Var(_) | T::Atom(_) | T::Cmp(..)) {
            return Err(type_err("callable", b));
        }
        let (action, kind) = if retract { ("modify", "static_procedure") } else { ("access", "private_procedure") };
        if is_builtin(&name, ar) {
            return Err(Self::perm_err(action, kind, &name, ar));
        }
        let snap = match self.db.get(&(name.clone(), ar)) {
            None => return Ok(Status::Fail),
            Some(p) if !p.dynamic => return Err(Self::perm_err(action, kind, &name, ar)),
            Some(p) => p.clauses.clone(),
        };
        let gen = self.gen;
        self.db_iter(h, b, snap, 0, gen, retract, next)
    }

    /// clause/2 and retract/1: iterate over the clauses visible at call time (logical update view)
    #[allow(clippy::too_many_arguments)]
    fn db_iter(&mut self, head: T, body: T, snap: Rc<Vec<Rc<DbClause>>>, mut idx: usize, gen: u64, retract: bool, cont: Cont) -> R<Status> {
        while idx < snap.len() {
            let cl = snap[idx].clone();
            idx += 1;
            if !Self::visible(&cl, gen) || (retract && self.retract_skips_erased && cl.death.get() != ALIVE) {
                continue;
            }
            let mark = self.trail.len();
            let (ch, cb) = self.rename(&cl);
            if self.unify(&ch, &head)? && self.unify(&cb, &body)? {
                if snap[idx..].iter().any(|c| Self::visible(c, gen)) {
                    self.choices.push(Choice { trail_len: mark, cont: cont.clone(), kind: Kind::DbIter { head, body, snap: snap.clone(), idx, gen, retract } });
                }
                if retract && cl.death.get() == ALIVE {
                    self.gen += 1;
                    cl.death.set(self.gen);
                }
                self.cont = cont;
                return Ok(Status::Continue);
            }
            self.undo_to(mark);
        }
        Ok(Status::Fail)
    }
}

// ---------------------------------------------------------------------------------------------
// all-solutions predicates (C25)
//
// bagof(T, G, L) (ISO 8.10.2): Witness = the variables of the iterated goal of G (G without its
// V^ prefixes) that occur neither in T nor in a V of a V^ prefix; findall(Witness-T, G', S); S = []
// fails; the solutions are grouped by witness (two solutions belong to the same group when their
// witnesses are variants; the witnesses of a group are unified with each other and with Witness);
// the groups are enumerated on backtracking in standard order of the witness (what keysort-based
// implementations do; ISO leaves the order open, callers that compare must accept any order);
// within a group the solutions keep the order of S. setof/3 (8.10.3) sorts each group in standard
// order and removes duplicates. Any comparison of two distinct unbound variables is Unsupported.
// findall/4 = findall/3 result ++ Tail. countall(G, N): N = number of solutions. call_nth(G, N):
// N unbound numbers the solutions 1, 2, ..; N a positive integer gives only the N-th solution
// (committing to it); N = 0 fails. Type checks like library(iso_ext) / library(error) can_be/2.

impl Interp {
    /// can_be(list, X): a list or a partial list, else type_error(list, X)
    fn check_list_arg(&self, t: &T) -> R<()> {
        let r = self.resolve(t);
        let mut x = &r;
        loop {
            match x {
                T::Cmp(n, a) if n == "." && a.len() == 2 => x = &a[1],
                T::Var(_) => return Ok(()),
                y if y.is_nil() => return Ok(()),
                _ => return Err(type_err("list", r.clone())),
            }
        }
    }

    /// can_be(integer, N), then N >= 0
    fn check_count_arg(&self, t: &T) -> R<()> {
        match self.deref(t) {
            T::Var(_) => Ok(()),
            T::Int(i) => {
                if i < IBig::ZERO {
                    Err(dom_err("not_less_than_zero", T::Int(i)))
                } else {
                    Ok(())
                }
            }
            other => Err(type_err("integer", self.resolve(&other))),
        }
    }

    fn bagof_start(&mut self, template: &T, goal: &T, result: &T, is_setof: bool, cutb: usize, next: Cont) -> R<Status> {
        self.check_list_arg(result)?;
        let t = self.resolve(template);
        let mut g = self.resolve(goal);
        let mut bound = vec![];
        t.vars(&mut bound);
        loop {
            match g {
                T::Cmp(n, mut a) if n == "^" && a.len() == 2 => {
                    a[0].vars(&mut bound);
                    g = a.pop().unwrap();
                }
                other => {
                    g = other;
                    break;
                }
            }
        }
        let mut gv = vec![];
        g.vars(&mut gv);
        let witness = mk_list(gv.into_iter().filter(|v| !bound.contains(v)).map(T::Var).collect(), nil());
        let s = self.fresh();
        let bag = T::Cmp("$bag".into(), vec![s.clone(), witness.clone(), result.clone(), atom(if is_setof { "setof" } else { "bagof" })]);
        let n2 = push(Frame::Goal(bag, cutb), &next);
        self.cont = push(Frame::Goal(T::Cmp("findall".into(), vec![cmp("-", vec![witness, t]), g, s]), cutb), &n2);
        Ok(Status::Continue)
    }

    fn sort_by<X: Clone>(items: &mut Vec<X>, key: impl Fn(&X) -> &T, dedup: bool) -> R<()> {
        // stable insertion sort (the comparison may be undecidable in the model)
        let mut out: Vec<X> = vec![];
        'next: for it in items.drain(..) {
            let mut pos = out.len();
            while pos > 0 {
                let o = if Self::identical(key(&out[pos - 1]), key(&it)) { Ordering::Equal } else { Self::std_order(key(&out[pos - 1]), key(&it))? };
                match o {
                    Ordering::Greater => pos -= 1,
                    Ordering::Equal if dedup => continue 'next,
                    _ => break,
                }
            }
            out.insert(pos, it);
        }
        *items = out;
        Ok(())
    }

    fn bag_groups(&mut self, sols: &T, witness: &T, result: &T, kind: &T, cutb: usize, next: Cont) -> R<Status> {
        let Ok(items) = self.list_items(sols)? else { panic!("refint: $bag on a non-list") };
        if items.is_empty() {
            return Ok(Status::Fail);
        }
        let is_setof = matches!(kind, T::Atom(a) if a == "setof");
        let mut pairs: Vec<(T, T)> = vec![];
        for it in items {
            match self.resolve(&it) {
                T::Cmp(n, mut a) if n == "-" && a.len() == 2 => {
                    let t = a.pop().unwrap();
                    pairs.push((a.pop().unwrap(), t));
                }
                _ => panic!("refint: $bag element"),
            }
        }
        // groups of variant witnesses, in order of first occurrence
        let mut groups: Vec<(T, Vec<(T, T)>)> = vec![];
        for (w, t) in pairs {
            match groups.iter_mut().find(|(gw, _)| gw.variant(&w)) {
                Some((_, v)) => v.push((w, t)),
                None => groups.push((w.clone(), vec![(w, t)])),
            }
        }
        self.bag_groups_max = self.bag_groups_max.max(groups.len());
        if groups.len() > 1 {
            Self::sort_by(&mut groups, |g| &g.0, false)?;
        }
        // one alternative per group: unify the witnesses, then the result list
        let mut alts: Vec<T> = vec![];
        for (_, mut members) in groups {
            let mut goals: Vec<T> = members.iter().map(|(w, _)| cmp("=", vec![w.clone(), witness.clone()])).collect();
            if is_setof {
                // (the witnesses of a group are variants of each other: unifying them cannot change the
                // order of ground templates; templates with variables make the order Unsupported)
                Self::sort_by(&mut members, |m| &m.1, true)?;
            }
            goals.push(cmp("=", vec![result.clone(), mk_list(members.into_iter().map(|(_, t)| t).collect(), nil())]));
            let mut g = goals.pop().unwrap();
            while let Some(x) = goals.pop() {
                g = cmp(",", vec![x, g]);
            }
            alts.push(g);
        }
        let mut g = alts.pop().unwrap();
        while let Some(x) = alts.pop() {
            g = cmp(";", vec![x, g]);
        }
        self.cont = push(Frame::Goal(g, cutb), &next);
        Ok(Status::Continue)
    }
}

// ---------------------------------------------------------------------------------------------
// token log and setup_call_cleanup/3 (C12)
//
// setup_call_cleanup(S, G, C): once(S); C unbound -> instantiation_error; then G is run as call(G)
// above a mark on the choice stack. The cleanup ignore(C) runs
//   * when G exits and no choice point is left above the mark (deterministic exit),
//   * when execution backtracks into the mark (G failed / has no more solutions),
//   * when an exception unwinds through the mark (exceptions of C itself are then ignored),
//   * when a cut (!, ->, \+, once/1) removes the mark, innermost activation first.
// When an implementation *detects* determinism is its own business (it may keep choice points the
// model does not have), so every activation also records the window [lower, upper] of log
// positions (counted in tokens that are not cleanup tokens) in which its cleanup may run:
//   lower = position at the last exit of G (at the failure / exception that finished it when G never exited);
//   upper = the same position for failure and exception; the position of the cut for a cut; for a
//           deterministic exit the position at which the choice stack first becomes lower than the
//           mark (every choice point an implementation may have kept is gone by then), None = end.

#[derive(Clone, Debug, PartialEq)]
pub struct LogEntry {
    pub k: T,
    pub v: Option<T>,
    /// Some(activation) when the token was logged while the cleanup of that activation was running
    pub cleanup_of: Option<usize>,
}

#[derive(Clone, Debug, PartialEq)]
pub struct SccAct {
    pub lower: usize,
    pub upper: Option<usize>,
    /// "running" | "det-exit" | "fail" | "exception" | "cut"
    pub how: &'static str,
    /// the goal exited at least once with choice points left
    pub nondet_exit: bool,
}

impl Interp {
    fn ignore_goal(g: &T) -> T {
        cmp(";", vec![cmp("->", vec![cmp("call", vec![g.clone()]), atom("true")]), atom("true")])
    }

    /// number of logged tokens that do not belong to a cleanup
    pub fn strict_count(&self) -> usize {
        self.log.iter().filter(|e| e.cleanup_of.is_none()).count()
    }

    /// innermost cleanup that is running at the current continuation
    fn running_cleanup(&self) -> Option<usize> {
        let mut c = self.cont.clone();
        while let Some(n) = c {
            match &n.f {
                Frame::SccDone(a) => return Some(*a),
                Frame::Collect(idx) | Frame::NotOk(idx) => {
                    c = self.choices[*idx].cont.clone();
                    continue;
                }
                _ => {}
            }
            c = n.next.clone();
        }
        None
    }

    fn tok(&mut self, args: &[T]) {
        let k = self.resolve(&args[0]).norm();
        let v = args.get(1).map(|v| self.resolve(v).norm().canon_vars());
        let cleanup_of = self.running_cleanup();
        self.log.push(LogEntry { k, v, cleanup_of });
    }

    fn scc_settle(&mut self) {
        if self.scc_pending.is_empty() {
            return;
        }
        let len = self.choices.len();
        let s = self.strict_count();
        let mut keep = vec![];
        for (a, h) in std::mem::take(&mut self.scc_pending) {
            if len < h {
                self.scc[a].upper = Some(s);
            } else {
                keep.push((a, h));
            }
        }
        self.scc_pending = keep;
    }

    /// remove the choice points above height `h`; the cleanups of the marks among them run first
    /// (innermost first), then `next`
    fn cut_to(&mut self, h: usize, next: Cont) -> Cont {
        let mut marks = vec![];
        while self.choices.len() > h {
            let ch = self.choices.pop().unwrap();
            if let Kind::Cleanup { act, goal } = ch.kind {
                marks.push((act, goal));
            }
        }
        if !marks.is_empty() && h > 0 && matches!(self.choices[h - 1].kind, Kind::Cleanup { .. }) {
            self.cut_directly_above_mark = true;
        }
        self.scc_settle();
        let s = self.strict_count();
        let mut cont = next;
        let n = marks.len();
        for (i, (act, goal)) in marks.into_iter().rev().enumerate() {
            self.scc[act].upper = Some(s);
            self.scc[act].how = "cut";
            let n2 = push(Frame::SccDone(act), &cont);
            // i == 0 is the outermost activation (it runs last)
            let g = if i > 0 && n >= 2 { cmp(";", vec![cmp("->", vec![cmp("call", vec![goal.clone()]), atom("true")]), atom("$scc_note_failed")]) } else { Self::ignore_goal(&goal) };
            cont = push(Frame::Goal(g, h), &n2);
        }
        cont
    }

    fn scc_start(&mut self, setup: &T, goal: &T, cleanup: &T, cutb: usize, next: Cont) -> R<Status> {
        let go = T::Cmp("$scc_go".into(), vec![goal.clone(), cleanup.clone()]);
        let n2 = push(Frame::Goal(go, cutb), &next);
        let once = cmp("->", vec![cmp("call", vec![setup.clone()]), atom("true")]);
        self.cont = push(Frame::Goal(once, cutb), &n2);
        Ok(Status::Continue)
    }

    fn scc_go(&mut self, goal: &T, cleanup: &T, next: Cont) -> R<Status> {
        let c = self.deref(cleanup);
        if let T::Var(_) = c {
            return Err(inst_err());
        }
        let act = self.scc.len();
        let s = self.strict_count();
        self.scc.push(SccAct { lower: s, upper: None, how: "running", nondet_exit: false });
        let h = self.choices.len();
        self.choices.push(Choice { trail_len: self.trail.len(), cont: next.clone(), kind: Kind::Cleanup { act, goal: c } });
        let n2 = push(Frame::SccExit(act, h), &next);
        self.cont = push(Frame::Goal(cmp("call", vec![goal.clone()]), h + 1), &n2);
        Ok(Status::Continue)
    }

    fn scc_exit(&mut self, act: usize, idx: usize, next: Cont) -> R<Status> {
        assert!(matches!(self.choices.get(idx).map(|c| &c.kind), Some(Kind::Cleanup { act: a, .. }) if *a == act), "refint: cleanup mark missing");
        let s = self.strict_count();
        self.scc[act].lower = s;
        if self.choices.len() == idx + 1 {
            let Some(Choice { kind: Kind::Cleanup { goal, .. }, .. }) = self.choices.pop() else { unreachable!() };
            self.scc[act].how = "det-exit";
            self.scc_pending.push((act, idx));
            let n2 = push(Frame::SccDone(act), &next);
            self.cont = push(Frame::Goal(Self::ignore_goal(&goal), idx), &n2);
        } else {
            self.scc[act].nondet_exit = true;
            self.cont = next;
        }
        Ok(Status::Continue)
    }
}

// ---------------------------------------------------------------------------------------------
#[cfg(test)]
mod tests {
    use super::*;
    use crate::shared::plparse::parse_term;

    fn run(prog: &str, q: &str, tmpl: &str) -> String {
        let p = Program::from_text(prog).unwrap();
        let qt = parse_term(&format!("'$q'(({q}),({tmpl}))")).unwrap();
        let T::Cmp(_, a) = qt else { unreachable!() };
        solve(&p, &a[0], &a[1], &Limits::default()).short()
    }
    fn t(prog: &str, q: &str, tmpl: &str, expect: &str) {
        assert_eq!(run(prog, q, tmpl), expect, "query: {q}");
    }

    #[test]
    fn refint_cut() {
        let p = "tw(!, c). tw(true, m). a(1). a(2). g((tw(_, _), !)). g(true).
                 m(X) :- a(X), !. m(3).
                 n(X) :- (a(X), ! ; X = 9). n(4).
                 o(X) :- (a(X) -> ! ; true). o(5).
                 q(X) :- \\+ \\+ !, a(X).";
        t(p, "!", "[]", "sols[[]]");
        t(p, "(!, fail ; true)", "[]", "sols[]");
        t(p, "(call(!), fail ; true)", "[]", "sols[[]]");
        t(p, "tw(X, R), call(X)", "R", "sols[c; m]");
        t(p, "tw(X, R), X", "R", "sols[c; m]");
        t(p, "g(X), call(X)", "[]", "sols[[]; []]");
        t(p, "m(X)", "X", "sols[1]");
        t(p, "n(X)", "X", "sols[1]");
        t(p, "o(X)", "X", "sols[1]");
        t(p, "q(X)", "X", "sols[1; 2]");
        // 7.8.3.4
        t(p, "Z = !, call((Z = !, a(X), Z))", "X", "sols[1]");
        t(p, "call((Z = !, a(X), Z))", "X", "sols[1; 2]");
        t(p, "a(X), (X = 1, ! ; true)", "X", "sols[1]");
    }

    #[test]
    fn refint_if_then_else() {
        let p = "";
        t(p, "(true -> true ; fail)", "[]", "sols[[]]");
        t(p, "(fail -> true ; true)", "[]", "sols[[]]");
        t(p, "(true -> fail ; fail)", "[]", "sols[]");
        t(p, "(fail -> true ; fail)", "[]", "sols[]");
        t(p, "(true -> X = 1 ; X = 2)", "X", "sols[1]");
        t(p, "(fail -> X = 1 ; X = 2)", "X", "sols[2]");
        t(p, "(true -> (X = 1 ; X = 2) ; true)", "X", "sols[1; 2]");
        t(p, "((X = 1 ; X = 2) -> true ; true)", "X", "sols[1]");
        t(p, "((!, X = 1, fail) -> true ; fail)", "X", "sols[]");
        t(p, "((!, fail) -> true ; X = e)", "X", "sols[e]");
        // if-then
        t(p, "(true -> true)", "[]", "sols[[]]");
        t(p, "(true -> fail)", "[]", "sols[]");
        t(p, "(fail -> true)", "[]", "sols[]");
        t(p, "((X = 1 ; X = 2) -> true)", "X", "sols[1]");
        t(p, "(true -> (X = 1 ; X = 2))", "X", "sols[1; 2]");
        // soft cut
        t(p, "((X = 1 ; X = 2) *-> Y = a ; Y = b)", "X-Y", "sols['-'(1,a); '-'(2,a)]");
        t(p, "(fail *-> Y = a ; Y = b)", "Y", "sols[b]");
        // a variable on the left of ; bound to an if-then is called, not an if-then-else
        t(p, "G = (fail -> true), (G ; X = 2)", "X", "sols[2]");
    }

    #[test]
    fn refint_negation() {
        let p = "";
        t(p, "\\+ true", "[]", "sols[]");
        t(p, "\\+ !", "[]", "sols[]");
        t(p, "\\+ (!, fail)", "[]", "sols[[]]");
        t(p, "(X = 1 ; X = 2), \\+ (!, fail)", "X", "sols[1; 2]");
        t(p, "\\+ 4 = 5", "[]", "sols[[]]");
        t(p, "\\+ 3", "[]", "ex(error(type_error(callable,3),'$ctx'))");
        t(p, "\\+ X", "[]", "ex(error(instantiation_error,'$ctx'))");
        t(p, "\\+ X = 1, X = 2", "X", "sols[]");
        t(p, "\\+ \\+ X = 1", "X", "sols[V0]");
    }

    #[test]
    fn refint_catch_throw() {
        let p = "foo(X) :- Y is X * 2, throw(test(Y)).
                 bar(X) :- X = Y, throw(Y).
                 coo(X) :- throw(X).
                 car(X) :- X = 1, throw(X).
                 g :- catch(p, B, true), coo(c).
                 p. p :- throw(b).
                 a(1). a(2).";
        t(p, "catch(foo(5), test(Y), true)", "Y", "sols[10]");
        t(p, "catch(bar(3), Z, true)", "Z", "sols[3]");
        t(p, "catch(true, _, 3)", "[]", "sols[[]]");
        t(p, "catch(true, C, true), throw(bla)", "C", "ex(bla)");
        t(p, "catch(car(X), Y, true)", "X-Y", "sols['-'(V0,1)]");
        t(p, "catch(g, C, true)", "C", "sols[c]");
        t(p, "catch(coo(X), Y, true)", "Y", "sols[error(instantiation_error,'$ctx')]");
        // transparency to backtracking, re-activation of the catcher
        t(p, "catch(a(X), _, true)", "X", "sols[1; 2]");
        t(p, "catch((a(X), X >= 2, throw(got(X))), got(Y), true)", "X-Y", "sols['-'(V0,2)]");
        t(p, "catch(a(X), _, true), X >= 2, catch(throw(x), x, true)", "X", "sols[2]");
        // a ball that the inner catcher does not unify with goes outward
        t(p, "catch(catch(throw(a), b, X = inner), a, X = outer)", "X", "sols[outer]");
        // the catcher is not active for the recovery goal nor after exit
        t(p, "catch(catch(throw(a), a, throw(b)), B, true)", "B", "sols[b]");
        t(p, "catch((catch(true, _, true), throw(z)), E, true)", "E", "sols[z]");
        t(p, "catch(throw(f(X, Y, X)), f(A, B, C), true)", "f(A,B,C)", "sols[f(V0,V1,V0)]");
        // bindings made before the throw are undone
        t(p, "catch((X = 1, throw(t)), t, true)", "X", "sols[V0]");
        // a ball thrown inside findall/3 or \\+/1 reaches the catcher outside
        t(p, "catch(findall(X, throw(a), L), a, L = caught)", "L", "sols[caught]");
        t(p, "catch(\\+ throw(a), a, true)", "[]", "sols[[]]");
        t(p, "catch(findall(X, (a(X), \\+ (X >= 2, throw(b(X)))), L), b(Y), true)", "Y", "sols[2]");
        t(p, "catch(findall(X, catch(throw(a), b, true), L), a, L = outer)", "L", "sols[outer]");
        t(p, "catch(undefined_pred_zz, error(E, _), true)", "E", "sols[existence_error(procedure,'/'(undefined_pred_zz,0))]");
        t(p, "catch(X is foo + 1, error(E, _), true)", "E", "sols[type_error(evaluable,'/'(foo,0))]");
        t(p, "X is 1 // 0", "X", "ex(error(evaluation_error(zero_divisor),'$ctx'))");
    }

    #[test]
    fn refint_call_n() {
        let p = "a(1). a(2). pl(X, Y, Z) :- Z is X + Y.";
        t(p, "call(integer, 3)", "[]", "sols[[]]");
        t(p, "call(functor(F, c), 0)", "F", "sols[c]");
        t(p, "call(;, X = 1, Y = 2)", "X-Y", "sols['-'(1,V0); '-'(V0,2)]");
        t(p, "call(;, (true -> fail), X = 1)", "X", "sols[]");
        t(p, "call((fail, 1))", "[]", "ex(error(type_error(callable,','(fail,1)),'$ctx'))");
        t(p, "call((true, X))", "[]", "ex(error(instantiation_error,'$ctx'))");
        t(p, "call((1 ; true))", "[]", "ex(error(type_error(callable,';'(1,true)),'$ctx'))");
        t(p, "call(fail)", "[]", "sols[]");
        t(p, "call((fail, X))", "[]", "sols[]");
        t(p, "call((fail, call(1)))", "[]", "sols[]");
        t(p, "call(pl(1), 2, Z)", "Z", "sols[3]");
        t(p, "call(pl, 1, 2, Z)", "Z", "sols[3]");
        t(p, "G = pl(1, 2), call(G, Z)", "Z", "sols[3]");
        t(p, "call(a, X), call(!)", "X", "sols[1; 2]");
        t(p, "call(1, X)", "[]", "ex(error(type_error(callable,1),'$ctx'))");
        t(p, "call(_, X)", "[]", "ex(error(instantiation_error,'$ctx'))");
        t(p, "call((a, b), X)", "[]", "ex(error(existence_error(procedure,'/'(',',3)),'$ctx'))");
    }

    #[test]
    fn refint_findall() {
        let p = "";
        t(p, "findall(X, (X = 1 ; X = 2), S)", "S", "sols[[1,2]]");
        t(p, "findall(X + Y, (X = 1), S)", "S", "sols[['+'(1,V0)]]");
        t(p, "findall(X, fail, L)", "L", "sols[[]]");
        t(p, "findall(X, (X = 1 ; X = 1), S)", "S", "sols[[1,1]]");
        t(p, "findall(X, (X = 2 ; X = 1), [1, 2])", "[]", "sols[]");
        t(p, "findall(X, (X = 1 ; X = 2), [X, Y])", "X-Y", "sols['-'(1,2)]");
        t(p, "findall(X, Goal, S)", "S", "ex(error(instantiation_error,'$ctx'))");
        t(p, "findall(X, 4, S)", "S", "ex(error(type_error(callable,4),'$ctx'))");
        t(p, "findall(X, (X = 1 ; X = 2), foo)", "[]", "ex(error(type_error(list,foo),'$ctx'))");
        t(p, "findall(X-L, (findall(Y, (Y = a ; Y = X), L), (X = 1 ; X = 2)), S)", "S", "sols[['-'(1,[a,V0]),'-'(2,[a,V1])]]");
        t(p, "findall(X, ((X = 1 ; X = 2), !), S)", "S", "sols[[1]]");
    }

    #[test]
    fn refint_builtins() {
        let p = "";
        t(p, "X = f(Y), Y = 1", "X", "sols[f(1)]");
        t(p, "f(X, b) \\= f(a, Y)", "[]", "sols[]");
        t(p, "f(X) == f(X), f(X) \\== f(Y)", "[]", "sols[[]]");
        t(p, "compare(O, 1, a), compare(P, f(a), g), compare(Q, f(b), f(a, a))", "[O,P,Q]", "sols[['<','>','<']]");
        t(p, "a @< b, 1 @< a, f(a) @> zzz, X @=< X", "[]", "sols[[]]");
        t(p, "X @< Y", "[]", "unsupported(standard order of two distinct variables)");
        t(p, "functor(foo(a, b), N, A)", "N/A", "sols['/'(foo,2)]");
        t(p, "functor(T, foo, 2)", "T", "sols[foo(V0,V1)]");
        t(p, "functor(T, foo, -1)", "T", "ex(error(domain_error(not_less_than_zero,-1),'$ctx'))");
        t(p, "functor(T, foo(a), 1)", "T", "ex(error(type_error(atomic,foo(a)),'$ctx'))");
        t(p, "functor([a], N, A)", "N/A", "sols['/'('.',2)]");
        t(p, "arg(1, f(a, b), X), arg(2, f(a, b), Y)", "X-Y", "sols['-'(a,b)]");
        t(p, "arg(3, f(a, b), X)", "X", "sols[]");
        t(p, "arg(a, f(a, b), X)", "X", "ex(error(type_error(integer,a),'$ctx'))");
        t(p, "f(a, B) =.. L", "L", "sols[[f,a,V0]]");
        t(p, "X =.. [f, 1, 2]", "X", "sols[f(1,2)]");
        t(p, "X =.. [1]", "X", "sols[1]");
        t(p, "X =.. [f | Y]", "X", "ex(error(instantiation_error,'$ctx'))");
        t(p, "f(a) =.. [1, X]", "X", "ex(error(type_error(atom,1),'$ctx'))");
        t(p, "f(a) =.. [g(x)]", "[]", "ex(error(type_error(atomic,g(x)),'$ctx'))");
        t(p, "f(a) =.. [1 | T]", "T", "sols[]");
        t(p, "f(a) =.. [X | foo]", "X", "ex(error(type_error(list,[V0|foo]),'$ctx'))");
        t(p, "f(a) =.. [X, Y | Z]", "[X,Y,Z]", "sols[[f,a,[]]]");
        t(p, "a =.. []", "[]", "sols[]");
        t(p, "copy_term(f(X, Y, X), C)", "C", "sols[f(V0,V1,V0)]");
        t(p, "X is 7 // -2, Y is 7 mod -2, Z is -7 rem 2, W is -7 div 2", "[X,Y,Z,W]", "sols[[-3,-1,-1,-4]]");
        t(p, "X is 2 ^ 100 >> 98 + abs(-3) * sign(-2) - max(1, 2) /\\ 3", "X", "sols[3]");
        t(p, "X is Y + 1", "X", "ex(error(instantiation_error,'$ctx'))");
        t(p, "Y = 2 + 3, X is Y * 2", "X", "sols[10]");
        t(p, "1 + 1 =:= 2, 1 < 2, 2 >= 2, 1 =\\= 2", "[]", "sols[[]]");
        t(p, "X = f(X)", "X", "unsupported(cyclic term created by unification)");
        t(p, "is_list([a, b]), \\+ is_list([a | _]), callable(foo), \\+ callable(1), atomic(1), compound(f(x))", "[]", "sols[[]]");
    }

    #[test]
    fn refint_recursion_and_limits() {
        let p = "app([], L, L). app([H | T], L, [H | R]) :- app(T, L, R).
                 len([], 0). len([_ | T], N) :- len(T, M), N is M + 1.
                 loop :- loop.
                 nat(0). nat(N) :- nat(M), N is M + 1.";
        t(p, "app(X, Y, [1, 2])", "X-Y", "sols['-'([],[1,2]); '-'([1],[2]); '-'([1,2],[])]");
        t(p, "len([a, b, c], N)", "N", "sols[3]");
        t(p, "loop", "[]", "limit");
        t(p, "nat(N)", "N", "limit");
        t(p, "nat(N), N >= 3, !", "N", "sols[3]");
    }

    #[test]
    fn refint_logical_update_view() {
        let p = ":- dynamic(p/1). :- dynamic(insect/1). :- dynamic(q/0).
                 p(1). p(2). p(3). insect(ant). insect(bee). s(1).";
        // an activation sees the clauses of its birth: neither additions nor removals change it
        t(p, "p(X), assertz(p(4))", "X", "sols[1; 2; 3]");
        t(p, "findall(X, (p(X), assertz(p(4))), L1), findall(Y, p(Y), L2)", "L1-L2", "sols['-'([1,2,3],[1,2,3,4,4,4])]");
        t(p, "p(X), retract(p(2))", "X", "sols[1]");
        t(p, "findall(X, (p(X), (retract(p(2)) -> true ; true)), L)", "L", "sols[[1,2,3]]");
        t(p, "findall(X, (p(X), retractall(p(_))), L), findall(Y, p(Y), L2)", "L-L2", "sols['-'([1,2,3],[])]");
        t(p, "asserta(p(0)), findall(X, p(X), L)", "L", "sols[[0,1,2,3]]");
        // ISO 8.9.3.4: retract(insect(I)), write(I), retract(insect(bee)), fail  prints "antbee"
        t(p, "findall(I, (retract(insect(I)), (retract(insect(bee)) -> true ; true)), L), findall(J, insect(J), L2)", "L-L2", "sols['-'([ant,bee],[])]");
        t(p, "findall(X-B, clause(p(X), B), L)", "L", "sols[['-'(1,true),'-'(2,true),'-'(3,true)]]");
        t(p, "assertz((q :- X, call(X))), clause(q, B)", "B", "sols[','(call(V0),call(V0))]");
        t(p, "retract((p(X) :- true)), X >= 2", "X", "sols[2; 3]");
        t(p, "assertz(s(2))", "[]", "ex(error(permission_error(modify,static_procedure,'/'(s,1)),'$ctx'))");
        t(p, "assertz((foo :- 1))", "[]", "ex(error(type_error(callable,1),'$ctx'))");
        t(p, "assertz(_)", "[]", "ex(error(instantiation_error,'$ctx'))");
        t(p, "assertz((atom(_) :- true))", "[]", "ex(error(permission_error(modify,static_procedure,'/'(atom,1)),'$ctx'))");
        t(p, "clause(s(X), B)", "X", "ex(error(permission_error(access,private_procedure,'/'(s,1)),'$ctx'))");
        t(p, "abolish(p/1), catch(p(_), error(E, _), true)", "E", "sols[existence_error(procedure,'/'(p,1))]");
        t(p, "assertz(newp(1)), assertz(newp(2)), retract(newp(1)), findall(X, newp(X), L)", "L", "sols[[2]]");
        // database persists between queries of one Interp
        let prog = Program::from_text(p).unwrap();
        let mut it = Interp::new(&prog);
        let q = parse_term("assertz(p(9))").unwrap();
        assert_eq!(it.solve(&q, &nil(), &Limits::default()).short(), "sols[[]]");
        let q = parse_term("'$q'(findall(X, p(X), L), L)").unwrap();
        let T::Cmp(_, a) = q else { unreachable!() };
        assert_eq!(it.solve(&a[0], &a[1], &Limits::default()).short(), "sols[[1,2,3,9]]");
    }

    /// answers + token log ("k" or "k=v", cleanup tokens in brackets) + activation windows
    fn run_log(prog: &str, q: &str, tmpl: &str) -> String {
        let p = Program::from_text(prog).unwrap();
        let qt = parse_term(&format!("'$q'(({q}),({tmpl}))")).unwrap();
        let T::Cmp(_, a) = qt else { unreachable!() };
        let mut it = Interp::new(&p);
        let out = it.solve(&a[0], &a[1], &Limits::default()).short();
        let log: Vec<String> = it
            .log
            .iter()
            .map(|e| {
                let s = match &e.v {
                    Some(v) => format!("{}={}", e.k.text(), v.text()),
                    None => e.k.text(),
                };
                if e.cleanup_of.is_some() {
                    format!("[{s}]")
                } else {
                    s
                }
            })
            .collect();
        let acts: Vec<String> = it.scc.iter().map(|a| format!("{}:{}..{}", a.how, a.lower, a.upper.map(|u| u.to_string()).unwrap_or("end".into()))).collect();
        format!("{out} | {} | {}", log.join(" "), acts.join(" "))
    }

    #[test]
    fn refint_setup_call_cleanup() {
        let p = "n(1). n(2). n(3).";
        let bad = std::cell::RefCell::new(vec![]);
        let t = |q: &str, tmpl: &str, expect: &str| {
            let got = run_log(p, q, tmpl);
            if got != expect {
                bad.borrow_mut().push(format!("query: {q}\n   got:    {got}\n   expect: {expect}"));
            }
        };
        // deterministic exit: cleanup right after the goal, bindings of the goal visible
        t("setup_call_cleanup(vp_tok(1), X = a, vp_tok(2, X)), vp_tok(3)", "X", "sols[a] | 1 [2=a] 3 | det-exit:1..end");
        // failure of the goal: cleanup, bindings undone
        t("setup_call_cleanup(true, (X = a, fail), vp_tok(2, X))", "X", "sols[] | [2=V0] | fail:0..0");
        // setup is once/1, its failure means no activation at all
        t("setup_call_cleanup(n(X), vp_tok(1, X), vp_tok(2))", "X", "sols[1] | 1=1 [2] | det-exit:1..end");
        t("setup_call_cleanup(fail, vp_tok(1), vp_tok(2))", "[]", "sols[] |  | ");
        t("setup_call_cleanup(true, true, _)", "[]", "ex(error(instantiation_error,'$ctx')) |  | ");
        // nondeterministic goal, exhausted: the cleanup runs at the last (deterministic) exit
        t("setup_call_cleanup(true, n(X), vp_tok(9)), vp_tok(1, X)", "X", "sols[1; 2; 3] | 1=1 1=2 [9] 1=3 | det-exit:2..end");
        // ... cut after the first solution
        t("setup_call_cleanup(true, n(X), vp_tok(9)), vp_tok(1, X), !, vp_tok(2)", "X", "sols[1] | 1=1 [9] 2 | cut:0..1");
        t("(setup_call_cleanup(true, n(X), vp_tok(9)) -> vp_tok(2) ; true)", "X", "sols[1] | [9] 2 | cut:0..0");
        t("\\+ setup_call_cleanup(true, n(X), vp_tok(9))", "X", "sols[] | [9] | cut:0..0");
        // ... abandoned by an exception after a nondeterministic exit
        t("catch((setup_call_cleanup(true, n(X), vp_tok(9, X)), vp_tok(1), throw(b)), b, vp_tok(2))", "X", "sols[V0] | 1 [9=V0] 2 | exception:0..1");
        // exception inside the goal: cleanup, then the catcher outside
        t("catch(setup_call_cleanup(true, (vp_tok(1), throw(b)), vp_tok(9)), b, vp_tok(2))", "[]", "sols[[]] | 1 [9] 2 | exception:1..1");
        // an inner catch between the goal and the throw takes the ball first: no cleanup yet
        t("setup_call_cleanup(true, n(X), vp_tok(9)), catch(throw(b), b, vp_tok(2)), X >= 3", "X", "sols[3] | 2 2 [9] 2 | det-exit:2..end");
        // ... the ball does not stop at a catch/3 that was already left when it was thrown
        t("catch(setup_call_cleanup(true, n(X), vp_tok(9)), _, vp_tok(2)), throw(z)", "[]", "ex(z) | [9] | exception:0..0");
        // failure and choice points of the cleanup are ignored, its exceptions too when an exception is pending
        t("setup_call_cleanup(true, true, (vp_tok(9), fail)), vp_tok(1)", "[]", "sols[[]] | [9] 1 | det-exit:0..end");
        t("setup_call_cleanup(true, true, (n(X), vp_tok(9, X))), vp_tok(1)", "X", "sols[1] | [9=1] 1 | det-exit:0..end");
        t("catch(setup_call_cleanup(true, throw(a), (vp_tok(9), throw(c))), E, true)", "E", "sols[a] | [9] | exception:0..0");
        // nested: innermost cleanup first, on cut and on exception
        t("setup_call_cleanup(true, setup_call_cleanup(true, n(X), vp_tok(8)), vp_tok(9)), !", "X", "sols[1] | [8] [9] | cut:0..0 cut:0..0");
        t("catch((setup_call_cleanup(true, setup_call_cleanup(true, n(X), vp_tok(8)), vp_tok(9)), throw(z)), _, true)", "[]", "sols[[]] | [8] [9] | exception:0..0 exception:0..0");
        // call_cleanup/2; a cut inside the goal is local
        t("call_cleanup((n(X), !), vp_tok(9)), vp_tok(1, X)", "X", "sols[1] | [9] 1=1 | det-exit:0..end");
        // the window of a deterministic exit closes when the choice stack drops below the mark
        t("(n(X), setup_call_cleanup(true, true, vp_tok(9)), vp_tok(1, X), fail ; vp_tok(2))", "[]", "sols[[]] | [9] 1=1 [9] 1=2 [9] 1=3 2 | det-exit:0..1 det-exit:1..2 det-exit:2..3");
        // the log survives exceptions and backtracking
        t("catch((vp_tok(1), (vp_tok(2), fail ; vp_tok(3)), throw(x)), _, vp_tok(4))", "[]", "sols[[]] | 1 2 3 4 | ");
        assert!(bad.borrow().is_empty(), "{}", bad.borrow().join("\n"));
    }

    #[test]
    fn refint_all_solutions() {
        let p = "f(1, a, x). f(2, b, y). f(3, a, y). f(1, a, z). n(1). n(2). n(3). e(1). e(2). e(3) :- throw(oops).";
        t(p, "bagof(X, f(X, Y, Z), L)", "Y-Z-L", "sols['-'('-'(a,x),[1]); '-'('-'(a,y),[3]); '-'('-'(a,z),[1]); '-'('-'(b,y),[2])]");
        t(p, "bagof(X, Z^f(X, Y, Z), L)", "Y-L", "sols['-'(a,[1,3,1]); '-'(b,[2])]");
        t(p, "bagof(X, Y^Z^f(X, Y, Z), L)", "L", "sols[[1,2,3,1]]");
        t(p, "bagof(X, (Y, Z)^f(X, Y, Z), L)", "L", "sols[[1,2,3,1]]");
        t(p, "setof(X, Z^f(X, Y, Z), L)", "Y-L", "sols['-'(a,[1,3]); '-'(b,[2])]");
        t(p, "setof(Y-X, Z^f(X, Y, Z), L)", "L", "sols[['-'(a,1),'-'(a,3),'-'(b,2)]]");
        t(p, "bagof(X, f(X, c, Z), L)", "L", "sols[]");
        t(p, "bagof(X-Z, f(X, Y, Z), L)", "Y-L", "sols['-'(a,['-'(1,x),'-'(3,y),'-'(1,z)]); '-'(b,['-'(2,y)])]");
        t(p, "bagof(X, f(X, Y, Z), foo)", "[]", "ex(error(type_error(list,foo),'$ctx'))");
        t(p, "bagof(X, G, L)", "[]", "ex(error(instantiation_error,'$ctx'))");
        t(p, "bagof(X, n(X), [A|B])", "A-B", "sols['-'(1,[2,3])]");
        // the free variable is bound by the chosen group, template variables are not
        t(p, "bagof(X, f(X, Y, Z), L), Y == b", "X-Z", "sols['-'(V0,y)]");
        // variant witnesses form one group
        t(p, "bagof(X, (X = 1, Y = g(Z) ; X = 2, Y = g(Z)), L)", "L", "sols[[1,2]]");
        t(p, "findall(X, n(X), L, T)", "L-T", "sols['-'([1,2,3|V0],V0)]");
        t(p, "findall(X, n(X), L, [a])", "L", "sols[[1,2,3,a]]");
        t(p, "findall(X, n(X), [A|B], [z])", "A-B", "sols['-'(1,[2,3,z])]");
        t(p, "findall(X, n(X), L, foo)", "L", "ex(error(type_error(list,foo),'$ctx'))");
        t(p, "findall(X, fail, L, T)", "L-T", "sols['-'(V0,V0)]");
        t(p, "countall(n(_), N)", "N", "sols[3]");
        t(p, "countall(fail, N)", "N", "sols[0]");
        t(p, "countall(n(_), 3)", "[]", "sols[[]]");
        t(p, "countall(n(_), -1)", "[]", "ex(error(domain_error(not_less_than_zero,-1),'$ctx'))");
        t(p, "countall(n(_), a)", "[]", "ex(error(type_error(integer,a),'$ctx'))");
        t(p, "countall(e(_), N)", "N", "ex(oops)");
        t(p, "call_nth(n(X), N)", "X-N", "sols['-'(1,1); '-'(2,2); '-'(3,3)]");
        t(p, "call_nth(n(X), 2)", "X", "sols[2]");
        t(p, "call_nth(n(X), 4)", "X", "sols[]");
        t(p, "call_nth(n(X), 0)", "X", "sols[]");
        t(p, "call_nth(n(X), -1)", "X", "ex(error(domain_error(not_less_than_zero,-1),'$ctx'))");
        t(p, "call_nth(e(X), 2)", "X", "sols[2]");
        t(p, "call_nth(e(X), N)", "X-N", "ex(oops)");
        t(p, "call_nth(n(X), 2), n(Y)", "X-Y", "sols['-'(2,1); '-'(2,2); '-'(2,3)]");
        t(p, "forall(n(X), X >= 1)", "[]", "sols[[]]");
        t(p, "forall(n(X), X >= 2)", "[]", "sols[]");
        // nesting
        t(p, "findall(Y-L, bagof(X, Z^f(X, Y, Z), L), LL)", "LL", "sols[['-'(a,[1,3,1]),'-'(b,[2])]]");
        t(p, "setof(N-Ys, setof(Y, X^Z^f(X, Y, Z), Ys), S), N = 1", "S", "sols[['-'(V0,[a,b])]]");
        t(p, "catch(findall(X, e(X), L), B, true)", "L-B", "sols['-'(V0,oops)]");
    }

    #[test]
    fn refint_ball_matches() {
        let r = parse_term("error(type_error(callable, f(X, Y)), '$ctx')").unwrap();
        let o = parse_term("error(type_error(callable, f(A, B)), foo/2)").unwrap();
        assert!(ball_matches(&r, &o));
        let o2 = parse_term("error(type_error(callable, f(A, A)), foo/2)").unwrap();
        assert!(!ball_matches(&r, &o2));
        assert!(ball_matches(&parse_term("my(X)").unwrap(), &parse_term("my(Z)").unwrap()));
        assert!(!ball_matches(&parse_term("my(a)").unwrap(), &parse_term("my(b)").unwrap()));
    }
}
