//! Step-wise execution of one query: every solution is handed to a callback together with a
//! read-only view of the machine (footprint / heap-prefix hash) *while the query is still
//! alive*, i.e. before the machine resets its heap at the end of the query.
#![allow(dead_code)]

use scryer_prolog::{LeafAnswer, Machine, Term};
use std::panic::{catch_unwind, AssertUnwindSafe};

pub enum Step {
    /// bindings of the query variables
    Answer(std::collections::BTreeMap<String, Term>),
    True,
    Exception(Term),
}

/// Runs `q` and calls `f(step_index, step, machine)` for every solution until the query is
/// exhausted or `f` returns false. In the latter case the query is abandoned at once (the
/// remaining solutions are NOT computed) and choice points stay behind: the caller must then
/// throw the machine away.
/// Returns Err(panic message) when the machine panicked.
///
/// The callback reads machine counters through a shared reference obtained from a raw pointer
/// while the `QueryState` (which holds the unique borrow) is suspended between two `next()`
/// calls; nothing runs on the machine at that time and the accessors used
/// (`verif_footprint`, `verif_heap_prefix_hash`) only read.
pub fn run_steps(m: &mut Machine, q: &str, max_steps: usize, f: &mut dyn FnMut(usize, Step, &Machine) -> bool) -> Result<usize, String> {
    let p: *const Machine = m;
    let r = catch_unwind(AssertUnwindSafe(|| {
        let mut it = m.run_query(q);
        let mut i = 0usize;
        let mut live = true;
        loop {
            let Some(a) = it.next() else { break };
            let step = match a {
                Ok(LeafAnswer::False) => break,
                Ok(LeafAnswer::True) => Step::True,
                Ok(LeafAnswer::Exception(t)) => Step::Exception(t),
                Ok(LeafAnswer::LeafAnswer { bindings, .. }) => Step::Answer(bindings),
                Err(t) => Step::Exception(t),
            };
            if live {
                // SAFETY: see the function comment
                let view: &Machine = unsafe { &*p };
                live = f(i, step, view);
            }
            i += 1;
            if !live {
                break;
            }
            if i >= max_steps {
                // keep draining would be unbounded: give up (the caller treats it as an error)
                break;
            }
        }
        drop(it);
        i
    }));
    match r {
        Ok(n) => Ok(n),
        Err(_) => Err(crate::session::take_last_panic()),
    }
}
