//! C18 level 2: the public channel stream (`InputStreamConfig::channel()`), no hook involved.
//!
//! The bytes of a case are written to the `UserInput` handle chunk by chunk. `InputChannelStream`
//! drains every pending message in one `read`, and an *empty* channel looks like end of data to
//! `CharReader`, so the partition is imposed lazily: the next chunk is only sent when the item the
//! script wants next is not yet determined by the bytes delivered so far (nothing left, or the
//! delivered bytes end inside a multi-byte sequence). The stream is therefore never asked for
//! anything the delivered prefix does not determine, and what it answers must be the reference
//! decoding of the bytes, whatever the partition. After the last chunk the sender is dropped
//! (real end of input).
//!
//! kind "l2c": character level (get_char/peek_char/get_code/peek_code).
//! kind "l2t": read_term/3 over clause texts; a clause is requested once its end token and the
//!             layout character after it have been delivered.
use crate::engine::*;
use crate::gen::pick;
use crate::props::c18::{INVALID, VALID};
use crate::session::{Outcome, Session};
use crate::shared::utf8ref::{item_at, item_in_prefix, items, Item};
use crate::term::{self, T};
use dashu::integer::IBig;
use proptest::prelude::*;
use scryer_prolog::{InputStreamConfig, MachineBuilder, StreamConfig, UserInput};
use serde::{Deserialize, Serialize};
use serde_json::Value;
use std::io::Write;

#[derive(Clone, Debug, Serialize, Deserialize, PartialEq)]
pub enum COp {
    GetChar,
    PeekChar,
    GetCode,
    PeekCode,
}

impl COp {
    fn goal(&self) -> &'static str {
        match self {
            COp::GetChar => "get_char(user_input, C)",
            COp::PeekChar => "peek_char(user_input, C)",
            COp::GetCode => "get_code(user_input, C)",
            COp::PeekCode => "peek_code(user_input, C)",
        }
    }
    fn name(&self) -> &'static str {
        match self {
            COp::GetChar => "get_char",
            COp::PeekChar => "peek_char",
            COp::GetCode => "get_code",
            COp::PeekCode => "peek_code",
        }
    }
    fn is_peek(&self) -> bool {
        matches!(self, COp::PeekChar | COp::PeekCode)
    }
    fn is_code(&self) -> bool {
        matches!(self, COp::GetCode | COp::PeekCode)
    }
}

#[derive(Clone, Debug, Serialize, Deserialize)]
pub struct CharCase {
    pub bytes: Vec<u8>,
    /// chunk boundaries (byte offsets; values outside 1..len-1 are ignored)
    pub cuts: Vec<u16>,
    /// operations, cycled until the end of input (empty = get_char only)
    pub ops: Vec<COp>,
}

#[derive(Clone, Debug, Serialize, Deserialize)]
pub struct TermCase {
    pub clauses: Vec<T>,
    /// per clause: 0 = ".\n", 1 = " .\n", 2 = ". ", 3 = ".\t% c\u{e9}\n" (the last clause always ends ".\n")
    pub ends: Vec<u8>,
    /// per clause, a comment in front of it: 0 none, 1 = line comment, 2 = block comment (multi-byte text)
    pub comments: Vec<u8>,
    pub cuts: Vec<u16>,
}

struct Feed {
    tx: Option<UserInput>,
    bytes: Vec<u8>,
    cuts: Vec<usize>,
    next_cut: usize,
    sent: usize,
    /// a chunk boundary fell strictly inside a multi-byte item
    pub split_multibyte: bool,
}

impl Feed {
    fn new(tx: UserInput, bytes: Vec<u8>, cuts: &[u16]) -> Feed {
        let n = bytes.len();
        let mut c: Vec<usize> = cuts.iter().map(|x| *x as usize).filter(|x| *x >= 1 && *x < n).collect();
        c.sort();
        c.dedup();
        Feed { tx: Some(tx), bytes, cuts: c, next_cut: 0, sent: 0, split_multibyte: false }
    }
    fn closed(&self) -> bool {
        self.tx.is_none()
    }
    /// deliver the next chunk, or close the channel when everything was delivered
    fn advance(&mut self) {
        if self.sent >= self.bytes.len() {
            self.tx = None;
            return;
        }
        let end = if self.next_cut < self.cuts.len() { self.cuts[self.next_cut] } else { self.bytes.len() };
        self.next_cut += 1;
        if let Some(tx) = self.tx.as_mut() {
            tx.write_all(&self.bytes[self.sent..end]).expect("channel write");
        }
        self.sent = end;
        if end < self.bytes.len() {
            for (s, it) in items(&self.bytes) {
                if s < end && end < s + it.len() {
                    self.split_multibyte = true;
                }
            }
        }
    }
}

fn session_with_channel() -> (Session, UserInput) {
    let (tx, cfg) = InputStreamConfig::channel();
    let streams = StreamConfig::in_memory().with_user_input(cfg);
    let machine = MachineBuilder::default().with_streams(streams).build();
    (Session::with_machine(machine, &[]), tx)
}

fn hex(b: &[u8]) -> String {
    b.iter().map(|x| format!("{x:02X}")).collect::<Vec<_>>().join(" ")
}

fn panic_fail(m: &str, what: String) -> Verdict {
    Verdict::fail(format!("panic:{}", m.split_whitespace().next().unwrap_or("?")), format!("{what}: {m}"))
}

// ---------------------------------------------------------------------------------------------
// character level

pub fn check_chars(_e: &mut (), c: &CharCase) -> Verdict {
    if c.bytes.len() > 60_000 {
        return Verdict::Discard("too-long".into());
    }
    let (mut s, tx) = session_with_channel();
    let mut feed = Feed::new(tx, c.bytes.clone(), &c.cuts);
    let ops: Vec<COp> = if c.ops.is_empty() { vec![COp::GetChar] } else { c.ops.clone() };
    let n = c.bytes.len();
    let mut pos = 0usize;
    let mut k = 0usize;
    let mut classes: Vec<String> = vec![];
    let mut saw_invalid = false;
    let ctx = |feed: &Feed, pos: usize| format!("bytes [{}] cuts {:?}, {} delivered{}, position {}", hex(&feed.bytes), feed.cuts, feed.sent, if feed.closed() { " and closed" } else { "" }, pos);
    let mut guard = 0;
    let mut peeks_here = 0;
    loop {
        guard += 1;
        assert!(guard < 4 * n + 64, "c18_l2: no progress");
        let item = if feed.closed() {
            item_at(&c.bytes, pos)
        } else {
            match item_in_prefix(&c.bytes[..feed.sent], pos) {
                Some(Item::End) | None => {
                    feed.advance();
                    continue;
                }
                Some(i) => i,
            }
        };
        let mut op = ops[k % ops.len()].clone();
        k += 1;
        // at most two peeks in a row at one position, then a consuming read (progress)
        if op.is_peek() {
            peeks_here += 1;
            if peeks_here > 2 {
                op = COp::GetChar;
            }
        }
        if !op.is_peek() {
            peeks_here = 0;
        }
        let o = s.ask_once(op.goal(), "C");
        if let Outcome::Panic(m) = &o {
            return panic_fail(m, format!("{} panicked; {}", op.name(), ctx(&feed, pos)));
        }
        if let Outcome::Harness(m) = &o {
            return Verdict::Discard(format!("harness:{}", m.chars().take(40).collect::<String>()));
        }
        match &item {
            Item::Char(ch) => {
                let exp = if op.is_code() { term::int(*ch as u32) } else { term::atom(&ch.to_string()) };
                let ok = matches!(&o, Outcome::Sols(v) if v.len() == 1 && v[0].eq_struct(&exp));
                if !ok && *ch == '\u{feff}' && pos > 0 {
                    return Verdict::fail(format!("l2-bom-inside-input:{}", op.name()), format!("{} gave {} but the next character is U+FEFF (not at the start of the input); {}", op.name(), o.short(), ctx(&feed, pos)));
                }
                if !ok {
                    let kind = match &o {
                        Outcome::Sols(v) if v.len() == 1 => "other-value",
                        Outcome::Sols(_) => "failed",
                        Outcome::Ex(_) => "exception",
                        _ => "other",
                    };
                    return Verdict::fail(format!("l2-mismatch:{}:char:got-{kind}", op.name()), format!("{} gave {} but the next character is {:?} (U+{:04X}); {}", op.name(), o.short(), ch, *ch as u32, ctx(&feed, pos)));
                }
                if !op.is_peek() {
                    pos += ch.len_utf8();
                }
            }
            Item::End => {
                // ISO wants -1 from get_code/peek_code; the channel stream answers the atom
                // end_of_file (its eof_action path is shared with get_char). That is not a
                // decoding matter, so both spellings of "end" are accepted here and labelled.
                let exp = if op.is_code() { term::int(-1) } else { term::atom("end_of_file") };
                let ok = matches!(&o, Outcome::Sols(v) if v.len() == 1 && (v[0].eq_struct(&exp) || v[0].eq_struct(&term::atom("end_of_file"))));
                if ok && op.is_code() && !matches!(&o, Outcome::Sols(v) if v[0].eq_struct(&exp)) {
                    classes.push(format!("note:{}-at-end-gives-atom-end_of_file", op.name()));
                }
                if !ok {
                    return Verdict::fail(format!("l2-mismatch:{}:end", op.name()), format!("{} gave {} at the end of a closed input; {}", op.name(), o.short(), ctx(&feed, pos)));
                }
                if op.is_peek() {
                    let o2 = s.ask_once("get_char(user_input, C)", "C");
                    if let Outcome::Panic(m) = &o2 {
                        return panic_fail(m, format!("get_char at end panicked; {}", ctx(&feed, pos)));
                    }
                    let ok = matches!(&o2, Outcome::Sols(v) if v.len() == 1 && v[0].eq_struct(&term::atom("end_of_file")));
                    if !ok {
                        return Verdict::fail("l2-mismatch:get_char:end-after-peek", format!("get_char gave {} at the end of a closed input; {}", o2.short(), ctx(&feed, pos)));
                    }
                }
                break;
            }
            Item::Bad(b) | Item::BadTail(b) => {
                // The statement wants the ill-formed sequence *reported as an error*; what is
                // certainly wrong is delivering a character for it. The exact outcome is recorded.
                saw_invalid = true;
                let tail = matches!(item, Item::BadTail(_));
                let kindname = if tail { "bad-trunc-end" } else { "bad" };
                let what = match &o {
                    Outcome::Sols(v) if v.len() == 1 && (v[0].eq_struct(&term::atom("end_of_file")) || v[0].eq_struct(&term::int(-1))) => {
                        return Verdict::fail(
                            format!("l2-mismatch:{}:{kindname}:got-eof", op.name()),
                            format!("{} answered {} (end of file) for the ill-formed sequence [{}] although the input goes on / no error is reported; {}", op.name(), o.short(), hex(b), ctx(&feed, pos)),
                        );
                    }
                    Outcome::Sols(v) if v.len() == 1 => {
                        return Verdict::fail(
                            format!("l2-mismatch:{}:{kindname}:got-char", op.name()),
                            format!("{} delivered {} for the ill-formed sequence [{}]; {}", op.name(), o.short(), hex(b), ctx(&feed, pos)),
                        );
                    }
                    Outcome::Sols(_) => {
                        return Verdict::fail(format!("l2-mismatch:{}:{kindname}:got-failure", op.name()), format!("{} failed at the ill-formed sequence [{}]; {}", op.name(), hex(b), ctx(&feed, pos)));
                    }
                    Outcome::Ex(_) => match o.formal() {
                        Some(f) => format!("error-{}", f.text().chars().take(28).collect::<String>()),
                        None => "throws-non-error".to_string(),
                    },
                    _ => "other".to_string(),
                };
                classes.push(format!("invalid-seen-as:{}:{what}", op.name()));
                break;
            }
        }
    }
    let mut cl: Vec<&str> = classes.iter().map(|s| s.as_str()).collect();
    cl.push("l2-chars");
    if feed.split_multibyte {
        cl.push("l2-chunk-splits-multibyte");
    }
    if feed.cuts.is_empty() {
        cl.push("l2-one-chunk");
    }
    Verdict::pass(feed.split_multibyte || saw_invalid, &cl)
}

// ---------------------------------------------------------------------------------------------
// read_term level

pub fn term_case_text(c: &TermCase) -> (Vec<u8>, Vec<usize>) {
    let mut text = String::new();
    let mut ends = vec![];
    let last = c.clauses.len().saturating_sub(1);
    for (i, t) in c.clauses.iter().enumerate() {
        match c.comments.get(i).copied().unwrap_or(0) % 3 {
            1 => text.push_str("% \u{3bb}\u{e9} \u{65e5}\u{672c}\n"),
            2 => text.push_str("/* \u{1d49c} \u{20ac}* */ "),
            _ => {}
        }
        text.push_str(&t.text());
        // trailing layout or a comment between the last end token and the end of input makes
        // read_term raise syntax_error(incomplete_reduction) instead of end_of_file on every
        // stream type (not a decoding matter; reported under C17), so the text ends in ".\n"
        let e = if i == last { 0 } else { c.ends.get(i).copied().unwrap_or(0) % 4 };
        match e {
            0 => text.push_str(".\n"),
            1 => text.push_str(" .\n"),
            2 => text.push_str(". "),
            _ => {
                // the end token needs only the layout char after the dot
                text.push_str(".\t");
                ends.push(text.len());
                text.push_str("% c\u{e9}\n");
                continue;
            }
        }
        ends.push(text.len());
    }
    (text.into_bytes(), ends)
}

/// does the text contain something the lexer handles with put_back_char (closing quotes,
/// "digits." at the end of a clause)?
fn needs_put_back(t: &T, top: bool) -> bool {
    match t {
        T::Atom(a) => !(term::is_plain_atom(a) || a == "[]"),
        T::Str(_) => true,
        T::Int(_) => top,
        T::Float(_) | T::Rat(..) => top,
        T::Var(_) => false,
        T::PList(items, tail) => items.iter().any(|x| needs_put_back(x, false)) || needs_put_back(tail, false),
        T::Cmp(n, args) => !term::is_plain_atom(n) || args.iter().any(|x| needs_put_back(x, false)),
    }
}

pub fn check_terms(_e: &mut (), c: &TermCase) -> Verdict {
    let (bytes, ends) = term_case_text(c);
    if bytes.len() > 60_000 {
        return Verdict::Discard("too-long".into());
    }
    let (mut s, tx) = session_with_channel();
    let mut feed = Feed::new(tx, bytes.clone(), &c.cuts);
    let ctx = |feed: &Feed, i: usize| format!("clause {i} of text {:?} cuts {:?}, {} bytes delivered{}", String::from_utf8_lossy(&feed.bytes), feed.cuts, feed.sent, if feed.closed() { " and closed" } else { "" });
    let mut put_back = false;
    for (i, t) in c.clauses.iter().enumerate() {
        while feed.sent < ends[i] && !feed.closed() {
            feed.advance();
        }
        let pb = needs_put_back(t, true);
        put_back |= pb;
        let o = s.ask_once("read_term(user_input, X, [])", "X");
        match &o {
            Outcome::Panic(m) => return panic_fail(m, format!("read_term panicked; {}", ctx(&feed, i))),
            Outcome::Harness(m) => return Verdict::Discard(format!("harness:{}", m.chars().take(40).collect::<String>())),
            Outcome::Sols(v) if v.len() == 1 && v[0].variant(&t.norm()) => {}
            other => {
                let kind = match other {
                    Outcome::Ex(_) => match other.formal() {
                        Some(f) => f.text().chars().take(40).collect::<String>(),
                        _ => "exception".to_string(),
                    },
                    Outcome::Sols(v) if v.is_empty() => "failed".to_string(),
                    _ => "other-term".to_string(),
                };
                // the signature says whether the clause involves the lexer's put_back_char
                // (for those the lexer's put_back_char matters and the kind of damage varies)
                let sig = if pb { "l2-mismatch:read_term:clause-needing-put-back".to_string() } else { format!("l2-mismatch:read_term:plain-clause:got-{kind}") };
                return Verdict::fail(
                    sig,
                    format!("read_term gave {} expected {}; {}", other.short(), t.text(), ctx(&feed, i)),
                );
            }
        }
    }
    while !feed.closed() {
        feed.advance();
    }
    let o = s.ask_once("read_term(user_input, X, [])", "X");
    match &o {
        Outcome::Panic(m) => return panic_fail(m, format!("read_term at end panicked; {}", ctx(&feed, c.clauses.len()))),
        Outcome::Sols(v) if v.len() == 1 && v[0].eq_struct(&term::atom("end_of_file")) => {}
        other => return Verdict::fail("l2-mismatch:read_term:end", format!("read_term gave {} at the end of a closed input; {}", other.short(), ctx(&feed, c.clauses.len()))),
    }
    let mut cl = vec!["l2-terms"];
    if feed.split_multibyte {
        cl.push("l2-chunk-splits-multibyte");
    }
    if put_back {
        cl.push("l2-terms-needing-put-back");
    }
    Verdict::pass(feed.split_multibyte, &cl)
}

// ---------------------------------------------------------------------------------------------
// generators

fn l2_bytes() -> BoxedStrategy<Vec<u8>> {
    // mostly well-formed text (so that many chunk boundaries are crossed before the first error)
    let good = any::<u16>().prop_map(|k| pick(VALID, k).to_vec());
    let piece = prop_oneof![40 => good, 1 => any::<u16>().prop_map(|k| pick(INVALID, k).to_vec())];
    (proptest::collection::vec(piece, 0..=70), 0u8..100, 0u8..100)
        .prop_map(|(ps, tail, bom)| {
            // U+FEFF inside the input only in a few cases (get_char drops it, see known findings)
            let ps: Vec<Vec<u8>> = if bom < 6 { ps } else { ps.into_iter().filter(|p| p != b"\xEF\xBB\xBF").collect() };
            let mut v: Vec<u8> = ps.concat();
            if v.starts_with(b"\xEF\xBB\xBF") {
                v.insert(0, b'a');
            }
            if tail >= 6 {
                while matches!(items(&v).last(), Some((_, Item::BadTail(_)))) {
                    v.push(b'z');
                }
            }
            v
        })
        .boxed()
}

fn cop() -> BoxedStrategy<COp> {
    prop_oneof![4 => Just(COp::GetChar), 2 => Just(COp::PeekChar), 2 => Just(COp::GetCode), 1 => Just(COp::PeekCode)].boxed()
}

pub fn char_strategy() -> BoxedStrategy<CharCase> {
    (l2_bytes(), proptest::collection::vec(0u16..260, 0..=16), proptest::collection::vec(cop(), 0..=5))
        .prop_map(|(bytes, cuts, ops)| {
            let n = bytes.len().max(1) as u32;
            // spread the cuts over the actual length
            let cuts = cuts.into_iter().map(|c| ((c as u32 * n) / 260) as u16).collect();
            CharCase { bytes, cuts, ops }
        })
        .boxed()
}

const WORDS: &[&str] = &["a", "foo", "\u{e9}t\u{e9}", "\u{3bb}x", "\u{65e5}\u{672c}\u{8a9e}", "\u{1d49c}b", "hello world", "X", "", "don't", "\u{df}", "z\u{7ff}", "\u{800}\u{ffff}"];
const PLAIN: &[&str] = &["a", "foo", "bar_1", "x", "zz9"];

fn l2_term(risky: bool) -> BoxedStrategy<T> {
    let words: &'static [&'static str] = if risky { WORDS } else { PLAIN };
    let mut leaves: Vec<(u32, BoxedStrategy<T>)> = vec![
        (4, any::<u16>().prop_map(move |k| T::Atom(pick(words, k).to_string())).boxed()),
        (2, (0i64..=1000).prop_map(|i| T::Int(IBig::from(i))).boxed()),
        (1, Just(T::Int(IBig::from(1u64) << 70)).boxed()),
        (2, (1i32..=40).prop_map(|i| T::Float(i as f64 / 8.0)).boxed()),
        (2, (0u32..3).prop_map(T::Var).boxed()),
    ];
    if risky {
        leaves.push((3, any::<u16>().prop_map(|k| T::Str(pick(WORDS, k).to_string())).prop_filter("non-empty string", |t| !matches!(t, T::Str(s) if s.is_empty())).boxed()));
    }
    let leaf = proptest::strategy::Union::new_weighted(leaves).boxed();
    let t = leaf.prop_recursive(3, 12, 3, move |inner| {
        prop_oneof![
            3 => (any::<u16>(), proptest::collection::vec(inner.clone(), 1..=3)).prop_map(move |(k, a)| T::Cmp(pick(words, k).to_string(), a)),
            1 => proptest::collection::vec(inner, 1..=3).prop_map(term::list),
        ]
    });
    if risky {
        t.boxed()
    } else {
        // a clause that is a bare number or variable is left to the risky mode
        t.prop_map(|t| match t {
            T::Int(_) | T::Float(_) | T::Var(_) => T::Cmp("w".into(), vec![t]),
            t => t,
        })
        .boxed()
    }
}

pub fn term_strategy() -> BoxedStrategy<TermCase> {
    (0u8..100)
        .prop_flat_map(|r| (proptest::collection::vec((l2_term(r < 10), 0u8..4, 0u8..3), 1..=8), proptest::collection::vec(0u16..260, 0..=12)))
        .prop_map(|(cl, cuts)| {
            let clauses: Vec<T> = cl.iter().map(|(t, _, _)| t.clone()).collect();
            let ends: Vec<u8> = cl.iter().map(|(_, e, _)| *e).collect();
            let comments: Vec<u8> = cl.iter().map(|(_, _, c)| *c).collect();
            let mut c = TermCase { clauses, ends, comments, cuts: vec![] };
            let n = term_case_text(&c).0.len().max(1) as u32;
            c.cuts = cuts.into_iter().map(|x| ((x as u32 * n) / 260) as u16).collect();
            c
        })
        .boxed()
}

// ---------------------------------------------------------------------------------------------

pub fn run(d: &mut Driver, cfg: &ShardCfg) {
    let n_chars = cfg.share(cfg.tier.pick(450, 30_000));
    let n_terms = cfg.share(cfg.tier.pick(300, 20_000));
    d.run("l2c", 10, n_chars, 1, char_strategy(), &|| (), &check_chars);
    d.run("l2t", 11, n_terms, 1, term_strategy(), &|| (), &check_terms);
}

pub fn replay(kind: &str, case: &Value) -> Verdict {
    match kind {
        "l2c" => replay_case::<CharCase, ()>(case, &|| (), &check_chars),
        "l2t" => replay_case::<TermCase, ()>(case, &|| (), &check_terms),
        _ => Verdict::Discard(format!("unknown kind {kind}")),
    }
}
