//! The harness's own tokenizer for Prolog text (ISO 6.4 / 6.5 plus the documented scryer
//! extensions: digit groups `1_000`, non-ASCII letters), a reader for canonical
//! (operator-free) term text and an operator-precedence reader. Independent of every line
//! of /repo/src/parser.
use crate::term::T;
use dashu::integer::IBig;

#[derive(Clone, Debug, PartialEq)]
pub enum Tok {
    /// name token; `quoted` = written in single quotes
    Name { text: String, quoted: bool },
    Var(String),
    Int(IBig),
    Float(f64),
    /// double quoted list
    Str(String),
    BackStr(String),
    /// one of ( ) [ ] { } , |
    Punct(char),
    End,
}

#[derive(Clone, Debug, PartialEq)]
pub struct Token {
    pub tok: Tok,
    /// layout text (or the beginning of the text) precedes the token
    pub layout_before: bool,
}

#[derive(Clone, Debug, PartialEq)]
pub enum LexError {
    Eof,
    BadChar(char),
    BadEscape,
    UnterminatedQuoted,
    UnterminatedComment,
    BadNumber,
    NewlineInQuoted,
}

pub fn is_graphic(c: char) -> bool {
    matches!(c, '#' | '$' | '&' | '*' | '+' | '-' | '.' | '/' | ':' | '<' | '=' | '>' | '?' | '@' | '^' | '~' | '\\')
}
pub fn is_solo(c: char) -> bool {
    matches!(c, '!' | '(' | ')' | ',' | ';' | '[' | ']' | '{' | '}' | '|' | '%')
}
pub fn is_layout(c: char) -> bool {
    matches!(c, ' ' | '\t' | '\n' | '\r' | '\u{0b}' | '\u{0c}')
}
pub fn is_meta(c: char) -> bool {
    matches!(c, '\\' | '\'' | '"' | '`')
}
/// letters beyond ASCII: anything that is not layout/control and not ASCII
fn is_ext_alnum(c: char) -> bool {
    !c.is_ascii() && !c.is_whitespace() && !c.is_control()
}
pub fn is_small(c: char) -> bool {
    c.is_ascii_lowercase() || (!c.is_ascii() && c.is_alphabetic() && !c.is_uppercase())
}
pub fn is_capital(c: char) -> bool {
    c.is_ascii_uppercase() || (!c.is_ascii() && c.is_uppercase())
}
pub fn is_alnum(c: char) -> bool {
    c.is_ascii_alphanumeric() || c == '_' || is_ext_alnum(c)
}

pub struct Lexer {
    cs: Vec<char>,
    pub pos: usize,
    /// start (char index) of the token returned last
    pub last_start: usize,
}

impl Lexer {
    pub fn new(text: &str) -> Lexer {
        Lexer { cs: text.chars().collect(), pos: 0, last_start: 0 }
    }
    fn peek(&self) -> Option<char> {
        self.cs.get(self.pos).copied()
    }
    fn peek_at(&self, k: usize) -> Option<char> {
        self.cs.get(self.pos + k).copied()
    }

    /// skip layout and comments; Ok(true) if anything was skipped
    fn skip_layout(&mut self) -> Result<bool, LexError> {
        let start = self.pos;
        loop {
            match self.peek() {
                Some(c) if is_layout(c) => self.pos += 1,
                Some('%') => {
                    while let Some(c) = self.peek() {
                        self.pos += 1;
                        if c == '\n' {
                            break;
                        }
                    }
                }
                Some('/') if self.peek_at(1) == Some('*') => {
                    self.pos += 2;
                    loop {
                        match self.peek() {
                            None => return Err(LexError::UnterminatedComment),
                            Some('*') if self.peek_at(1) == Some('/') => {
                                self.pos += 2;
                                break;
                            }
                            _ => self.pos += 1,
                        }
                    }
                }
                _ => break,
            }
        }
        Ok(self.pos > start)
    }

    /// one character of a quoted item after the opening quote `q`; None = closing quote reached
    /// (consumed). Continuation lines yield Some(None).
    fn quoted_char(&mut self, q: char) -> Result<Option<Option<char>>, LexError> {
        let c = self.peek().ok_or(LexError::UnterminatedQuoted)?;
        if c == q {
            if self.peek_at(1) == Some(q) {
                self.pos += 2;
                return Ok(Some(Some(q)));
            }
            self.pos += 1;
            return Ok(None);
        }
        if c == '\\' {
            self.pos += 1;
            let e = self.peek().ok_or(LexError::UnterminatedQuoted)?;
            self.pos += 1;
            let r = match e {
                '\n' => return Ok(Some(None)),
                'a' => '\u{07}',
                'b' => '\u{08}',
                'f' => '\u{0c}',
                'n' => '\n',
                'r' => '\r',
                't' => '\t',
                'v' => '\u{0b}',
                '\\' | '\'' | '"' | '`' => e,
                'x' => {
                    let mut v: u32 = 0;
                    let mut n = 0;
                    while let Some(d) = self.peek().and_then(|c| c.to_digit(16)) {
                        v = v.checked_mul(16).and_then(|x| x.checked_add(d)).ok_or(LexError::BadEscape)?;
                        self.pos += 1;
                        n += 1;
                    }
                    if n == 0 || self.peek() != Some('\\') {
                        return Err(LexError::BadEscape);
                    }
                    self.pos += 1;
                    char::from_u32(v).ok_or(LexError::BadEscape)?
                }
                d if d.is_digit(8) => {
                    let mut v: u32 = d.to_digit(8).unwrap();
                    while let Some(d) = self.peek().and_then(|c| c.to_digit(8)) {
                        v = v.checked_mul(8).and_then(|x| x.checked_add(d)).ok_or(LexError::BadEscape)?;
                        self.pos += 1;
                    }
                    if self.peek() != Some('\\') {
                        return Err(LexError::BadEscape);
                    }
                    self.pos += 1;
                    char::from_u32(v).ok_or(LexError::BadEscape)?
                }
                _ => return Err(LexError::BadEscape),
            };
            return Ok(Some(Some(r)));
        }
        if c == '\n' || c == '\r' {
            return Err(LexError::NewlineInQuoted);
        }
        if c.is_ascii_control() {
            // ISO: only graphic, alphanumeric, solo, space and the other quote characters
            // (nothing is said about characters beyond ASCII: accepted as they are)
            return Err(LexError::BadChar(c));
        }
        self.pos += 1;
        Ok(Some(Some(c)))
    }

    fn quoted(&mut self, q: char) -> Result<String, LexError> {
        self.pos += 1;
        let mut s = String::new();
        loop {
            match self.quoted_char(q)? {
                None => return Ok(s),
                Some(Some(c)) => s.push(c),
                Some(None) => {}
            }
        }
    }

    fn digits(&mut self, radix: u32, out: &mut String) {
        while let Some(c) = self.peek() {
            if c.is_digit(radix) {
                out.push(c);
                self.pos += 1;
            } else {
                break;
            }
        }
    }

    /// decimal digits with the digit-group extension: `_` optionally followed by layout, then a digit
    fn dec_digits_grouped(&mut self, out: &mut String) -> Result<(), LexError> {
        loop {
            self.digits(10, out);
            if self.peek() == Some('_') {
                // look ahead: `_` layout* digit
                let save = self.pos;
                self.pos += 1;
                let _ = self.skip_layout();
                match self.peek() {
                    Some(c) if c.is_ascii_digit() => continue,
                    _ => {
                        self.pos = save;
                        return Ok(());
                    }
                }
            }
            return Ok(());
        }
    }

    fn number(&mut self) -> Result<Tok, LexError> {
        let c0 = self.peek().unwrap();
        if c0 == '0' {
            match self.peek_at(1) {
                Some('\'') => {
                    // character code: 0' single-quoted-char
                    let save = self.pos;
                    self.pos += 2;
                    match self.peek() {
                        Some('\'') if self.peek_at(1) == Some('\'') => {
                            self.pos += 2;
                            return Ok(Tok::Int(IBig::from(39)));
                        }
                        Some('\'') => {
                            // 0' followed by a lone quote: not a character code; the integer 0
                            self.pos = save + 1;
                            return Ok(Tok::Int(IBig::ZERO));
                        }
                        Some('\\') if self.peek_at(1) == Some('\n') => {
                            self.pos = save + 1;
                            return Ok(Tok::Int(IBig::ZERO));
                        }
                        Some(_) => match self.quoted_char('\'') {
                            Ok(Some(Some(c))) => return Ok(Tok::Int(IBig::from(c as u32))),
                            _ => return Err(LexError::BadNumber),
                        },
                        None => return Err(LexError::Eof),
                    }
                }
                Some(r @ ('x' | 'o' | 'b')) => {
                    let radix = match r {
                        'x' => 16,
                        'o' => 8,
                        _ => 2,
                    };
                    if self.peek_at(2).map(|c| c.is_digit(radix)).unwrap_or(false) {
                        self.pos += 2;
                        let mut s = String::new();
                        self.digits(radix, &mut s);
                        let v = IBig::from_str_radix(&s, radix).map_err(|_| LexError::BadNumber)?;
                        return Ok(Tok::Int(v));
                    }
                }
                _ => {}
            }
        }
        let mut ip = String::new();
        self.dec_digits_grouped(&mut ip)?;
        if self.peek() == Some('.') && self.peek_at(1).map(|c| c.is_ascii_digit()).unwrap_or(false) {
            self.pos += 1;
            let mut fp = String::new();
            self.digits(10, &mut fp);
            let mut ex = String::new();
            if matches!(self.peek(), Some('e') | Some('E')) {
                let (s1, s2) = (self.peek_at(1), self.peek_at(2));
                if s1.map(|c| c.is_ascii_digit()).unwrap_or(false) {
                    self.pos += 1;
                    self.digits(10, &mut ex);
                } else if matches!(s1, Some('+') | Some('-')) && s2.map(|c| c.is_ascii_digit()).unwrap_or(false) {
                    ex.push(s1.unwrap());
                    self.pos += 2;
                    self.digits(10, &mut ex);
                }
            }
            let txt = if ex.is_empty() { format!("{ip}.{fp}") } else { format!("{ip}.{fp}e{ex}") };
            let f: f64 = txt.parse().map_err(|_| LexError::BadNumber)?;
            return Ok(Tok::Float(f));
        }
        let v: IBig = ip.parse().map_err(|_| LexError::BadNumber)?;
        Ok(Tok::Int(v))
    }

    pub fn next(&mut self) -> Result<Token, LexError> {
        let at_start = self.pos == 0;
        let lay = self.skip_layout()? || at_start;
        self.last_start = self.pos;
        let c = self.peek().ok_or(LexError::Eof)?;
        let tok = if c == '_' || is_capital(c) {
            let mut s = String::new();
            while let Some(c) = self.peek() {
                if is_alnum(c) {
                    s.push(c);
                    self.pos += 1;
                } else {
                    break;
                }
            }
            Tok::Var(s)
        } else if c.is_ascii_digit() {
            self.number()?
        } else if is_small(c) {
            let mut s = String::new();
            while let Some(c) = self.peek() {
                if is_alnum(c) {
                    s.push(c);
                    self.pos += 1;
                } else {
                    break;
                }
            }
            Tok::Name { text: s, quoted: false }
        } else if c == '.' && self.peek_at(1).map(|n| is_layout(n) || n == '%').unwrap_or(true) {
            self.pos += 1;
            Tok::End
        } else if is_graphic(c) {
            let mut s = String::new();
            while let Some(c) = self.peek() {
                if is_graphic(c) {
                    s.push(c);
                    self.pos += 1;
                } else {
                    break;
                }
            }
            Tok::Name { text: s, quoted: false }
        } else if c == '!' || c == ';' {
            self.pos += 1;
            Tok::Name { text: c.to_string(), quoted: false }
        } else if matches!(c, '(' | ')' | '[' | ']' | '{' | '}' | ',' | '|') {
            self.pos += 1;
            Tok::Punct(c)
        } else if c == '\'' {
            Tok::Name { text: self.quoted('\'')?, quoted: true }
        } else if c == '"' {
            Tok::Str(self.quoted('"')?)
        } else if c == '`' {
            Tok::BackStr(self.quoted('`')?)
        } else {
            return Err(LexError::BadChar(c));
        };
        Ok(Token { tok, layout_before: lay })
    }
}

/// all tokens of `text` (which must not contain an end token unless `with_end`)
pub fn tokenize(text: &str) -> Result<Vec<Token>, LexError> {
    let mut lx = Lexer::new(text);
    let mut out = vec![];
    loop {
        match lx.next() {
            Ok(t) => out.push(t),
            Err(LexError::Eof) => return Ok(out),
            Err(e) => return Err(e),
        }
    }
}

/// Does `text`, written bare, lex as exactly one name token denoting the atom `text`?
/// (`[]` and `{}` are two punctuation tokens that denote the atoms `[]` and `{}`.)
pub fn bare_is_atom(text: &str) -> bool {
    if text == "[]" || text == "{}" {
        return true;
    }
    match tokenize(text) {
        Ok(toks) => toks.len() == 1 && matches!(&toks[0].tok, Tok::Name { text: t, quoted: false } if t == text) && {
            // the whole text was consumed by that token (no trailing layout/comment)
            let mut lx = Lexer::new(text);
            lx.next().is_ok() && lx.pos == text.chars().count()
        },
        Err(_) => false,
    }
}

// ---------------------------------------------------------------------------------------------
// Reader for canonical text: no operators. atoms, numbers, variables, f(args), [lists], {t},
// "strings"; a name token `-` directly followed by a numeric token denotes a negative number.

pub struct Parser {
    toks: Vec<Token>,
    i: usize,
    vars: Vec<String>,
    /// operator table for `parse_ops` (name, priority, spec); empty for canonical text
    pub ops: Vec<(String, u32, String)>,
}

#[derive(Clone, Debug, PartialEq)]
pub enum ParseError {
    Lex(LexError),
    Unexpected(String),
    Eof,
}

impl Parser {
    pub fn new(text: &str) -> Result<Parser, ParseError> {
        let toks = tokenize(text).map_err(ParseError::Lex)?;
        Ok(Parser { toks, i: 0, vars: vec![], ops: vec![] })
    }
    fn peek(&self) -> Option<&Token> {
        self.toks.get(self.i)
    }
    fn is_punct(&self, c: char) -> bool {
        matches!(self.peek(), Some(Token { tok: Tok::Punct(p), .. }) if *p == c)
    }
    fn expect(&mut self, c: char) -> Result<(), ParseError> {
        if self.is_punct(c) {
            self.i += 1;
            Ok(())
        } else {
            Err(ParseError::Unexpected(format!("expected {c} at token {} got {:?}", self.i, self.peek())))
        }
    }
    pub fn at_end(&self) -> bool {
        self.i >= self.toks.len()
    }
    fn var(&mut self, name: &str) -> T {
        if name == "_" {
            self.vars.push(format!("_#{}", self.vars.len()));
            return T::Var(self.vars.len() as u32 - 1);
        }
        if let Some(i) = self.vars.iter().position(|v| v == name) {
            T::Var(i as u32)
        } else {
            self.vars.push(name.to_string());
            T::Var(self.vars.len() as u32 - 1)
        }
    }

    fn args(&mut self) -> Result<Vec<T>, ParseError> {
        let mut args = vec![self.canonical_arg()?];
        while self.is_punct(',') {
            self.i += 1;
            args.push(self.canonical_arg()?);
        }
        self.expect(')')?;
        Ok(args)
    }

    fn canonical_arg(&mut self) -> Result<T, ParseError> {
        self.canonical()
    }

    /// one canonical term
    pub fn canonical(&mut self) -> Result<T, ParseError> {
        let t = self.peek().cloned().ok_or(ParseError::Eof)?;
        self.i += 1;
        match t.tok {
            Tok::Int(i) => Ok(T::Int(i)),
            Tok::Float(f) => Ok(T::Float(f)),
            Tok::Var(v) => Ok(self.var(&v)),
            Tok::Str(s) => Ok(T::Str(s)),
            Tok::BackStr(_) => Err(ParseError::Unexpected("back quoted string".into())),
            Tok::End => Err(ParseError::Unexpected("end token".into())),
            Tok::Punct('[') => {
                if self.is_punct(']') {
                    self.i += 1;
                    return self.maybe_compound("[]".into());
                }
                let mut items = vec![self.canonical_arg()?];
                while self.is_punct(',') {
                    self.i += 1;
                    items.push(self.canonical_arg()?);
                }
                let tail = if self.is_punct('|') {
                    self.i += 1;
                    self.canonical_arg()?
                } else {
                    crate::term::nil()
                };
                self.expect(']')?;
                Ok(T::PList(items, Box::new(tail)))
            }
            Tok::Punct('{') => {
                if self.is_punct('}') {
                    self.i += 1;
                    return self.maybe_compound("{}".into());
                }
                let a = self.canonical_arg()?;
                self.expect('}')?;
                Ok(T::Cmp("{}".into(), vec![a]))
            }
            Tok::Punct('(') => {
                let a = self.canonical()?;
                self.expect(')')?;
                Ok(a)
            }
            Tok::Punct(c) => Err(ParseError::Unexpected(format!("punctuation {c}"))),
            Tok::Name { text, quoted } => {
                if text == "-" && !quoted {
                    // negative numeric literal
                    match self.peek().map(|t| t.tok.clone()) {
                        Some(Tok::Int(i)) => {
                            self.i += 1;
                            return Ok(T::Int(-i));
                        }
                        Some(Tok::Float(f)) => {
                            self.i += 1;
                            return Ok(T::Float(-f));
                        }
                        _ => {}
                    }
                }
                self.maybe_compound(text)
            }
        }
    }

    fn maybe_compound(&mut self, name: String) -> Result<T, ParseError> {
        // functional notation: '(' immediately after the name
        if matches!(self.peek(), Some(Token { tok: Tok::Punct('('), layout_before: false })) {
            self.i += 1;
            let args = self.args()?;
            Ok(T::Cmp(name, args))
        } else {
            Ok(T::Atom(name))
        }
    }
}

/// read one canonical term that spans the whole text
pub fn read_canonical(text: &str) -> Result<T, ParseError> {
    let mut p = Parser::new(text)?;
    let t = p.canonical()?;
    if !p.at_end() {
        return Err(ParseError::Unexpected(format!("trailing tokens from {}", p.i)));
    }
    Ok(t)
}

// ---------------------------------------------------------------------------------------------
// Operator-precedence reader (ISO 6.3.4) over the token list, with backtracking where an
// operator atom may also be an operand.

impl Parser {
    pub fn with_ops(text: &str, ops: Vec<(String, u32, String)>) -> Result<Parser, ParseError> {
        let mut p = Parser::new(text)?;
        p.ops = ops;
        Ok(p)
    }

    fn prefix_op(&self, n: &str) -> Option<(u32, u32)> {
        // (priority, max argument priority)
        self.ops.iter().find(|(m, _, s)| m == n && (s == "fy" || s == "fx")).map(|(_, p, s)| (*p, if s == "fy" { *p } else { *p - 1 }))
    }
    fn infix_op(&self, n: &str) -> Option<(u32, u32, u32)> {
        // (priority, max left, max right)
        self.ops.iter().find(|(m, _, s)| m == n && (s == "xfx" || s == "xfy" || s == "yfx")).map(|(_, p, s)| match s.as_str() {
            "xfx" => (*p, *p - 1, *p - 1),
            "xfy" => (*p, *p - 1, *p),
            _ => (*p, *p, *p - 1),
        })
    }
    fn postfix_op(&self, n: &str) -> Option<(u32, u32)> {
        self.ops.iter().find(|(m, _, s)| m == n && (s == "xf" || s == "yf")).map(|(_, p, s)| (*p, if s == "yf" { *p } else { *p - 1 }))
    }
    fn is_op_name(&self, n: &str) -> bool {
        self.ops.iter().any(|(m, _, _)| m == n)
    }

    /// can the current token start a term?
    fn starts_term(&self) -> bool {
        match self.peek() {
            None => false,
            Some(t) => match &t.tok {
                Tok::Punct(c) => matches!(c, '(' | '[' | '{'),
                Tok::End => false,
                _ => true,
            },
        }
    }

    fn arg999(&mut self) -> Result<T, ParseError> {
        self.term(999).map(|(t, _)| t)
    }

    fn primary(&mut self, max: u32) -> Result<(T, u32), ParseError> {
        let t = self.peek().cloned().ok_or(ParseError::Eof)?;
        self.i += 1;
        match t.tok {
            Tok::Int(i) => Ok((T::Int(i), 0)),
            Tok::Float(f) => Ok((T::Float(f), 0)),
            Tok::Var(v) => Ok((self.var(&v), 0)),
            Tok::Str(s) => Ok((T::Str(s), 0)),
            Tok::BackStr(_) => Err(ParseError::Unexpected("back quoted string".into())),
            Tok::End => Err(ParseError::Unexpected("end token".into())),
            Tok::Punct('(') => {
                let (a, _) = self.term(1200)?;
                self.expect(')')?;
                Ok((a, 0))
            }
            Tok::Punct('[') => {
                if self.is_punct(']') {
                    self.i += 1;
                    return self.name_or_compound("[]".into(), false, max);
                }
                let mut items = vec![self.arg999()?];
                while self.is_punct(',') {
                    self.i += 1;
                    items.push(self.arg999()?);
                }
                let tail = if self.is_punct('|') {
                    self.i += 1;
                    self.arg999()?
                } else {
                    crate::term::nil()
                };
                self.expect(']')?;
                Ok((T::PList(items, Box::new(tail)), 0))
            }
            Tok::Punct('{') => {
                if self.is_punct('}') {
                    self.i += 1;
                    return self.name_or_compound("{}".into(), false, max);
                }
                let (a, _) = self.term(1200)?;
                self.expect('}')?;
                Ok((T::Cmp("{}".into(), vec![a]), 0))
            }
            Tok::Punct(c) => Err(ParseError::Unexpected(format!("punctuation {c}"))),
            Tok::Name { text, quoted } => self.name_or_compound(text, quoted, max),
        }
    }

    fn name_or_compound(&mut self, name: String, quoted: bool, max: u32) -> Result<(T, u32), ParseError> {
        if matches!(self.peek(), Some(Token { tok: Tok::Punct('('), layout_before: false })) {
            self.i += 1;
            let mut args = vec![self.arg999()?];
            while self.is_punct(',') {
                self.i += 1;
                args.push(self.arg999()?);
            }
            self.expect(')')?;
            return Ok((T::Cmp(name, args), 0));
        }
        if name == "-" && !quoted {
            match self.peek().map(|t| t.tok.clone()) {
                Some(Tok::Int(i)) => {
                    self.i += 1;
                    return Ok((T::Int(-i), 0));
                }
                Some(Tok::Float(f)) => {
                    self.i += 1;
                    return Ok((T::Float(-f), 0));
                }
                _ => {}
            }
        }
        if let Some((p, argmax)) = self.prefix_op(&name) {
            if self.starts_term() {
                let save = (self.i, self.vars.len());
                // as a prefix operator (only if its priority fits)
                if p <= max {
                    if let Ok((a, _)) = self.term(argmax) {
                        // what follows must be able to continue/close a term of priority p
                        return Ok((T::Cmp(name, vec![a]), p));
                    }
                    self.i = save.0;
                    self.vars.truncate(save.1);
                }
            }
        }
        // an atom; an operator as an atom is an operand of priority 0 here (lenient: ISO gives
        // it priority 1201 outside brackets/arguments, writers bracket it anyway)
        Ok((T::Atom(name), 0))
    }

    /// term of priority <= max; returns the term and its priority
    pub fn term(&mut self, max: u32) -> Result<(T, u32), ParseError> {
        let (mut left, mut lp) = self.primary(max)?;
        loop {
            let Some(t) = self.peek().cloned() else { break };
            let name = match &t.tok {
                Tok::Name { text, .. } => text.clone(),
                Tok::Punct(',') => ",".to_string(),
                Tok::Punct('|') => "|".to_string(),
                _ => break,
            };
            let inf = if name == "," { Some((1000, 999, 1000)) } else { self.infix_op(&name) };
            let mut progressed = false;
            if let Some((p, lmax, rmax)) = inf {
                if p <= max && lp <= lmax {
                    let save = (self.i, self.vars.len());
                    self.i += 1;
                    if self.starts_term() {
                        if let Ok((r, _)) = self.term(rmax) {
                            left = T::Cmp(name.clone(), vec![left, r]);
                            lp = p;
                            progressed = true;
                        }
                    }
                    if !progressed {
                        self.i = save.0;
                        self.vars.truncate(save.1);
                    }
                }
            }
            if !progressed {
                if let Some((p, lmax)) = self.postfix_op(&name) {
                    if p <= max && lp <= lmax {
                        self.i += 1;
                        left = T::Cmp(name.clone(), vec![left]);
                        lp = p;
                        progressed = true;
                    }
                }
            }
            if !progressed {
                break;
            }
        }
        Ok((left, lp))
    }
}

/// read one term in operator notation spanning the whole text
pub fn read_with_ops(text: &str, ops: &[(String, u32, String)]) -> Result<T, ParseError> {
    let mut p = Parser::with_ops(text, ops.to_vec())?;
    let (t, _) = p.term(1200)?;
    if !p.at_end() {
        return Err(ParseError::Unexpected(format!("trailing tokens from {} of {}", p.i, p.toks.len())));
    }
    Ok(t)
}

/// Value of a text as a Prolog number, judged by this tokenizer.
#[derive(Clone, Debug, PartialEq)]
pub enum NumEval {
    /// exactly one numeric token (optionally preceded directly by `-`), nothing else
    Value(T),
    /// a number, but with layout text / comments before, after, or between `-` and the digits,
    /// or inside a digit group (`1_ 000`)
    ValueWithLayout(T),
    NotNumber,
}

pub fn eval_number_text(text: &str) -> NumEval {
    let n = text.chars().count();
    let mut lx = Lexer::new(text);
    let mut toks: Vec<(Tok, usize, usize)> = vec![];
    loop {
        match lx.next() {
            Ok(t) => toks.push((t.tok, lx.last_start, lx.pos)),
            Err(LexError::Eof) => break,
            Err(_) => return NumEval::NotNumber,
        }
        if toks.len() > 2 {
            return NumEval::NotNumber;
        }
    }
    // trailing layout: the lexer stops at Eof after skipping it
    let num = |t: &Tok, neg: bool| -> Option<T> {
        match t {
            Tok::Int(i) => Some(T::Int(if neg { -i.clone() } else { i.clone() })),
            Tok::Float(f) if f.is_finite() => Some(T::Float(if neg { -*f } else { *f })),
            _ => None,
        }
    };
    let (val, first, last_end, gap) = match toks.as_slice() {
        [(t, s, e)] => (num(t, false), *s, *e, false),
        [(Tok::Name { text: m, quoted: false }, s, e1), (t, s2, e)] if m == "-" => (num(t, true), *s, *e, e1 != s2),
        _ => (None, 0, 0, false),
    };
    let Some(v) = val else { return NumEval::NotNumber };
    // layout inside the numeric token itself (digit groups) = the token is longer than its non-layout characters
    let inner_layout = {
        let cs: Vec<char> = text.chars().collect();
        let (s, e) = match toks.as_slice() {
            [(_, s, e)] => (*s, *e),
            [_, (_, s, e)] => (*s, *e),
            _ => (0, 0),
        };
        let tokc = &cs[s..e];
        // a character code constant may contain a space or a quoted layout char legitimately
        !(tokc.len() >= 2 && tokc[0] == '0' && tokc[1] == '\'') && tokc.iter().any(|c| is_layout(*c) || *c == '%' || *c == '*')
    };
    if first != 0 || last_end != n || gap || inner_layout {
        NumEval::ValueWithLayout(v)
    } else {
        NumEval::Value(v)
    }
}
