//! Choice stream: a deterministic builder reads its decisions from a `&[u16]` (smaller numbers =
//! simpler choices, an exhausted stream answers 0), so proptest shrinks the stream and the built
//! case follows. Same scheme as the private `Src` of proggen.rs, made reusable.
#![allow(dead_code)]
use proptest::prelude::*;

pub struct Src<'a> {
    pub data: &'a [u16],
    pub pos: usize,
}

impl<'a> Src<'a> {
    pub fn new(data: &'a [u16]) -> Src<'a> {
        Src { data, pos: 0 }
    }
    pub fn raw(&mut self) -> u32 {
        let v = self.data.get(self.pos).copied().unwrap_or(0);
        self.pos += 1;
        v as u32
    }
    /// 0..n, monotone in the raw value
    pub fn n(&mut self, n: usize) -> usize {
        if n <= 1 {
            return 0;
        }
        (self.raw() as usize * n) >> 16
    }
    pub fn range(&mut self, lo: usize, hi: usize) -> usize {
        lo + self.n(hi - lo + 1)
    }
    /// true with probability pct/100; raw 0 (exhausted stream) answers "no"
    pub fn chance(&mut self, pct: u32) -> bool {
        self.raw() * 100 >= (100 - pct.min(100)) * 65536
    }
    /// index into a weight table (put the simplest alternative first)
    pub fn weighted(&mut self, w: &[u32]) -> usize {
        let total: u32 = w.iter().sum();
        let mut x = (self.raw() as u64 * total as u64 >> 16) as u32;
        for (i, wi) in w.iter().enumerate() {
            if x < *wi {
                return i;
            }
            x -= wi;
        }
        w.len() - 1
    }
    pub fn pick<T: Clone>(&mut self, items: &[T]) -> T {
        items[self.n(items.len())].clone()
    }
}

/// a stream of `len/2 ..= len` choices
pub fn stream(len: usize) -> BoxedStrategy<Vec<u16>> {
    proptest::collection::vec(any::<u16>(), len / 2..=len).boxed()
}
