//! Shared machinery of the printer/reader checks (C15, C55, C16, C45): a session whose
//! user_output is captured, the stream writers, read-back, operator tables, comparison.
use crate::session::{Outcome, Session};
use crate::term::T;
use scryer_prolog::{MachineBuilder, OutputStreamConfig, StreamConfig};
use serde::{Deserialize, Serialize};
use std::cell::RefCell;
use std::io::Read;
use std::rc::Rc;

pub const PRINTER_PL: &str = include_str!("../../prolog/printer.pl");

#[derive(Clone, Debug, Serialize, Deserialize, PartialEq)]
pub struct OpDecl {
    pub p: u16,
    pub spec: String,
    pub name: String,
}

pub struct PEnv {
    pub s: Session,
    pub out: Rc<RefCell<Vec<u8>>>,
    /// the operator table of the machine (refreshed by `load_ops`)
    pub ops: Vec<OpDecl>,
}

pub fn mk_penv() -> PEnv {
    let out: Rc<RefCell<Vec<u8>>> = Rc::new(RefCell::new(Vec::new()));
    let streams = StreamConfig::in_memory().with_user_output(OutputStreamConfig::callback(Box::new({
        let out = out.clone();
        move |cur| {
            let _ = cur.read_to_end(&mut out.borrow_mut());
        }
    })));
    let machine = MachineBuilder::default().with_streams(streams).build();
    let mut s = Session::with_machine(machine, &["charsio", "lists"]);
    s.machine.consult_module_string("user", PRINTER_PL);
    let o = s.ask("vpp_loaded(X)", "X");
    assert!(matches!(o, Outcome::Sols(ref v) if v.len() == 1), "printer.pl failed to load: {}", o.short());
    let mut e = PEnv { s, out, ops: vec![] };
    e.load_ops();
    e
}

fn codes_text(s: &str) -> String {
    let mut out = String::from("[");
    for (i, c) in s.chars().enumerate() {
        if i > 0 {
            out.push(',');
        }
        out.push_str(&(c as u32).to_string());
    }
    out.push(']');
    out
}

/// a proper list of one-character atoms -> String
pub fn chars_to_string(t: &T) -> Option<String> {
    match t {
        T::Atom(a) if a == "[]" => Some(String::new()),
        T::PList(items, tail) if tail.is_nil() => {
            let mut s = String::new();
            for it in items {
                match it {
                    T::Atom(a) if a.chars().count() == 1 => s.push_str(a),
                    _ => return None,
                }
            }
            Some(s)
        }
        _ => None,
    }
}

/// Result of reading a text back
#[derive(Clone, Debug)]
pub enum Read1 {
    Ok(T),
    Ex(T),
}

fn decode_read(t: &T) -> Result<Read1, String> {
    match t {
        T::Cmp(n, a) if n == "ok" && a.len() == 1 => Ok(Read1::Ok(a[0].clone())),
        T::Cmp(n, a) if n == "ex" && a.len() == 1 => Ok(Read1::Ex(a[0].clone())),
        other => Err(format!("unexpected read result {}", other.text())),
    }
}

/// What went wrong inside the harness/transport (never a verdict) or a panic of the machine.
#[derive(Clone, Debug)]
pub enum PErr {
    Panic(String),
    Harness(String),
}

fn one_sol(o: Outcome) -> Result<T, PErr> {
    match o {
        Outcome::Sols(mut v) if v.len() == 1 => Ok(v.pop().unwrap()),
        Outcome::Panic(m) => Err(PErr::Panic(m)),
        other => Err(PErr::Harness(other.short().chars().take(300).collect())),
    }
}

impl PEnv {
    pub fn load_ops(&mut self) {
        let o = self.s.ask("vpp_ops(L)", "L");
        let mut ops = vec![];
        if let Outcome::Sols(v) = &o {
            if let Some(T::PList(items, _)) = v.first() {
                for it in items {
                    if let T::Cmp(_, a) = it {
                        if let (T::Int(p), T::Atom(s), T::Atom(n)) = (&a[0], &a[1], &a[2]) {
                            ops.push(OpDecl { p: u16::try_from(p).unwrap_or(0), spec: s.clone(), name: n.clone() });
                        }
                    }
                }
            }
        }
        self.ops = ops;
    }

    pub fn install_ops(&mut self, decls: &[OpDecl]) -> Result<(), PErr> {
        let mut l = String::from("[");
        for (i, d) in decls.iter().enumerate() {
            if i > 0 {
                l.push(',');
            }
            l.push_str(&format!("o({},{},{})", d.p, d.spec, codes_text(&d.name)));
        }
        l.push(']');
        one_sol(self.s.ask(&format!("vpp_install_ops({l})"), "[]"))?;
        self.load_ops();
        Ok(())
    }

    /// Write `t` with each *stream* writer (Prolog text of the writer spec understood by
    /// vpp_stream_write/2) to the captured user_output; returns one text per writer.
    /// A text starting with 0x02 is a raised exception (written canonically after it).
    pub fn emit(&mut self, pstr: bool, t: &T, writers: &[&str]) -> Result<Vec<String>, PErr> {
        self.out.borrow_mut().clear();
        let mode = if pstr { "pstr" } else { "cells" };
        let q = format!("vpp_emit({mode}, {}, [{}])", t.enc_text(), writers.join(","));
        one_sol(self.s.ask(&q, "[]"))?;
        let bytes = std::mem::take(&mut *self.out.borrow_mut());
        let text = String::from_utf8(bytes).map_err(|_| PErr::Harness("captured output is not UTF-8".into()))?;
        let mut parts: Vec<String> = text.split('\u{1}').map(|s| s.to_string()).collect();
        if parts.len() != writers.len() + 1 || !parts.last().map(|s| s.is_empty()).unwrap_or(false) {
            return Err(PErr::Harness(format!("captured output does not split into {} parts: {:?}", writers.len(), text)));
        }
        parts.pop();
        Ok(parts)
    }

    pub fn readback(&mut self, texts: &[String]) -> Result<Vec<Read1>, PErr> {
        let l: Vec<String> = texts.iter().map(|s| codes_text(s)).collect();
        let t = one_sol(self.s.ask(&format!("vpp_readback([{}], Rs)", l.join(",")), "Rs"))?;
        let items: Vec<T> = match t {
            T::PList(items, tail) if tail.is_nil() => items,
            T::Atom(ref a) if a == "[]" => vec![],
            other => return Err(PErr::Harness(format!("readback result not a list: {}", other.text()))),
        };
        if items.len() != texts.len() {
            return Err(PErr::Harness("readback result has wrong length".into()));
        }
        items.iter().map(|i| decode_read(i).map_err(PErr::Harness)).collect()
    }

    /// write_term_to_chars/3 with each option list + read back in the same query.
    /// Returns the decoded original and per option list Ok((text, read result)) or Err(ball of the writer).
    pub fn chars_rt(&mut self, pstr: bool, t: &T, optss: &[&str]) -> Result<(T, Vec<Result<(String, Read1), T>>), PErr> {
        let mode = if pstr { "pstr" } else { "cells" };
        let q = format!("vpp_chars_rt({mode}, {}, [{}], T, Rs)", t.enc_text(), optss.join(","));
        let r = one_sol(self.s.ask(&q, "x(T,Rs)"))?;
        let T::Cmp(_, mut a) = r else { return Err(PErr::Harness("chars_rt: bad result".into())) };
        let rs = a.pop().unwrap();
        let orig = a.pop().unwrap();
        let items: Vec<T> = match rs {
            T::PList(items, tail) if tail.is_nil() => items,
            T::Atom(ref x) if x == "[]" => vec![],
            other => return Err(PErr::Harness(format!("chars_rt result not a list: {}", other.text()))),
        };
        let mut out = vec![];
        for it in items {
            match it {
                T::Cmp(n, mut a) if n == "w" && a.len() == 2 => {
                    let rd = decode_read(&a.pop().unwrap()).map_err(PErr::Harness)?;
                    let txt = chars_to_string(&a.pop().unwrap()).ok_or_else(|| PErr::Harness("chars_rt: text is not a char list".into()))?;
                    out.push(Ok((txt, rd)));
                }
                T::Cmp(n, mut a) if n == "wex" && a.len() == 1 => out.push(Err(a.pop().unwrap())),
                other => return Err(PErr::Harness(format!("chars_rt: bad item {}", other.text()))),
            }
        }
        Ok((orig, out))
    }

    pub fn is_op(&self, name: &str) -> bool {
        self.ops.iter().any(|o| o.name == name)
    }
    pub fn op_kinds(&self, name: &str) -> (bool, bool, bool) {
        let mut r = (false, false, false);
        for o in self.ops.iter().filter(|o| o.name == name) {
            match o.spec.as_str() {
                "fy" | "fx" => r.0 = true,
                "xfx" | "xfy" | "yfx" => r.1 = true,
                _ => r.2 = true,
            }
        }
        r
    }
}

/// `got` is a variant of `expected`, numbers identical, floats bit-identical except that an
/// expected -0.0 may come back as 0.0.
pub fn same_term(expected: &T, got: &T) -> bool {
    let e = expected.norm().canon_vars();
    let g = got.norm().canon_vars();
    eq_rt(&e, &g)
}

fn eq_rt(e: &T, g: &T) -> bool {
    match (e, g) {
        (T::Float(a), T::Float(b)) => a.to_bits() == b.to_bits() || (a.to_bits() == (-0.0f64).to_bits() && b.to_bits() == 0.0f64.to_bits()),
        (T::Var(a), T::Var(b)) => a == b,
        (T::Atom(a), T::Atom(b)) => a == b,
        (T::Int(a), T::Int(b)) => a == b,
        (T::Rat(a, b), T::Rat(c, d)) => a == c && b == d,
        (T::Str(a), T::Str(b)) => a == b,
        (T::PList(a, at), T::PList(b, bt)) => a.len() == b.len() && a.iter().zip(b).all(|(x, y)| eq_rt(x, y)) && eq_rt(at, bt),
        (T::Cmp(n, a), T::Cmp(m, b)) => n == m && a.len() == b.len() && a.iter().zip(b).all(|(x, y)| eq_rt(x, y)),
        _ => false,
    }
}

/// every (name, arity) of atoms (arity 0) and compound terms in `t`
pub fn symbols(t: &T, out: &mut Vec<(String, usize)>) {
    match t {
        T::Atom(a) => out.push((a.clone(), 0)),
        T::Cmp(n, args) => {
            out.push((n.clone(), args.len()));
            for a in args {
                symbols(a, out);
            }
        }
        T::PList(items, tail) => {
            for i in items {
                symbols(i, out);
            }
            symbols(tail, out);
        }
        _ => {}
    }
}

pub fn map_term(t: &T, f: &dyn Fn(&T) -> Option<T>) -> T {
    if let Some(r) = f(t) {
        return r;
    }
    match t {
        T::Cmp(n, args) => T::Cmp(n.clone(), args.iter().map(|a| map_term(a, f)).collect()),
        T::PList(items, tail) => T::PList(items.iter().map(|a| map_term(a, f)).collect(), Box::new(map_term(tail, f))),
        other => other.clone(),
    }
}

pub fn any_sub(t: &T, f: &dyn Fn(&T) -> bool) -> bool {
    if f(t) {
        return true;
    }
    match t {
        T::Cmp(_, args) => args.iter().any(|a| any_sub(a, f)),
        T::PList(items, tail) => items.iter().any(|a| any_sub(a, f)) || any_sub(tail, f),
        _ => false,
    }
}

pub fn is_plain_ident(s: &str) -> bool {
    let mut cs = s.chars();
    matches!(cs.next(), Some(c) if c.is_ascii_lowercase()) && s.chars().all(|c| c.is_ascii_alphanumeric() || c == '_')
}

/// Abstract shape for signatures: operators/special atoms keep their names, everything else
/// becomes a placeholder.
pub fn shape(t: &T, keep: &dyn Fn(&str) -> bool) -> String {
    fn go(t: &T, keep: &dyn Fn(&str) -> bool, out: &mut String) {
        match t {
            T::Var(_) => out.push('_'),
            T::Atom(a) => {
                if keep(a) {
                    out.push_str(&crate::term::write_atom(a))
                } else if is_plain_ident(a) {
                    out.push('a')
                } else {
                    out.push_str("'?'")
                }
            }
            T::Int(i) => out.push_str(if crate::num::is_neg(i) { "-1" } else { "1" }),
            T::Rat(..) => out.push_str("rat"),
            T::Float(f) => out.push_str(if f.is_sign_negative() { "-1.0" } else { "1.0" }),
            T::Str(_) => out.push_str("\"s\""),
            T::PList(items, tail) => {
                out.push('[');
                for (i, it) in items.iter().enumerate() {
                    if i > 0 {
                        out.push(',');
                    }
                    go(it, keep, out);
                }
                if !tail.is_nil() {
                    out.push('|');
                    go(tail, keep, out);
                }
                out.push(']');
            }
            T::Cmp(n, args) => {
                if keep(n) {
                    out.push_str(&crate::term::write_atom(n))
                } else if is_plain_ident(n) {
                    out.push('f')
                } else {
                    out.push_str("'?'")
                }
                out.push('(');
                for (i, a) in args.iter().enumerate() {
                    if i > 0 {
                        out.push(',');
                    }
                    go(a, keep, out);
                }
                out.push(')');
            }
        }
    }
    let mut s = String::new();
    go(t, keep, &mut s);
    s.chars().take(100).collect()
}

/// Known-finding helper: character-prefixed partial lists whose tail is a variable get a fresh
/// variable as tail (the trigger of the packed-string shared-tail defect of ignore_ops writers).
pub fn fresh_pstr_tails(t: &T) -> Option<T> {
    let hit = |s: &T| matches!(s, T::PList(items, tail) if matches!(**tail, T::Var(_)) && matches!(items.first(), Some(T::Atom(a)) if a.chars().count() == 1));
    if !any_sub(t, &hit) {
        return None;
    }
    let counter = std::cell::Cell::new(1000u32);
    fn go(t: &T, counter: &std::cell::Cell<u32>) -> T {
        match t {
            T::PList(items, tail) => {
                let is_hit = matches!(**tail, T::Var(_)) && matches!(items.first(), Some(T::Atom(a)) if a.chars().count() == 1);
                let items2: Vec<T> = items.iter().map(|i| go(i, counter)).collect();
                let tail2 = if is_hit {
                    counter.set(counter.get() + 1);
                    T::Var(counter.get())
                } else {
                    go(tail, counter)
                };
                T::PList(items2, Box::new(tail2))
            }
            T::Cmp(n, args) => T::Cmp(n.clone(), args.iter().map(|a| go(a, counter)).collect()),
            other => other.clone(),
        }
    }
    Some(go(t, &counter))
}

thread_local! {
    /// known open findings met by this worker (per signature)
    static TOLERATED: RefCell<std::collections::BTreeMap<String, u64>> = const { RefCell::new(std::collections::BTreeMap::new()) };
}

pub fn note_tolerated(sig: &str) {
    TOLERATED.with(|m| *m.borrow_mut().entry(sig.to_string()).or_default() += 1);
}

/// A failure whose signature is a known open finding is counted and turned into a pass
/// (class `known-finding:<family>`) so that the session is kept and the search goes on; the
/// counts end up in the evidence's excluded_known through `drain_tolerated`. (Replays never
/// tolerate: the known-open list is only set in worker processes.)
pub fn tolerate(v: crate::engine::Verdict) -> crate::engine::Verdict {
    match &v {
        crate::engine::Verdict::Fail { signature, .. } if crate::engine::is_known_open(signature) => {
            note_tolerated(signature);
            let class = format!("known-finding:{}", signature.split(':').next().unwrap_or("?"));
            crate::engine::Verdict::Pass { nontrivial: false, classes: vec![class] }
        }
        _ => v,
    }
}

pub fn drain_tolerated(res: &mut crate::engine::ShardResult) {
    for (k, v) in TOLERATED.with(|m| std::mem::take(&mut *m.borrow_mut())) {
        *res.excluded_known.entry(k).or_default() += v;
    }
}
