//! Effect programs over reset/3 and shift/1 (C38): AST, rendering as Prolog text, and a reference
//! abstract machine with an explicit goal stack.
//!
//! Semantics implemented by the reference: `reset(G, B, C)` runs G with a marker below it on the
//! goal stack; when G finishes, C = none (B untouched). `shift(T)` removes the goals between
//! the top of the stack and the nearest marker, packages them as a continuation K (variables are
//! shared, nothing is copied), and continues after the marker with B = T, C = cont(K); calling
//! K puts those goals back on the stack (below no marker of their own), so a later shift inside
//! K is caught by whatever reset encloses the call of K. Backtracking is chronological; the
//! trace (`c38_emit/1`, an assertz) survives backtracking.
#![allow(dead_code)]

use crate::term::{atom, cmp, int, resolve, unify, Subst, T};
use serde::{Deserialize, Serialize};
use std::rc::Rc;

#[derive(Clone, Debug, PartialEq, Serialize, Deserialize)]
pub enum Handler {
    /// log every ball, resume the continuation under a new reset until the goal finishes
    Drive,
    /// state effects: get(X) binds X to the state, put(S) replaces it; other balls are forwarded
    /// to the enclosing reset (shift/1 again) and the goal is resumed afterwards
    State(T),
    /// log the first ball and drop the continuation
    First,
    /// log the first ball, then run the continuation to the end twice
    Twice,
    /// log the first ball, call the continuation without a new reset
    Once,
}

#[derive(Clone, Debug, PartialEq, Serialize, Deserialize)]
pub enum Item {
    Emit(T),
    Shift(T),
    Unify(T, T),
    Member(T, Vec<T>),
    Call(usize, T),
    Handle(Handler, Vec<Item>),
}

#[derive(Clone, Debug, PartialEq, Serialize, Deserialize)]
pub struct Prog {
    /// p_i(V0) :- body_i.   (clause variables V0..V3)
    pub preds: Vec<Vec<Item>>,
    /// the query: c38_drive(( top )) with answer template V0
    pub top: Vec<Item>,
}

// ---------------------------------------------------------------------------------------------
// Rendering

pub fn pred_name(prefix: &str, i: usize) -> String {
    format!("{prefix}p{i}")
}

fn handler_name(h: &Handler) -> &'static str {
    match h {
        Handler::Drive => "c38_drive",
        Handler::State(_) => "c38_state",
        Handler::First => "c38_first",
        Handler::Twice => "c38_twice",
        Handler::Once => "c38_once",
    }
}

pub fn render_conj(items: &[Item], prefix: &str) -> String {
    match items.len() {
        0 => "true".to_string(),
        1 => render_item(&items[0], prefix),
        _ => format!("({})", items.iter().map(|i| render_item(i, prefix)).collect::<Vec<_>>().join(", ")),
    }
}

pub fn render_item(it: &Item, prefix: &str) -> String {
    match it {
        Item::Emit(t) => format!("c38_emit(e({}))", t.text()),
        Item::Shift(t) => format!("shift({})", t.text()),
        Item::Unify(a, b) => format!("{} = {}", a.text(), b.text()),
        Item::Member(x, l) => format!("member({}, {})", x.text(), crate::term::list(l.clone()).text()),
        Item::Call(i, a) => format!("{}({})", pred_name(prefix, *i), a.text()),
        Item::Handle(h, items) => match h {
            Handler::State(s) => format!("c38_state({}, {})", render_conj(items, prefix), s.text()),
            _ => format!("{}({})", handler_name(h), render_conj(items, prefix)),
        },
    }
}

pub fn render_prog(p: &Prog, prefix: &str) -> String {
    let mut s = String::new();
    for (i, body) in p.preds.iter().enumerate() {
        let b = if body.is_empty() { "true".to_string() } else { body.iter().map(|x| render_item(x, prefix)).collect::<Vec<_>>().join(", ") };
        s.push_str(&format!("{}(V0) :- {}.\n", pred_name(prefix, i), b));
    }
    s
}

// ---------------------------------------------------------------------------------------------
// Reference machine

#[derive(Clone, Debug)]
enum Frame {
    Goal(G),
    Marker { b: T, c: T },
}

/// instantiated goals
#[derive(Clone, Debug)]
enum G {
    Emit(T),
    Shift(T),
    Unify(T, T),
    Member(T, Vec<T>),
    Call(usize, T),
    Reset(Vec<G>, Handler),
    CallCont(T),
    After(Handler, T, T),
}

#[derive(Debug)]
struct Node {
    f: Frame,
    next: Stack,
}
type Stack = Option<Rc<Node>>;

fn push(f: Frame, s: &Stack) -> Stack {
    Some(Rc::new(Node { f, next: s.clone() }))
}

fn push_goals(gs: &[G], s: &Stack) -> Stack {
    let mut st = s.clone();
    for g in gs.iter().rev() {
        st = push(Frame::Goal(g.clone()), &st);
    }
    st
}

fn ren(t: &T, off: u32) -> T {
    match t {
        T::Var(v) => T::Var(v + off),
        T::PList(items, tail) => T::PList(items.iter().map(|x| ren(x, off)).collect(), Box::new(ren(tail, off))),
        T::Cmp(n, args) => T::Cmp(n.clone(), args.iter().map(|x| ren(x, off)).collect()),
        other => other.clone(),
    }
}

fn inst(items: &[Item], off: u32) -> Vec<G> {
    items
        .iter()
        .map(|it| match it {
            Item::Emit(t) => G::Emit(cmp("e", vec![ren(t, off)])),
            Item::Shift(t) => G::Shift(ren(t, off)),
            Item::Unify(a, b) => G::Unify(ren(a, off), ren(b, off)),
            Item::Member(x, l) => G::Member(ren(x, off), l.iter().map(|t| ren(t, off)).collect()),
            Item::Call(i, a) => G::Call(*i, ren(a, off)),
            Item::Handle(h, items) => {
                let h2 = match h {
                    Handler::State(s) => Handler::State(ren(s, off)),
                    other => other.clone(),
                };
                G::Reset(inst(items, off), h2)
            }
        })
        .collect()
}

#[derive(Clone, Debug, PartialEq)]
pub enum EffOutcome {
    /// answers (instances of V0 of the query) in order, and the trace
    Done { answers: Vec<T>, trace: Vec<T>, shifts: u64, max_reset_depth: u32 },
    Abort(String),
}

pub const CLAUSE_VARS: u32 = 8;

/// assertz/1 and findall/3 copy: every recorded term gets variables of its own
fn copy_fresh(t: &T, counter: &mut u32) -> T {
    let mut vs = vec![];
    t.vars(&mut vs);
    let mut m = std::collections::HashMap::new();
    for v in vs {
        m.insert(v, T::Var(*counter));
        *counter += 1;
    }
    t.subst(&m)
}

pub fn run_eff(p: &Prog, max_steps: u64) -> EffOutcome {
    let mut next_var: u32 = 1000;
    let mut copy_var: u32 = 10_000_000;
    let mut conts: Vec<Vec<Frame>> = vec![];
    let mut trace: Vec<T> = vec![];
    let mut answers: Vec<T> = vec![];
    let mut chps: Vec<(Stack, Subst)> = vec![];
    let mut sub = Subst::new();
    let mut shifts = 0u64;
    let mut max_depth = 0u32;
    // query: c38_drive((top)), variables of the query are V0.. at offset 0
    let mut stack: Stack = push(Frame::Goal(G::Reset(inst(&p.top, 0), Handler::Drive)), &None);
    let mut steps = 0u64;
    macro_rules! fresh {
        () => {{
            let v = next_var;
            next_var += 1;
            T::Var(v)
        }};
    }
    'run: loop {
        steps += 1;
        if steps > max_steps {
            return EffOutcome::Abort("budget".into());
        }
        let mut fail = false;
        match stack.clone() {
            None => {
                answers.push(copy_fresh(&resolve(&T::Var(0), &sub), &mut copy_var));
                if answers.len() > 200 {
                    return EffOutcome::Abort("too-many-answers".into());
                }
                fail = true;
            }
            Some(node) => {
                stack = node.next.clone();
                match &node.f {
                    Frame::Marker { c, .. } => {
                        if !matches!(unify(c, &atom("none"), &mut sub, false), Ok(true)) {
                            return EffOutcome::Abort("marker-cont-bound".into());
                        }
                    }
                    Frame::Goal(g) => match g {
                        G::Emit(t) => {
                            trace.push(copy_fresh(&resolve(t, &sub), &mut copy_var));
                            if trace.len() > 2000 {
                                return EffOutcome::Abort("trace-too-long".into());
                            }
                        }
                        G::Unify(a, b) => match unify(a, b, &mut sub, false) {
                            Ok(true) => {}
                            Ok(false) => fail = true,
                            Err(()) => return EffOutcome::Abort("cyclic-unifier".into()),
                        },
                        G::Member(x, items) => {
                            if items.is_empty() {
                                fail = true;
                            } else {
                                if items.len() > 1 {
                                    let alt = push(Frame::Goal(G::Member(x.clone(), items[1..].to_vec())), &stack);
                                    chps.push((alt, sub.clone()));
                                }
                                match unify(x, &items[0], &mut sub, false) {
                                    Ok(true) => {}
                                    Ok(false) => fail = true,
                                    Err(()) => return EffOutcome::Abort("cyclic-unifier".into()),
                                }
                            }
                        }
                        G::Call(i, arg) => {
                            let off = next_var;
                            next_var += CLAUSE_VARS;
                            let Some(body) = p.preds.get(*i) else { return EffOutcome::Abort("no-such-pred".into()) };
                            match unify(arg, &T::Var(off), &mut sub, false) {
                                Ok(true) => {}
                                _ => return EffOutcome::Abort("head-unify".into()),
                            }
                            stack = push_goals(&inst(body, off), &stack);
                        }
                        G::Reset(goals, h) => {
                            let (b, c) = (fresh!(), fresh!());
                            let after = push(Frame::Goal(G::After(h.clone(), b.clone(), c.clone())), &stack);
                            let marked = push(Frame::Marker { b, c }, &after);
                            stack = push_goals(goals, &marked);
                            // depth of nested markers, for the non-trivial rule
                            let mut d = 0u32;
                            let mut cur = stack.clone();
                            while let Some(n) = cur {
                                if matches!(n.f, Frame::Marker { .. }) {
                                    d += 1;
                                }
                                cur = n.next.clone();
                            }
                            max_depth = max_depth.max(d);
                        }
                        G::Shift(ball) => {
                            shifts += 1;
                            let mut captured: Vec<Frame> = vec![];
                            let mut cur = stack.clone();
                            let mut found: Option<(T, T, Stack)> = None;
                            while let Some(n) = cur {
                                match &n.f {
                                    Frame::Marker { b, c } => {
                                        found = Some((b.clone(), c.clone(), n.next.clone()));
                                        break;
                                    }
                                    f => captured.push(f.clone()),
                                }
                                cur = n.next.clone();
                            }
                            let Some((b, c, rest)) = found else { return EffOutcome::Abort("shift-outside-reset".into()) };
                            let k = if captured.is_empty() {
                                atom("true")
                            } else {
                                conts.push(captured);
                                cmp("$k", vec![int(conts.len() as i64 - 1)])
                            };
                            match unify(&b, ball, &mut sub, false) {
                                Ok(true) => {}
                                Ok(false) => fail = true,
                                Err(()) => return EffOutcome::Abort("cyclic-unifier".into()),
                            }
                            if !matches!(unify(&c, &cmp("cont", vec![k]), &mut sub, false), Ok(true)) {
                                return EffOutcome::Abort("cont-var-bound".into());
                            }
                            stack = rest;
                        }
                        G::CallCont(k) => match resolve(k, &sub) {
                            T::Atom(a) if a == "true" => {}
                            T::Cmp(n, args) if n == "$k" => {
                                let id = match &args[0] {
                                    T::Int(i) => usize::try_from(i).unwrap_or(usize::MAX),
                                    _ => usize::MAX,
                                };
                                let Some(frames) = conts.get(id) else { return EffOutcome::Abort("bad-cont".into()) };
                                let mut st = stack.clone();
                                for f in frames.iter().rev() {
                                    st = push(f.clone(), &st);
                                }
                                stack = st;
                            }
                            _ => return EffOutcome::Abort("bad-cont".into()),
                        },
                        G::After(h, b, c) => {
                            let cv = resolve(c, &sub);
                            let k = match &cv {
                                T::Atom(a) if a == "none" => None,
                                T::Cmp(n, args) if n == "cont" && args.len() == 1 => Some(args[0].clone()),
                                _ => return EffOutcome::Abort("after-without-cont".into()),
                            };
                            let goals: Vec<G> = match (h, k) {
                                (Handler::State(s), None) => vec![G::Emit(cmp("final", vec![s.clone()]))],
                                (_, None) => vec![G::Emit(atom("done"))],
                                (Handler::Drive, Some(k)) => vec![G::Emit(cmp("ball", vec![b.clone()])), G::Reset(vec![G::CallCont(k)], Handler::Drive)],
                                (Handler::First, Some(_)) => vec![G::Emit(cmp("first", vec![b.clone()]))],
                                (Handler::Once, Some(k)) => vec![G::Emit(cmp("ball", vec![b.clone()])), G::CallCont(k)],
                                (Handler::Twice, Some(k)) => vec![
                                    G::Emit(cmp("ball", vec![b.clone()])),
                                    G::Reset(vec![G::CallCont(k.clone())], Handler::Drive),
                                    G::Emit(atom("again")),
                                    G::Reset(vec![G::CallCont(k)], Handler::Drive),
                                ],
                                (Handler::State(s), Some(k)) => match resolve(b, &sub) {
                                    T::Cmp(n, args) if n == "get" && args.len() == 1 => vec![G::Unify(args[0].clone(), s.clone()), G::Reset(vec![G::CallCont(k)], Handler::State(s.clone()))],
                                    T::Cmp(n, args) if n == "put" && args.len() == 1 => vec![G::Reset(vec![G::CallCont(k)], Handler::State(args[0].clone()))],
                                    T::Var(_) => return EffOutcome::Abort("unbound-ball".into()),
                                    _ => vec![G::Shift(b.clone()), G::Reset(vec![G::CallCont(k)], Handler::State(s.clone()))],
                                },
                            };
                            stack = push_goals(&goals, &stack);
                        }
                    },
                }
            }
        }
        if fail {
            match chps.pop() {
                Some((st, sb)) => {
                    stack = st;
                    sub = sb;
                }
                None => break 'run,
            }
        }
    }
    EffOutcome::Done { answers, trace, shifts, max_reset_depth: max_depth }
}
