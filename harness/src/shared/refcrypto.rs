//! Reference implementations for C37, independent of the crates scryer links for the same job:
//! SHA-2 via RustCrypto `sha2` (scryer: ring), HMAC (RFC 2104) on top of it, hex / base64
//! (RFC 4648) encoders, ChaCha20-Poly1305 (RFC 8439) written out here (scryer: ring), and a
//! persistent `python3` hashlib child for SHA-3 / BLAKE2 / RIPEMD-160 (scryer: RustCrypto crates).
use dashu::integer::UBig;
use sha2::{Digest, Sha256, Sha384, Sha512, Sha512_256};
use std::io::{BufRead, BufReader, Write};
use std::process::{Child, ChildStdin, ChildStdout, Command, Stdio};

pub fn hex_lower(bytes: &[u8]) -> String {
    let mut s = String::with_capacity(bytes.len() * 2);
    for b in bytes {
        s.push(char::from_digit((b >> 4) as u32, 16).unwrap());
        s.push(char::from_digit((b & 15) as u32, 16).unwrap());
    }
    s
}

pub fn base64(bytes: &[u8], padding: bool, url: bool) -> String {
    let alphabet: Vec<char> = if url { "ABCDEFGHIJKLMNOPQRSTUVWXYZabcdefghijklmnopqrstuvwxyz0123456789-_" } else { "ABCDEFGHIJKLMNOPQRSTUVWXYZabcdefghijklmnopqrstuvwxyz0123456789+/" }.chars().collect();
    let mut out = String::new();
    for chunk in bytes.chunks(3) {
        let n = match chunk.len() {
            3 => ((chunk[0] as u32) << 16) | ((chunk[1] as u32) << 8) | chunk[2] as u32,
            2 => ((chunk[0] as u32) << 16) | ((chunk[1] as u32) << 8),
            _ => (chunk[0] as u32) << 16,
        };
        out.push(alphabet[(n >> 18) as usize & 63]);
        out.push(alphabet[(n >> 12) as usize & 63]);
        if chunk.len() > 1 {
            out.push(alphabet[(n >> 6) as usize & 63]);
        } else if padding {
            out.push('=');
        }
        if chunk.len() > 2 {
            out.push(alphabet[n as usize & 63]);
        } else if padding {
            out.push('=');
        }
    }
    out
}

/// SHA-2 family by name; None for other algorithms
pub fn sha2_digest(algo: &str, data: &[u8]) -> Option<Vec<u8>> {
    Some(match algo {
        "sha256" => Sha256::digest(data).to_vec(),
        "sha384" => Sha384::digest(data).to_vec(),
        "sha512" => Sha512::digest(data).to_vec(),
        "sha512_256" => Sha512_256::digest(data).to_vec(),
        _ => return None,
    })
}

pub fn block_size(algo: &str) -> usize {
    match algo {
        "sha256" | "blake2s256" | "ripemd160" => 64,
        "sha384" | "sha512" | "sha512_256" | "blake2b512" => 128,
        "sha3_224" => 144,
        "sha3_256" => 136,
        "sha3_384" => 104,
        "sha3_512" => 72,
        _ => 64,
    }
}

/// HMAC (RFC 2104) over the SHA-2 reference
pub fn hmac_sha2(algo: &str, key: &[u8], data: &[u8]) -> Option<Vec<u8>> {
    let bs = block_size(algo);
    let mut k = if key.len() > bs { sha2_digest(algo, key)? } else { key.to_vec() };
    k.resize(bs, 0);
    let mut inner: Vec<u8> = k.iter().map(|b| b ^ 0x36).collect();
    inner.extend_from_slice(data);
    let ih = sha2_digest(algo, &inner)?;
    let mut outer: Vec<u8> = k.iter().map(|b| b ^ 0x5c).collect();
    outer.extend_from_slice(&ih);
    sha2_digest(algo, &outer)
}

// ---------------------------------------------------------------------------------------------
// ChaCha20-Poly1305 (RFC 8439)

fn quarter(s: &mut [u32; 16], a: usize, b: usize, c: usize, d: usize) {
    s[a] = s[a].wrapping_add(s[b]);
    s[d] = (s[d] ^ s[a]).rotate_left(16);
    s[c] = s[c].wrapping_add(s[d]);
    s[b] = (s[b] ^ s[c]).rotate_left(12);
    s[a] = s[a].wrapping_add(s[b]);
    s[d] = (s[d] ^ s[a]).rotate_left(8);
    s[c] = s[c].wrapping_add(s[d]);
    s[b] = (s[b] ^ s[c]).rotate_left(7);
}

pub fn chacha20_block(key: &[u8; 32], counter: u32, nonce: &[u8; 12]) -> [u8; 64] {
    let mut st = [0u32; 16];
    st[0] = 0x61707865;
    st[1] = 0x3320646e;
    st[2] = 0x79622d32;
    st[3] = 0x6b206574;
    for i in 0..8 {
        st[4 + i] = u32::from_le_bytes(key[i * 4..i * 4 + 4].try_into().unwrap());
    }
    st[12] = counter;
    for i in 0..3 {
        st[13 + i] = u32::from_le_bytes(nonce[i * 4..i * 4 + 4].try_into().unwrap());
    }
    let mut w = st;
    for _ in 0..10 {
        quarter(&mut w, 0, 4, 8, 12);
        quarter(&mut w, 1, 5, 9, 13);
        quarter(&mut w, 2, 6, 10, 14);
        quarter(&mut w, 3, 7, 11, 15);
        quarter(&mut w, 0, 5, 10, 15);
        quarter(&mut w, 1, 6, 11, 12);
        quarter(&mut w, 2, 7, 8, 13);
        quarter(&mut w, 3, 4, 9, 14);
    }
    let mut out = [0u8; 64];
    for i in 0..16 {
        out[i * 4..i * 4 + 4].copy_from_slice(&w[i].wrapping_add(st[i]).to_le_bytes());
    }
    out
}

fn le_ubig(bytes: &[u8]) -> UBig {
    UBig::from_le_bytes(bytes)
}

pub fn poly1305(msg: &[u8], key: &[u8; 32]) -> [u8; 16] {
    let mut rb = [0u8; 16];
    rb.copy_from_slice(&key[..16]);
    for i in [3, 7, 11, 15] {
        rb[i] &= 15;
    }
    for i in [4, 8, 12] {
        rb[i] &= 252;
    }
    let r = le_ubig(&rb);
    let s = le_ubig(&key[16..]);
    let p = (UBig::ONE << 130) - UBig::from(5u8);
    let mut acc = UBig::ZERO;
    for chunk in msg.chunks(16) {
        let mut b = chunk.to_vec();
        b.push(1);
        acc = ((acc + le_ubig(&b)) * &r) % &p;
    }
    let t = (acc + s) % (UBig::ONE << 128);
    let mut out = [0u8; 16];
    let le = t.to_le_bytes();
    out[..le.len()].copy_from_slice(&le);
    out
}

/// returns (ciphertext, tag)
pub fn chacha20poly1305_seal(key: &[u8; 32], nonce: &[u8; 12], aad: &[u8], plain: &[u8]) -> (Vec<u8>, [u8; 16]) {
    let b0 = chacha20_block(key, 0, nonce);
    let mut otk = [0u8; 32];
    otk.copy_from_slice(&b0[..32]);
    let mut ct = Vec::with_capacity(plain.len());
    for (i, chunk) in plain.chunks(64).enumerate() {
        let ks = chacha20_block(key, 1 + i as u32, nonce);
        for (j, b) in chunk.iter().enumerate() {
            ct.push(b ^ ks[j]);
        }
    }
    let mut mac = Vec::new();
    mac.extend_from_slice(aad);
    mac.resize(mac.len().div_ceil(16) * 16, 0);
    mac.extend_from_slice(&ct);
    mac.resize(mac.len().div_ceil(16) * 16, 0);
    mac.extend_from_slice(&(aad.len() as u64).to_le_bytes());
    mac.extend_from_slice(&(ct.len() as u64).to_le_bytes());
    let tag = poly1305(&mac, &otk);
    (ct, tag)
}

/// RFC 8439 section 2.8.2 test vector; panics (harness bug) when the reference is wrong.
pub fn self_test() {
    let key: [u8; 32] = core::array::from_fn(|i| 0x80 + i as u8);
    let nonce: [u8; 12] = [7, 0, 0, 0, 0x40, 0x41, 0x42, 0x43, 0x44, 0x45, 0x46, 0x47];
    let aad = [0x50, 0x51, 0x52, 0x53, 0xc0, 0xc1, 0xc2, 0xc3, 0xc4, 0xc5, 0xc6, 0xc7];
    let plain = b"Ladies and Gentlemen of the class of '99: If I could offer you only one tip for the future, sunscreen would be it.";
    let (ct, tag) = chacha20poly1305_seal(&key, &nonce, &aad, plain);
    assert_eq!(hex_lower(&ct[..16]), "d31a8d34648e60db7b86afbc53ef7ec2", "RFC 8439 2.8.2 ciphertext");
    assert_eq!(hex_lower(&tag), "1ae10b594f09e26a7e902ecbd0600691", "RFC 8439 2.8.2 tag");
    // RFC 4231 test case 2 (HMAC-SHA-256, key "Jefe")
    assert_eq!(hex_lower(&hmac_sha2("sha256", b"Jefe", b"what do ya want for nothing?").unwrap()), "5bdcc146bf60754e6a042426089575c75a003f089d2739839dec58b964ec3843");
    assert_eq!(base64(b"hello", true, false), "aGVsbG8=");
    assert_eq!(base64(&[0xfb, 0xff], false, true), "-_8");
}

// ---------------------------------------------------------------------------------------------
// python3 hashlib child (one process per environment, line protocol)

pub struct PyHash {
    child: Child,
    stdin: ChildStdin,
    stdout: BufReader<ChildStdout>,
}

const PY: &str = r#"
import sys, hashlib
for line in sys.stdin:
    a, h = line.split()
    d = b'' if h == '-' else bytes.fromhex(h)
    if a == 'blake2b512': x = hashlib.blake2b(d).hexdigest()
    elif a == 'blake2s256': x = hashlib.blake2s(d).hexdigest()
    else: x = hashlib.new(a, d).hexdigest()
    sys.stdout.write(x + '\n'); sys.stdout.flush()
"#;

impl PyHash {
    pub fn spawn() -> Option<PyHash> {
        let mut child = Command::new("python3").arg("-c").arg(PY).stdin(Stdio::piped()).stdout(Stdio::piped()).stderr(Stdio::null()).spawn().ok()?;
        let stdin = child.stdin.take()?;
        let stdout = BufReader::new(child.stdout.take()?);
        let mut p = PyHash { child, stdin, stdout };
        // every algorithm must be there and right on the empty / "abc" input
        let abc = p.digest("sha3_256", b"abc")?;
        if hex_lower(&abc) != "3a985da74fe225b2045c172d6bd390bd855f086e3e9d525b46bfe24511431532" {
            return None;
        }
        for a in ["sha3_224", "sha3_384", "sha3_512", "blake2s256", "blake2b512", "ripemd160", "sha256"] {
            p.digest(a, b"")?;
        }
        if hex_lower(&p.digest("ripemd160", b"abc")?) != "8eb208f7e05d987a9b044a8e98c6b087f15a0bfc" {
            return None;
        }
        Some(p)
    }

    pub fn digest(&mut self, algo: &str, data: &[u8]) -> Option<Vec<u8>> {
        let h = if data.is_empty() { "-".to_string() } else { hex_lower(data) };
        writeln!(self.stdin, "{algo} {h}").ok()?;
        self.stdin.flush().ok()?;
        let mut line = String::new();
        self.stdout.read_line(&mut line).ok()?;
        let line = line.trim();
        if line.is_empty() || line.len() % 2 != 0 {
            return None;
        }
        (0..line.len() / 2).map(|i| u8::from_str_radix(&line[2 * i..2 * i + 2], 16).ok()).collect()
    }
}

impl Drop for PyHash {
    fn drop(&mut self) {
        let _ = self.child.kill();
        let _ = self.child.wait();
    }
}
