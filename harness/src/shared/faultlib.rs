//! Common machinery of the fault-enumeration properties C30 (allocation failure) and C31
//! (interrupt): the workload catalogue (prolog/faults.pl), machine construction, a
//! panic-isolating "first answer" runner on the raw `Machine::run_query` API, a small printer
//! for answer terms, and the child-process line protocol.

use crate::session::{take_last_panic, Session};
use scryer_prolog::{LeafAnswer, Machine, Term};
use std::mem::ManuallyDrop;
use std::panic::{catch_unwind, AssertUnwindSafe};

pub const FAULTS_PL: &str = include_str!("../../prolog/faults.pl");

/// (name, expected result text, in the quick tier of C30, in the quick tier of C31)
pub struct Workload {
    pub name: &'static str,
    pub expected: &'static str,
    pub c30_quick: bool,
    pub c31_quick: bool,
    /// C31 only (no interesting allocation behaviour)
    pub c31_only: bool,
}

const fn w(name: &'static str, expected: &'static str, c30_quick: bool, c31_quick: bool, c31_only: bool) -> Workload {
    Workload { name, expected, c30_quick, c31_quick, c31_only }
}

/// Expected values are fixed by construction of the goals in faults.pl (sizes, sums, counts);
/// the harness additionally verifies them on an unfaulted machine before any injection.
pub const WORKLOADS: &[Workload] = &[
    w("build_deep", "ok(1500)", true, true, false),
    w("build_list", "ok(1125750)", true, false, false),
    w("copy_term", "ok(511,256)", true, true, false),
    w("findall", "ok(1200,820)", true, true, false),
    w("assertz", "ok(800,0)", true, true, false),
    w("atom_chars", "ok(1200,1200)", true, false, false),
    w("string_append", "ok(1281,x)", true, false, false),
    w("bignum", "ok(1909,same)", true, false, false),
    w("read_term", "ok(401,400)", true, true, false),
    w("sort", "ok(1,1200,1200,0)", true, false, false),
    w("length", "ok(3000)", true, false, false),
    w("format", "ok(1110,tail)", true, false, false),
    w("big_ball", "ok(1000)", true, true, false),
    w("bagof", "ok(5,11)", true, false, false),
    w("univ", "ok(251,251)", false, false, false),
    w("term_variables", "ok(511)", false, false, false),
    w("sub_atom", "ok(231,27)", false, false, false),
    w("freeze", "ok(60)", false, true, false),
    w("dif", "ok(refused)", false, false, false),
    w("copy_attr", "ok(100)", false, false, false),
    w("phrase", "ok(1500)", false, false, false),
    w("assoc", "ok(150,300)", false, false, false),
    w("foldl", "ok(500500)", false, false, false),
    w("atom_codes_many", "ok(300,v300)", false, false, false),
    w("assert_retract", "ok(200,0)", false, false, false),
    w("nested_findall", "ok(900)", false, false, false),
    w("reverse", "ok(2000)", false, false, false),
    w("big_strings", "ok(3000,'9')", false, false, false),
    w("string_sort", "ok(200,'800')", false, false, false),
    w("number_vars", "ok(255)", false, false, false),
    w("partial_string", "ok(1152)", false, false, false),
    w("error_context", "ok(atom)", false, false, false),
    w("write_chars", "ok(901)", false, false, false),
    w("setof_strings", "ok(100)", false, false, false),
    w("call_n", "ok(126750)", false, false, false),
    w("inference_limit", "ok(!,125250)", false, false, false),
    w("cleanup", "ok(320400,2)", false, true, false),
    w("fail_loop", "ok(150)", false, true, true),
    w("between_fail", "ok(60)", false, false, true),
    w("exceptions", "ok(100)", false, true, true),
    w("count_loop", "ok(3000)", false, false, true),
    w("naive_reverse", "ok(60)", false, false, true),
];

pub fn workload(name: &str) -> Option<&'static Workload> {
    WORKLOADS.iter().find(|w| w.name == name)
}

pub const BATTERY_EXPECTED: &str = "r(14,6,[1,b,c],1,shared,xyzxyz,db,10)";

/// A fresh machine with support.pl and faults.pl loaded.
pub fn mk_machine() -> Session {
    let mut s = Session::new(&[]);
    s.machine.consult_module_string("user", FAULTS_PL);
    match run_first(&mut s.machine, "vf_loaded(R).", &mut || {}, &mut || {}) {
        QOut::R(r) if r == "faults" => {}
        other => panic!("faults.pl failed to load: {other:?}"),
    }
    s
}

/// What the first `next()` of a query gave.
#[derive(Clone, Debug, PartialEq)]
pub enum QOut {
    /// the text of the binding of R
    R(String),
    True,
    False,
    /// `Err(term)`: an `error(_, _)` ball reached the top
    Err(String),
    /// `Ok(Exception(term))`: another ball reached the top
    Exc(String),
    /// iterator ended without any item
    End,
    /// Rust panic (normalised location + message); the machine must not be used again
    Panic(String),
}

impl QOut {
    pub fn short(&self) -> String {
        let s = format!("{self:?}");
        s.chars().take(200).collect()
    }
}

/// Runs `query` (fixed text ending in '.'), calling `pre` after the query has been set up
/// (parsed, written to the heap, stub choice point allocated) and before the first
/// `next()`, and `post` right after `next()` returned or panicked. After a panic the
/// QueryState is leaked rather than dropped (its Drop would run on a machine in an unknown
/// state and a second panic would abort the process).
pub fn run_first(machine: &mut Machine, query: &str, pre: &mut dyn FnMut(), post: &mut dyn FnMut()) -> QOut {
    let mut slot = Some(machine);
    let setup = catch_unwind(AssertUnwindSafe(move || {
        let m: &mut Machine = slot.take().unwrap();
        ManuallyDrop::new(m.run_query(query))
    }));
    let mut it = match setup {
        Ok(it) => it,
        Err(_) => return QOut::Panic(take_last_panic()),
    };
    pre();
    let a = catch_unwind(AssertUnwindSafe(|| it.next()));
    post();
    let a = match a {
        Ok(a) => a,
        Err(_) => return QOut::Panic(take_last_panic()),
    };
    let dropped = catch_unwind(AssertUnwindSafe(|| unsafe { ManuallyDrop::drop(&mut it) }));
    if dropped.is_err() {
        return QOut::Panic(take_last_panic());
    }
    match a {
        None => QOut::End,
        Some(Err(t)) => QOut::Err(term_text(&t)),
        Some(Ok(LeafAnswer::True)) => QOut::True,
        Some(Ok(LeafAnswer::False)) => QOut::False,
        Some(Ok(LeafAnswer::Exception(t))) => QOut::Exc(term_text(&t)),
        Some(Ok(LeafAnswer::LeafAnswer { bindings, .. })) => match bindings.get("R") {
            Some(t) => QOut::R(term_text(t)),
            None => QOut::True,
        },
    }
}

/// Like `run_first` but leaks the QueryState after the first answer so that the machine can be
/// inspected in mid-query state (heap not yet truncated). The machine is unusable afterwards.
pub fn run_first_and_freeze(machine: &mut Machine, query: &str, pre: &mut dyn FnMut()) -> QOut {
    let mut slot = Some(machine);
    let setup = catch_unwind(AssertUnwindSafe(move || {
        let m: &mut Machine = slot.take().unwrap();
        ManuallyDrop::new(m.run_query(query))
    }));
    let mut it = match setup {
        Ok(it) => it,
        Err(_) => return QOut::Panic(take_last_panic()),
    };
    pre();
    let a = catch_unwind(AssertUnwindSafe(|| it.next()));
    match a {
        Err(_) => QOut::Panic(take_last_panic()),
        Ok(None) => QOut::End,
        Ok(Some(Err(t))) => QOut::Err(term_text(&t)),
        Ok(Some(Ok(LeafAnswer::True))) => QOut::True,
        Ok(Some(Ok(LeafAnswer::False))) => QOut::False,
        Ok(Some(Ok(LeafAnswer::Exception(t)))) => QOut::Exc(term_text(&t)),
        Ok(Some(Ok(LeafAnswer::LeafAnswer { bindings, .. }))) => match bindings.get("R") {
            Some(t) => QOut::R(term_text(t)),
            None => QOut::True,
        },
    }
}

fn atom_text(a: &str) -> String {
    let plain = !a.is_empty()
        && a.chars().next().map(|c| c.is_ascii_lowercase()).unwrap_or(false)
        && a.chars().all(|c| c.is_ascii_alphanumeric() || c == '_');
    if plain || a == "[]" || a == "!" {
        a.to_string()
    } else {
        format!("'{}'", a.replace('\\', "\\\\").replace('\'', "\\'"))
    }
}

/// Compact functional-notation text of a (small) answer term. Strings print as "...".
pub fn term_text(t: &Term) -> String {
    match t {
        Term::Integer(i) => i.to_string(),
        Term::Rational(r) => format!("{r}"),
        Term::Float(f) => format!("{f:?}"),
        Term::Atom(a) => atom_text(a),
        Term::String(s) => format!("{s:?}"),
        Term::List(v) => format!("[{}]", v.iter().map(term_text).collect::<Vec<_>>().join(",")),
        Term::Compound(n, args) => format!("{}({})", atom_text(n), args.iter().map(term_text).collect::<Vec<_>>().join(",")),
        Term::Var(_) => "_".to_string(),
        _ => "?".to_string(),
    }
}

/// first whitespace-separated word of a panic text = normalised location
pub fn panic_loc(p: &str) -> String {
    p.split_whitespace().next().unwrap_or("?").to_string()
}

/// Control-state part of the footprint that must be the same on a recovered machine as on a
/// machine that never saw a fault, after the same sequence of completed queries.
/// like `control_state` but without the saved-ball stack (a stale saved ball is a leak, not a wrong answer)
pub fn control_state_no_ball_stack(m: &Machine) -> (String, usize) {
    let f = m.verif_footprint();
    (
        format!(
            "heap={} stack_top={} tr={} trail_len={} b={} block={} cont_pts={} cwil={} attr_queues={:?}",
            f.heap_cells, f.stack_top, f.tr, f.trail_len, f.b, f.block, f.cont_pts, f.cwil_depth, f.attr_var_queues
        ),
        f.ball_stack,
    )
}

pub fn control_state(m: &Machine) -> String {
    let f = m.verif_footprint();
    format!(
        "heap={} stack_top={} tr={} trail_len={} b={} block={} cont_pts={} ball_stack={} cwil={} attr_queues={:?}",
        f.heap_cells, f.stack_top, f.tr, f.trail_len, f.b, f.block, f.cont_pts, f.ball_stack, f.cwil_depth, f.attr_var_queues
    )
}
