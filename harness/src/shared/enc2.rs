//! Second-level decoding of the transport encoding.
//!
//! `Machine::run_query` converts the binding of *every* variable that occurs in the query text to
//! the public `Term` type, and that conversion panics on some shapes (partial lists with an atom
//! tail, see DESIGN §7 C28). Checks whose results are arbitrary terms (terms read from generated
//! text, error culprits) therefore keep all raw terms inside a helper predicate and hand out only
//! `vp_enc/2`'s ground encoding. `vp_run`/`vp_once` then encode that encoding once more; this
//! module turns the decoded outer level (a `T` that spells `c(..)`, `a(..)`, `l(..)`...) into the
//! term it stands for.
use crate::term::T;

fn items(t: &T) -> Result<Vec<T>, String> {
    match t.norm() {
        T::Atom(a) if a == "[]" => Ok(vec![]),
        T::PList(items, tail) if tail.is_nil() => Ok(items),
        other => Err(format!("enc2: not a proper list: {}", other.text().chars().take(60).collect::<String>())),
    }
}

fn codes(t: &T) -> Result<String, String> {
    let mut s = String::new();
    for it in items(t)? {
        match it {
            T::Int(i) => {
                let c = u32::try_from(&i).map_err(|_| "enc2: code out of range".to_string())?;
                s.push(char::from_u32(c).ok_or("enc2: bad code")?);
            }
            other => return Err(format!("enc2: non-integer code {}", other.text())),
        }
    }
    Ok(s)
}

/// Decode a `T` that holds the tagged encoding produced by `vp_enc/2`.
pub fn decode_t(t: &T) -> Result<T, String> {
    match t {
        T::Cmp(tag, args) => match (tag.as_str(), args.as_slice()) {
            ("v", [T::Int(n)]) => Ok(T::Var(u32::try_from(n).map_err(|_| "enc2: var index")?)),
            ("a", [cs]) => Ok(T::Atom(codes(cs)?)),
            ("i", [T::Int(n)]) => Ok(T::Int(n.clone())),
            ("f", [T::Float(f)]) => Ok(T::Float(*f)),
            ("r", [T::Int(n), T::Int(d)]) => Ok(T::Rat(n.clone(), d.clone())),
            ("l", [its, tail]) => {
                let mut out = vec![];
                for it in items(its)? {
                    out.push(decode_t(&it)?);
                }
                Ok(T::PList(out, Box::new(decode_t(tail)?)))
            }
            ("c", [name, as_]) => {
                let n = codes(name)?;
                let mut out = vec![];
                for it in items(as_)? {
                    out.push(decode_t(&it)?);
                }
                Ok(T::Cmp(n, out))
            }
            _ => Err(format!("enc2: unknown tag {tag}/{}", args.len())),
        },
        other => Err(format!("enc2: not a tagged term: {}", other.text().chars().take(60).collect::<String>())),
    }
}
