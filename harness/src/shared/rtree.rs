//! Rational-tree (term graph) reference algorithms: graph construction from `T`, rational-tree
//! unification (Huet style union-find), bisimulation (infinite-tree equality), finiteness,
//! variables in first-occurrence order, bounded unfolding, lazy standard-order comparison.
//! Plain, slow, obviously-correct code; used by C10 (unification oracle) and C24 (cyclic terms).
#![allow(dead_code)]

use crate::term::T;
use std::cmp::Ordering;
use std::collections::{HashMap, HashSet};

pub type Id = usize;

#[derive(Clone, Debug)]
pub enum N {
    /// unbound variable
    Var,
    /// atom / integer / rational / float (a `T` leaf)
    Atomic(T),
    /// compound; list cells are `Fn(".", [h, t])`
    Fn(String, Vec<Id>),
    /// bound variable or merged node
    Ref(Id),
}

#[derive(Clone, Debug, Default)]
pub struct G {
    pub nodes: Vec<N>,
}

/// equality of atomic leaves as unification / == see it: floats by value (0.0 equals -0.0 is
/// decided by the caller through `float_bits`), integers and rationals by value and kind
pub fn atomic_eq(a: &T, b: &T) -> bool {
    match (a, b) {
        (T::Atom(x), T::Atom(y)) => x == y,
        (T::Int(x), T::Int(y)) => x == y,
        (T::Rat(..), T::Rat(..)) => crate::num::cmp_exact(a, b) == Ordering::Equal,
        (T::Float(x), T::Float(y)) => x == y,
        _ => false,
    }
}

fn class_rank(n: &N) -> u8 {
    match n {
        N::Var => 0,
        N::Atomic(T::Float(_)) => 1,
        N::Atomic(T::Int(_)) | N::Atomic(T::Rat(..)) => 2,
        N::Atomic(_) => 3,
        N::Fn(..) => 4,
        N::Ref(_) => unreachable!(),
    }
}

/// result of the lazy pre-order comparison
#[derive(Clone, Debug, PartialEq)]
pub enum Cmp3 {
    /// walked both (finite unfoldings) completely: identical
    Equal,
    /// first pre-order difference decides
    Less,
    Greater,
    /// first pre-order difference is a pair of distinct variables (order not specified)
    Vars(Id, Id),
    /// step budget exhausted before a difference was found
    Unknown,
}

impl G {
    pub fn new() -> G {
        G { nodes: vec![] }
    }

    pub fn push(&mut self, n: N) -> Id {
        self.nodes.push(n);
        self.nodes.len() - 1
    }

    pub fn var(&mut self) -> Id {
        self.push(N::Var)
    }

    /// Add a finite term; `vars` maps T variable numbers to graph variables (shared between calls).
    pub fn add_term(&mut self, t: &T, vars: &mut HashMap<u32, Id>) -> Id {
        match t {
            T::Var(v) => {
                if let Some(id) = vars.get(v) {
                    *id
                } else {
                    let id = self.var();
                    vars.insert(*v, id);
                    id
                }
            }
            T::Atom(_) | T::Int(_) | T::Float(_) => self.push(N::Atomic(t.clone())),
            T::Rat(n, d) => {
                let (n, d) = crate::num::rat_norm(n.clone(), d.clone());
                self.push(N::Atomic(T::Rat(n, d)))
            }
            T::Str(s) => {
                let mut tail = self.push(N::Atomic(crate::term::nil()));
                for c in s.chars().rev() {
                    let h = self.push(N::Atomic(T::Atom(c.to_string())));
                    tail = self.push(N::Fn(".".into(), vec![h, tail]));
                }
                tail
            }
            T::PList(items, tail) => {
                let mut tl = self.add_term(tail, vars);
                // items must be added left to right for a natural numbering; collect first
                let ids: Vec<Id> = items.iter().map(|i| self.add_term(i, vars)).collect();
                for h in ids.into_iter().rev() {
                    tl = self.push(N::Fn(".".into(), vec![h, tl]));
                }
                tl
            }
            T::Cmp(n, args) => {
                let ids: Vec<Id> = args.iter().map(|a| self.add_term(a, vars)).collect();
                self.push(N::Fn(n.clone(), ids))
            }
        }
    }

    pub fn find(&self, mut id: Id) -> Id {
        while let N::Ref(n) = &self.nodes[id] {
            id = *n;
        }
        id
    }

    pub fn node(&self, id: Id) -> &N {
        &self.nodes[self.find(id)]
    }

    /// Rational-tree unification (destructive). Returns false when not unifiable; the graph is
    /// then in an unspecified partially merged state (clone before calling when needed).
    pub fn unify(&mut self, a: Id, b: Id) -> bool {
        let mut stack = vec![(a, b)];
        while let Some((x, y)) = stack.pop() {
            let (x, y) = (self.find(x), self.find(y));
            if x == y {
                continue;
            }
            match (self.nodes[x].clone(), self.nodes[y].clone()) {
                (N::Var, _) => self.nodes[x] = N::Ref(y),
                (_, N::Var) => self.nodes[y] = N::Ref(x),
                (N::Atomic(p), N::Atomic(q)) => {
                    if !atomic_eq(&p, &q) {
                        return false;
                    }
                }
                (N::Fn(n, aa), N::Fn(m, bb)) => {
                    if n != m || aa.len() != bb.len() {
                        return false;
                    }
                    // merge first so that cycles terminate
                    self.nodes[x] = N::Ref(y);
                    for (p, q) in aa.into_iter().zip(bb) {
                        stack.push((p, q));
                    }
                }
                _ => return false,
            }
        }
        true
    }

    /// Infinite-tree equality (`==`): variables are equal only to themselves.
    pub fn bisim(&self, a: Id, b: Id) -> bool {
        let mut assumed: HashSet<(Id, Id)> = HashSet::new();
        let mut stack = vec![(a, b)];
        while let Some((x, y)) = stack.pop() {
            let (x, y) = (self.find(x), self.find(y));
            if x == y || !assumed.insert((x, y)) {
                continue;
            }
            match (&self.nodes[x], &self.nodes[y]) {
                (N::Var, _) | (_, N::Var) => return false,
                (N::Atomic(p), N::Atomic(q)) => {
                    if !atomic_eq(p, q) {
                        return false;
                    }
                }
                (N::Fn(n, aa), N::Fn(m, bb)) => {
                    if n != m || aa.len() != bb.len() {
                        return false;
                    }
                    for (p, q) in aa.iter().zip(bb) {
                        stack.push((*p, *q));
                    }
                }
                _ => return false,
            }
        }
        true
    }

    /// Equality of the infinite trees up to a bijective renaming of variables (variant).
    pub fn variant(&self, a: Id, b: Id) -> bool {
        let mut assumed: HashSet<(Id, Id)> = HashSet::new();
        let mut fwd: HashMap<Id, Id> = HashMap::new();
        let mut bwd: HashMap<Id, Id> = HashMap::new();
        let mut stack = vec![(a, b)];
        while let Some((x, y)) = stack.pop() {
            let (x, y) = (self.find(x), self.find(y));
            if !assumed.insert((x, y)) {
                continue;
            }
            match (&self.nodes[x], &self.nodes[y]) {
                (N::Var, N::Var) => {
                    if *fwd.entry(x).or_insert(y) != y || *bwd.entry(y).or_insert(x) != x {
                        return false;
                    }
                }
                (N::Atomic(p), N::Atomic(q)) => {
                    if !atomic_eq(p, q) {
                        return false;
                    }
                }
                (N::Fn(n, aa), N::Fn(m, bb)) => {
                    if n != m || aa.len() != bb.len() {
                        return false;
                    }
                    for (p, q) in aa.iter().zip(bb) {
                        stack.push((*p, *q));
                    }
                }
                _ => return false,
            }
        }
        true
    }

    /// true iff no cycle is reachable from `a` (the term is finite)
    pub fn acyclic(&self, a: Id) -> bool {
        // iterative DFS with colours: 1 = on path, 2 = done
        let mut colour: HashMap<Id, u8> = HashMap::new();
        let mut stack: Vec<(Id, usize)> = vec![(self.find(a), 0)];
        colour.insert(self.find(a), 1);
        while let Some((x, i)) = stack.pop() {
            let kids: &[Id] = match &self.nodes[x] {
                N::Fn(_, k) => k,
                _ => &[],
            };
            if i < kids.len() {
                stack.push((x, i + 1));
                let c = self.find(kids[i]);
                match colour.get(&c) {
                    Some(1) => return false,
                    Some(_) => {}
                    None => {
                        colour.insert(c, 1);
                        stack.push((c, 0));
                    }
                }
            } else {
                colour.insert(x, 2);
            }
        }
        true
    }

    /// Variables in depth-first left-to-right first-occurrence order.
    pub fn vars(&self, a: Id) -> Vec<Id> {
        let mut seen: HashSet<Id> = HashSet::new();
        let mut out = vec![];
        let mut stack = vec![a];
        while let Some(x) = stack.pop() {
            let x = self.find(x);
            if !seen.insert(x) {
                continue;
            }
            match &self.nodes[x] {
                N::Var => out.push(x),
                N::Fn(_, k) => {
                    for c in k.iter().rev() {
                        stack.push(*c);
                    }
                }
                _ => {}
            }
        }
        out
    }

    pub fn ground(&self, a: Id) -> bool {
        self.vars(a).is_empty()
    }

    /// reachable node count (after dereferencing)
    pub fn size(&self, a: Id) -> usize {
        let mut seen: HashSet<Id> = HashSet::new();
        let mut stack = vec![a];
        while let Some(x) = stack.pop() {
            let x = self.find(x);
            if !seen.insert(x) {
                continue;
            }
            if let N::Fn(_, k) = &self.nodes[x] {
                stack.extend(k.iter().cloned());
            }
        }
        seen.len()
    }

    /// Extract a finite term (None when cyclic). Variables become `T::Var(node id)`.
    pub fn to_term(&self, a: Id) -> Option<T> {
        if !self.acyclic(a) {
            return None;
        }
        Some(self.unfold(a, usize::MAX).norm())
    }

    /// Unfolding to `depth` levels of compound nesting; deeper compounds become the atom `$cut`.
    /// List cells come out as `'.'(H,T)` compounds (callers normalise when the term is finite).
    pub fn unfold(&self, a: Id, depth: usize) -> T {
        let x = self.find(a);
        match &self.nodes[x] {
            N::Var => T::Var(x as u32),
            N::Atomic(t) => t.clone(),
            N::Fn(n, k) => {
                if depth == 0 {
                    T::Atom("$cut".into())
                } else {
                    T::Cmp(n.clone(), k.iter().map(|c| self.unfold(*c, depth - 1)).collect())
                }
            }
            N::Ref(_) => unreachable!(),
        }
    }

    /// Pre-order, left-to-right unfolding expanding at most `*k` compound nodes (the mirror of
    /// rt_encb/3 in tbuild.pl); a compound reached with no budget left becomes `$cut`.
    pub fn unfold_budget(&self, a: Id, k: &mut usize) -> T {
        let x = self.find(a);
        match &self.nodes[x] {
            N::Var => T::Var(x as u32),
            N::Atomic(t) => t.clone(),
            N::Fn(n, kids) => {
                if *k == 0 {
                    T::Atom("$cut".into())
                } else {
                    *k -= 1;
                    let mut out = Vec::with_capacity(kids.len());
                    for c in kids {
                        out.push(self.unfold_budget(*c, k));
                    }
                    T::Cmp(n.clone(), out)
                }
            }
            N::Ref(_) => unreachable!(),
        }
    }

    /// number of nodes of the unfolding to `depth` (saturating), to keep unfoldings small
    pub fn unfold_size(&self, a: Id, depth: usize, cap: usize) -> usize {
        let x = self.find(a);
        match &self.nodes[x] {
            N::Fn(_, k) if depth > 0 => {
                let mut s = 1usize;
                for c in k {
                    s = s.saturating_add(self.unfold_size(*c, depth - 1, cap));
                    if s > cap {
                        return s;
                    }
                }
                s
            }
            _ => 1,
        }
    }

    /// Lazy parallel pre-order walk of the two infinite trees, at most `budget` node pairs.
    /// Standard order: Var < Float < Integer/Rational < Atom < Compound; compounds by arity,
    /// name, then arguments left to right.
    pub fn cmp_lazy(&self, a: Id, b: Id, budget: usize) -> Cmp3 {
        let mut stack = vec![(a, b)];
        let mut steps = 0usize;
        while let Some((x, y)) = stack.pop() {
            steps += 1;
            if steps > budget {
                return Cmp3::Unknown;
            }
            let (x, y) = (self.find(x), self.find(y));
            if x == y {
                // the very same node: identical (possibly infinite) subtree, no difference inside
                continue;
            }
            let (nx, ny) = (&self.nodes[x], &self.nodes[y]);
            let (rx, ry) = (class_rank(nx), class_rank(ny));
            if rx != ry {
                return if rx < ry { Cmp3::Less } else { Cmp3::Greater };
            }
            let o = match (nx, ny) {
                (N::Var, N::Var) => {
                    if x == y {
                        Ordering::Equal
                    } else {
                        return Cmp3::Vars(x, y);
                    }
                }
                (N::Atomic(p), N::Atomic(q)) => crate::term::std_cmp(p, q),
                (N::Fn(n, aa), N::Fn(m, bb)) => {
                    let o = aa.len().cmp(&bb.len()).then_with(|| n.chars().cmp(m.chars()));
                    if o == Ordering::Equal {
                        for (p, q) in aa.iter().zip(bb).rev() {
                            stack.push((*p, *q));
                        }
                    }
                    o
                }
                _ => unreachable!(),
            };
            match o {
                Ordering::Less => return Cmp3::Less,
                Ordering::Greater => return Cmp3::Greater,
                Ordering::Equal => {}
            }
        }
        Cmp3::Equal
    }
}
