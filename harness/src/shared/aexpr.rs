//! Arithmetic expression trees shared by C02/C03/C04 (superset of props::c01::E).
#![allow(dead_code)]

use crate::term::{self, T};
use dashu::integer::IBig;
use serde::{Deserialize, Serialize};

#[derive(Clone, Debug, Serialize, Deserialize)]
pub enum A {
    /// integer literal
    I(#[serde(with = "term::ibig_serde")] IBig),
    /// the integer held as the result of bignum arithmetic: 2^70 - 2^70 + v
    Cloth(#[serde(with = "term::ibig_serde")] IBig),
    /// rational leaf, written as the evaluable term rdiv(N, D) (D >= 1)
    R(#[serde(with = "term::ibig_serde")] IBig, #[serde(with = "term::ibig_serde")] IBig),
    /// float literal (finite)
    F(#[serde(with = "term::f64_bits")] f64),
    /// an evaluable (or not) functor application; arity 0 = atom such as pi, e, epsilon, foo
    Op(String, Vec<A>),
    /// an arbitrary non-numeric leaf given as canonical Prolog text ("[1]", "\"a\"", "foo(1)")
    Raw(String),
    /// variable number k of the case (what it is bound to is decided by the property)
    Var(u8),
}

impl A {
    pub fn un(op: &str, a: A) -> A {
        A::Op(op.to_string(), vec![a])
    }
    pub fn bin(op: &str, a: A, b: A) -> A {
        A::Op(op.to_string(), vec![a, b])
    }
    pub fn text(&self) -> String {
        let mut s = String::new();
        self.write(&mut s);
        s
    }
    pub fn write(&self, out: &mut String) {
        match self {
            A::I(v) => out.push_str(&T::Int(v.clone()).text()),
            A::Cloth(v) => {
                out.push_str("'+'('-'(1180591620717411303424,1180591620717411303424),");
                out.push_str(&T::Int(v.clone()).text());
                out.push(')');
            }
            A::R(n, d) => {
                out.push_str("rdiv(");
                out.push_str(&T::Int(n.clone()).text());
                out.push(',');
                out.push_str(&T::Int(d.clone()).text());
                out.push(')');
            }
            A::F(f) => out.push_str(&T::Float(*f).text()),
            A::Op(name, args) => {
                out.push_str(&term::quote_atom(name));
                if !args.is_empty() {
                    out.push('(');
                    for (i, a) in args.iter().enumerate() {
                        if i > 0 {
                            out.push(',');
                        }
                        a.write(out);
                    }
                    out.push(')');
                }
            }
            A::Raw(t) => out.push_str(t),
            A::Var(k) => out.push_str(&format!("V{k}")),
        }
    }
    pub fn ops(&self) -> usize {
        match self {
            A::Op(_, args) => 1 + args.iter().map(|a| a.ops()).sum::<usize>(),
            _ => 0,
        }
    }
    pub fn depth(&self) -> usize {
        match self {
            A::Op(_, args) => 1 + args.iter().map(|a| a.depth()).max().unwrap_or(0),
            _ => 0,
        }
    }
    pub fn root(&self) -> String {
        match self {
            A::Op(n, args) => format!("{}/{}", n, args.len()),
            A::I(_) | A::Cloth(_) => "int".into(),
            A::R(..) => "rat".into(),
            A::F(_) => "float".into(),
            A::Raw(_) => "raw".into(),
            A::Var(_) => "var".into(),
        }
    }
    pub fn floats(&self, out: &mut Vec<f64>) {
        match self {
            A::F(f) => out.push(*f),
            A::Op(_, args) => args.iter().for_each(|a| a.floats(out)),
            _ => {}
        }
    }
    pub fn vars(&self, out: &mut Vec<u8>) {
        match self {
            A::Var(k) => {
                if !out.contains(k) {
                    out.push(*k)
                }
            }
            A::Op(_, args) => args.iter().for_each(|a| a.vars(out)),
            _ => {}
        }
    }
    pub fn leaves<'a>(&'a self, out: &mut Vec<&'a A>) {
        match self {
            A::Op(_, args) if !args.is_empty() => args.iter().for_each(|a| a.leaves(out)),
            other => out.push(other),
        }
    }
}

/// Remembers which float literals the machine's reader was seen to read back bit-exactly.
#[derive(Default)]
pub struct FloatEcho {
    pub ok: std::collections::HashSet<u64>,
    pub bad: std::collections::HashSet<u64>,
}

impl FloatEcho {
    /// true when every float in `fs` is (now) known to be read bit-exactly by this build
    pub fn verify(&mut self, s: &mut crate::session::Session, fs: &[f64]) -> bool {
        let mut all = true;
        for f in fs {
            let b = f.to_bits();
            if self.ok.contains(&b) {
                continue;
            }
            if self.bad.contains(&b) {
                all = false;
                continue;
            }
            let o = s.ask(&format!("X = {}", T::Float(*f).text()), "X");
            let good = matches!(&o, crate::session::Outcome::Sols(v) if v.len() == 1 && matches!(&v[0], T::Float(g) if g.to_bits() == b));
            if good {
                self.ok.insert(b);
            } else {
                self.bad.insert(b);
                all = false;
            }
        }
        all
    }
}
