//! Term builder: turns a `T` into a spec for `tb_build/2` (prolog/tbuild.pl), choosing the
//! constructor of every node pseudo-randomly from a seed (seed 0 = plain cons cells / =.. /
//! atom_codes everywhere), so that the same abstract term is realised in different heap
//! representations. The choice is a pure function of (term, seed).
#![allow(dead_code)]

use crate::term::T;
use std::collections::BTreeSet;
use std::fmt::Write as _;

pub const TBUILD_PL: &str = include_str!("../../prolog/tbuild.pl");

pub struct Rng(u64);

impl Rng {
    pub fn new(seed: u64) -> Rng {
        Rng(seed)
    }
    pub fn next(&mut self) -> u64 {
        self.0 = self.0.wrapping_add(0x9E3779B97F4A7C15);
        let mut z = self.0;
        z = (z ^ (z >> 30)).wrapping_mul(0xBF58476D1CE4E5B9);
        z = (z ^ (z >> 27)).wrapping_mul(0x94D049BB133111EB);
        z ^ (z >> 31)
    }
    pub fn below(&mut self, n: u64) -> u64 {
        self.next() % n.max(1)
    }
}

pub struct Builder {
    rng: Rng,
    plain: bool,
    pub ctors: BTreeSet<&'static str>,
}

fn codes(out: &mut String, s: &str) {
    out.push('[');
    for (i, c) in s.chars().enumerate() {
        if i > 0 {
            out.push(',');
        }
        write!(out, "{}", c as u32).unwrap();
    }
    out.push(']');
}

fn is_char_atom(t: &T) -> Option<char> {
    match t {
        T::Atom(a) => {
            let mut cs = a.chars();
            match (cs.next(), cs.next()) {
                (Some(c), None) => Some(c),
                _ => None,
            }
        }
        _ => None,
    }
}

fn has_rat(t: &T) -> bool {
    match t {
        T::Rat(..) => true,
        T::PList(items, tail) => items.iter().any(has_rat) || has_rat(tail),
        T::Cmp(_, args) => args.iter().any(has_rat),
        _ => false,
    }
}

impl Builder {
    pub fn new(seed: u64) -> Builder {
        Builder { rng: Rng::new(seed), plain: seed == 0, ctors: BTreeSet::new() }
    }

    fn chance(&mut self, num: u64, den: u64) -> bool {
        !self.plain && self.rng.below(den) < num
    }

    pub fn spec(&mut self, t: &T) -> String {
        let mut s = String::new();
        self.write(&t.norm(), &mut s);
        s
    }

    /// `[spec1,spec2,...]` for tb_builds/2 (variables shared)
    pub fn specs(&mut self, ts: &[&T]) -> String {
        let mut s = String::from("[");
        for (i, t) in ts.iter().enumerate() {
            if i > 0 {
                s.push(',');
            }
            self.write(&t.norm(), &mut s);
        }
        s.push(']');
        s
    }

    fn write(&mut self, t: &T, out: &mut String) {
        // copies of ground compound subterms
        let compound = matches!(t, T::PList(..) | T::Cmp(..));
        if compound && t.is_ground() && self.chance(1, 8) {
            let k = self.rng.below(4);
            if k == 3 && !has_rat(t) {
                self.ctors.insert("rd");
                out.push_str("rd(");
                codes(out, &format!("{} .", t.text()));
                out.push(')');
                return;
            }
            let (name, tag) = match k {
                0 => ("cp(", "cp"),
                1 => ("fa(", "fa"),
                _ => ("as(", "as"),
            };
            self.ctors.insert(tag);
            out.push_str(name);
            self.write_node(t, out);
            out.push(')');
            return;
        }
        self.write_node(t, out);
    }

    fn write_node(&mut self, t: &T, out: &mut String) {
        match t {
            T::Var(v) => write!(out, "v({v})").unwrap(),
            T::Int(i) => {
                if self.chance(1, 4) {
                    self.ctors.insert("ib");
                    write!(out, "ib({i})").unwrap()
                } else if self.chance(1, 6) {
                    self.ctors.insert("in");
                    out.push_str("in(");
                    codes(out, &i.to_string());
                    out.push(')');
                } else {
                    write!(out, "i({i})").unwrap()
                }
            }
            T::Rat(n, d) => {
                self.ctors.insert("rat");
                write!(out, "r({n},{d})").unwrap()
            }
            T::Float(f) => write!(out, "f({})", crate::term::write_float(*f)).unwrap(),
            T::Atom(a) => {
                if self.chance(1, 4) {
                    self.ctors.insert("ac");
                    out.push_str("ac(");
                } else {
                    out.push_str("a(");
                }
                codes(out, a);
                out.push(')');
            }
            T::Str(s) => {
                let items: Vec<T> = s.chars().map(|c| T::Atom(c.to_string())).collect();
                self.write_list(&items, &crate::term::nil(), out);
            }
            T::PList(items, tail) => self.write_list(items, tail, out),
            T::Cmp(n, args) => {
                if self.chance(1, 3) {
                    self.ctors.insert("cf");
                    out.push_str("cf(");
                } else {
                    out.push_str("c(");
                }
                codes(out, n);
                out.push_str(",[");
                for (i, a) in args.iter().enumerate() {
                    if i > 0 {
                        out.push(',');
                    }
                    self.write(a, out);
                }
                out.push_str("])");
            }
        }
    }

    fn write_list(&mut self, items: &[T], tail: &T, out: &mut String) {
        if items.is_empty() {
            self.write(tail, out);
            return;
        }
        let run = items.iter().take_while(|t| is_char_atom(t).is_some()).count();
        if run > 0 && self.chance(3, 5) {
            // a string segment of k chars
            let k = if self.chance(1, 2) { run } else { 1 + self.rng.below(run as u64) as usize };
            let text: String = items[..k].iter().map(|t| is_char_atom(t).unwrap()).collect();
            if k == items.len() && tail.is_nil() && self.chance(1, 2) {
                self.ctors.insert("sp");
                out.push_str("sp(");
                codes(out, &text);
                out.push(')');
                return;
            }
            if self.chance(1, 2) {
                self.ctors.insert("sq");
                out.push_str("sq(");
            } else {
                self.ctors.insert("sr");
                out.push_str("sr(");
            }
            if text.contains('\0') {
                self.ctors.insert("pstr-nul");
            }
            if k < items.len() || !tail.is_nil() {
                self.ctors.insert("pstr-tail");
            }
            codes(out, &text);
            out.push(',');
            self.write_list(&items[k..], tail, out);
            out.push(')');
            return;
        }
        if self.chance(1, 6) {
            // one cell through functor/3 or =..
            let tag = if self.chance(1, 2) { "cf(" } else { "c(" };
            self.ctors.insert("dot-functor");
            out.push_str(tag);
            out.push_str("[46],[");
            self.write(&items[0], out);
            out.push(',');
            self.write_list(&items[1..], tail, out);
            out.push_str("])");
            return;
        }
        // j leading items as cons cells
        let j = if self.plain || self.chance(2, 3) { items.len() } else { 1 + self.rng.below(items.len() as u64) as usize };
        // do not swallow the start of a later string run needlessly: fine either way
        out.push_str("l([");
        for (i, it) in items[..j].iter().enumerate() {
            if i > 0 {
                out.push(',');
            }
            self.write(it, out);
        }
        out.push_str("],");
        self.write_list(&items[j..], tail, out);
        out.push(')');
    }
}

/// Convenience: spec text and the constructor labels used.
pub fn spec(t: &T, seed: u64) -> (String, BTreeSet<&'static str>) {
    let mut b = Builder::new(seed);
    let s = b.spec(t);
    (s, b.ctors)
}

fn t_list(t: &T) -> Option<Vec<T>> {
    match t.norm() {
        T::Atom(a) if a == "[]" => Some(vec![]),
        T::PList(items, tail) if tail.is_nil() => Some(items),
        _ => None,
    }
}

fn t_codes(t: &T) -> Result<String, String> {
    let items = t_list(t).ok_or_else(|| format!("codes: not a list {}", t.text()))?;
    let mut s = String::new();
    for it in items {
        match it {
            T::Int(i) => {
                let c = u32::try_from(&i).map_err(|_| "code range".to_string())?;
                s.push(char::from_u32(c).ok_or("bad code")?);
            }
            other => return Err(format!("codes: non-integer {}", other.text())),
        }
    }
    Ok(s)
}

/// Decode a tagged encoding (as produced by vp_enc / rt_enc inside Prolog) that itself came
/// back through the transport as a `T`.
pub fn dec_enc_t(t: &T) -> Result<T, String> {
    match t {
        T::Cmp(tag, args) => match (tag.as_str(), args.as_slice()) {
            ("v", [T::Int(n)]) => Ok(T::Var(u32::try_from(n).map_err(|_| "var idx")?)),
            ("i", [T::Int(n)]) => Ok(T::Int(n.clone())),
            ("f", [T::Float(f)]) => Ok(T::Float(*f)),
            ("r", [T::Int(n), T::Int(d)]) => Ok(T::Rat(n.clone(), d.clone())),
            ("a", [cs]) => Ok(T::Atom(t_codes(cs)?)),
            ("c", [name, args]) => {
                let n = t_codes(name)?;
                let its = t_list(args).ok_or("c: args not a list")?;
                let mut out = vec![];
                for it in &its {
                    out.push(dec_enc_t(it)?);
                }
                Ok(T::Cmp(n, out))
            }
            ("l", [items, tail]) => {
                let its = t_list(items).ok_or("l: items not a list")?;
                let mut out = vec![];
                for it in &its {
                    out.push(dec_enc_t(it)?);
                }
                Ok(T::PList(out, Box::new(dec_enc_t(tail)?)))
            }
            _ => Err(format!("dec_enc_t: unknown tag {tag}/{}", args.len())),
        },
        other => Err(format!("dec_enc_t: not tagged: {}", other.text())),
    }
}

/// -0.0 -> 0.0 everywhere (unification, == and compare/3 treat them as the same float)
pub fn canon_zero(t: &T) -> T {
    match t {
        T::Float(f) if *f == 0.0 => T::Float(0.0),
        T::PList(items, tail) => T::PList(items.iter().map(canon_zero).collect(), Box::new(canon_zero(tail))),
        T::Cmp(n, args) => T::Cmp(n.clone(), args.iter().map(canon_zero).collect()),
        other => other.clone(),
    }
}

/// rationals as `'$rat'(N,D)` compounds (what rt_unfold/3 returns for them)
pub fn rat_as_cmp(t: &T) -> T {
    match t {
        T::Rat(n, d) => {
            let (n, d) = crate::num::rat_norm(n.clone(), d.clone());
            T::Cmp("$rat".into(), vec![T::Int(n), T::Int(d)])
        }
        T::PList(items, tail) => T::PList(items.iter().map(rat_as_cmp).collect(), Box::new(rat_as_cmp(tail))),
        T::Cmp(n, args) => T::Cmp(n.clone(), args.iter().map(rat_as_cmp).collect()),
        other => other.clone(),
    }
}

/// simultaneous (one pass) substitution
pub fn subst1(t: &T, s: &std::collections::HashMap<u32, T>) -> T {
    match t {
        T::Var(v) => s.get(v).cloned().unwrap_or_else(|| t.clone()),
        T::PList(items, tail) => T::PList(items.iter().map(|x| subst1(x, s)).collect(), Box::new(subst1(tail, s))),
        T::Cmp(n, args) => T::Cmp(n.clone(), args.iter().map(|x| subst1(x, s)).collect()),
        other => other.clone(),
    }
}

/// A session with support.pl, tbuild.pl and extra helper text loaded.
pub fn session_with(libs: &[&str], extra: &[&str]) -> crate::session::Session {
    let mut s = crate::session::Session::new(libs);
    s.machine.consult_module_string("user", TBUILD_PL);
    for e in extra {
        s.machine.consult_module_string("user", *e);
    }
    let o = s.ask("tb_loaded(X)", "X");
    assert!(matches!(o, crate::session::Outcome::Sols(ref v) if v.len() == 1), "tbuild.pl failed to load: {}", o.short());
    s.log.clear();
    s
}
