//! Tiny Prolog text reader for the harness's own fixed texts (unit tests, hand-written programs
//! for the reference interpreter). NOT a model of scryer's reader: plain subset only
//! (atoms, quoted atoms without escapes other than '' and \\, variables, decimal integers,
//! compounds, lists, parentheses, the standard operator table without user operators).
//!
//! API: `parse_term(text) -> Result<T, String>` (one term, optional final '.'),
//!      `parse_clauses(text) -> Result<Vec<T>, String>` (a sequence of '.'-terminated terms;
//!      variables are numbered per clause in first-occurrence order, `_` is always fresh).
#![allow(dead_code)]
use crate::term::{nil, T};
use dashu::integer::IBig;
use std::collections::HashMap;

#[derive(Clone, Debug, PartialEq)]
enum Tok {
    Atom(String),
    QAtom(String),
    Var(String),
    Int(IBig),
    Punct(char), // ( ) [ ] { } , |
    End,
}

struct Lexed {
    tok: Tok,
    layout_before: bool,
}

const SYMCH: &str = "+-*/\\^<>=~:.?@#&$";

fn lex(text: &str) -> Result<Vec<Lexed>, String> {
    let cs: Vec<char> = text.chars().collect();
    let mut i = 0;
    let mut out = vec![];
    let mut layout = true;
    while i < cs.len() {
        let c = cs[i];
        if c.is_whitespace() {
            layout = true;
            i += 1;
            continue;
        }
        if c == '%' {
            while i < cs.len() && cs[i] != '\n' {
                i += 1;
            }
            layout = true;
            continue;
        }
        let tok = if c.is_ascii_digit() {
            let s = i;
            while i < cs.len() && cs[i].is_ascii_digit() {
                i += 1;
            }
            Tok::Int(cs[s..i].iter().collect::<String>().parse::<IBig>().map_err(|e| e.to_string())?)
        } else if c == '_' || c.is_ascii_uppercase() {
            let s = i;
            while i < cs.len() && (cs[i].is_ascii_alphanumeric() || cs[i] == '_') {
                i += 1;
            }
            Tok::Var(cs[s..i].iter().collect())
        } else if c.is_ascii_lowercase() {
            let s = i;
            while i < cs.len() && (cs[i].is_ascii_alphanumeric() || cs[i] == '_') {
                i += 1;
            }
            Tok::Atom(cs[s..i].iter().collect())
        } else if c == '\'' {
            i += 1;
            let mut s = String::new();
            loop {
                if i >= cs.len() {
                    return Err("unterminated quoted atom".into());
                }
                if cs[i] == '\'' {
                    if i + 1 < cs.len() && cs[i + 1] == '\'' {
                        s.push('\'');
                        i += 2;
                        continue;
                    }
                    i += 1;
                    break;
                }
                if cs[i] == '\\' && i + 1 < cs.len() {
                    s.push(cs[i + 1]);
                    i += 2;
                    continue;
                }
                s.push(cs[i]);
                i += 1;
            }
            Tok::QAtom(s)
        } else if "()[]{},|".contains(c) {
            i += 1;
            Tok::Punct(c)
        } else if c == '!' || c == ';' {
            i += 1;
            Tok::Atom(c.to_string())
        } else if SYMCH.contains(c) {
            let s = i;
            while i < cs.len() && SYMCH.contains(cs[i]) {
                i += 1;
            }
            let a: String = cs[s..i].iter().collect();
            if a == "." && (i >= cs.len() || cs[i].is_whitespace() || cs[i] == '%') {
                Tok::End
            } else {
                Tok::Atom(a)
            }
        } else {
            return Err(format!("unexpected character {c:?}"));
        };
        out.push(Lexed { tok, layout_before: layout });
        layout = false;
    }
    Ok(out)
}

#[derive(Clone, Copy, PartialEq)]
enum Ty {
    Xfx,
    Xfy,
    Yfx,
    Fy,
    Fx,
}

fn infix_op(a: &str) -> Option<(u32, Ty)> {
    Some(match a {
        ":-" | "-->" => (1200, Ty::Xfx),
        ";" => (1100, Ty::Xfy),
        "->" | "*->" => (1050, Ty::Xfy),
        "," => (1000, Ty::Xfy),
        "=" | "\\=" | "==" | "\\==" | "@<" | "@>" | "@=<" | "@>=" | "is" | "=:=" | "=\\=" | "<" | ">" | "=<" | ">=" | "=.." => (700, Ty::Xfx),
        ":" => (200, Ty::Xfy),
        "+" | "-" | "/\\" | "\\/" | "xor" => (500, Ty::Yfx),
        "*" | "/" | "//" | "mod" | "rem" | "div" | "<<" | ">>" | "rdiv" => (400, Ty::Yfx),
        "**" => (200, Ty::Xfx),
        "^" => (200, Ty::Xfy),
        _ => return None,
    })
}

fn prefix_op(a: &str) -> Option<(u32, Ty)> {
    Some(match a {
        ":-" | "?-" => (1200, Ty::Fx),
        "dynamic" | "discontiguous" => (1150, Ty::Fx),
        "\\+" => (900, Ty::Fy),
        "-" | "+" | "\\" => (200, Ty::Fy),
        _ => return None,
    })
}

struct Parser {
    toks: Vec<Lexed>,
    pos: usize,
    vars: HashMap<String, u32>,
    next_var: u32,
}

impl Parser {
    fn peek(&self) -> Option<&Tok> {
        self.toks.get(self.pos).map(|l| &l.tok)
    }
    fn peek_layout(&self) -> bool {
        self.toks.get(self.pos).map(|l| l.layout_before).unwrap_or(true)
    }
    fn next(&mut self) -> Option<Tok> {
        let t = self.toks.get(self.pos).map(|l| l.tok.clone());
        self.pos += 1;
        t
    }
    fn expect(&mut self, c: char) -> Result<(), String> {
        match self.next() {
            Some(Tok::Punct(d)) if d == c => Ok(()),
            other => Err(format!("expected {c:?}, got {other:?}")),
        }
    }
    fn var(&mut self, name: &str) -> T {
        if name == "_" {
            let v = self.next_var;
            self.next_var += 1;
            return T::Var(v);
        }
        if let Some(v) = self.vars.get(name) {
            return T::Var(*v);
        }
        let v = self.next_var;
        self.next_var += 1;
        self.vars.insert(name.to_string(), v);
        T::Var(v)
    }
    fn term_start(&self) -> bool {
        match self.peek() {
            None | Some(Tok::End) => false,
            Some(Tok::Punct(c)) => matches!(c, '(' | '[' | '{'),
            Some(Tok::Atom(a)) => infix_op(a).is_none() || prefix_op(a).is_some(),
            _ => true,
        }
    }
    fn arglist(&mut self) -> Result<Vec<T>, String> {
        let mut args = vec![self.parse(999)?];
        loop {
            match self.next() {
                Some(Tok::Punct(',')) => args.push(self.parse(999)?),
                Some(Tok::Punct(')')) => return Ok(args),
                other => return Err(format!("expected , or ) in arguments, got {other:?}")),
            }
        }
    }
    fn primary(&mut self, max: u32) -> Result<(T, u32), String> {
        let t = self.next().ok_or("unexpected end of text")?;
        match t {
            Tok::Int(i) => Ok((T::Int(i), 0)),
            Tok::Var(n) => Ok((self.var(&n), 0)),
            Tok::Punct('(') => {
                let t = self.parse(1200)?;
                self.expect(')')?;
                Ok((t, 0))
            }
            Tok::Punct('[') => {
                if self.peek() == Some(&Tok::Punct(']')) {
                    self.next();
                    return self.after_atom("[]".into(), false, max);
                }
                let mut items = vec![self.parse(999)?];
                let mut tail = nil();
                loop {
                    match self.next() {
                        Some(Tok::Punct(',')) => items.push(self.parse(999)?),
                        Some(Tok::Punct('|')) => {
                            tail = self.parse(999)?;
                            self.expect(']')?;
                            break;
                        }
                        Some(Tok::Punct(']')) => break,
                        other => return Err(format!("bad list syntax at {other:?}")),
                    }
                }
                Ok((T::PList(items, Box::new(tail)), 0))
            }
            Tok::Punct('{') => {
                self.expect('}')?;
                Ok((T::Atom("{}".into()), 0))
            }
            Tok::QAtom(a) => self.after_atom(a, true, max),
            Tok::Atom(a) => self.after_atom(a, false, max),
            other => Err(format!("unexpected token {other:?}")),
        }
    }
    fn after_atom(&mut self, a: String, quoted: bool, max: u32) -> Result<(T, u32), String> {
        if self.peek() == Some(&Tok::Punct('(')) && !self.peek_layout() {
            self.next();
            let args = self.arglist()?;
            return Ok((T::Cmp(a, args), 0));
        }
        if !quoted {
            if a == "-" || a == "+" {
                if let Some(Tok::Int(i)) = self.peek().cloned() {
                    if !self.peek_layout() {
                        self.next();
                        return Ok((T::Int(if a == "-" { -i } else { i }), 0));
                    }
                }
            }
            if let Some((p, ty)) = prefix_op(&a) {
                if self.term_start() {
                    let p = p.min(max.max(p)); // accept; priority clash is not policed
                    let amax = if ty == Ty::Fy { p } else { p - 1 };
                    let (arg, _) = self.parse_p(amax)?;
                    return Ok((T::Cmp(a, vec![arg]), p));
                }
            }
        }
        Ok((T::Atom(a), 0))
    }
    fn parse(&mut self, max: u32) -> Result<T, String> {
        Ok(self.parse_p(max)?.0)
    }
    fn parse_p(&mut self, max: u32) -> Result<(T, u32), String> {
        let (mut left, mut lp) = self.primary(max)?;
        loop {
            let name = match self.peek() {
                Some(Tok::Atom(a)) => a.clone(),
                Some(Tok::Punct(',')) => ",".to_string(),
                Some(Tok::Punct('|')) => {
                    if max >= 1100 {
                        ";".to_string()
                    } else {
                        break;
                    }
                }
                _ => break,
            };
            let Some((p, ty)) = infix_op(&name) else { break };
            if p > max {
                break;
            }
            let (lmax, rmax) = match ty {
                Ty::Xfx => (p - 1, p - 1),
                Ty::Xfy => (p - 1, p),
                _ => (p, p - 1),
            };
            if lp > lmax {
                break;
            }
            self.next();
            let (right, _) = self.parse_p(rmax)?;
            left = T::Cmp(name, vec![left, right]);
            lp = p;
        }
        Ok((left, lp))
    }
}

/// Parse one term; an optional final `.` is accepted.
pub fn parse_term(text: &str) -> Result<T, String> {
    let toks = lex(text)?;
    let mut p = Parser { toks, pos: 0, vars: HashMap::new(), next_var: 0 };
    let t = p.parse(1200)?;
    match p.next() {
        None | Some(Tok::End) => Ok(t),
        other => Err(format!("trailing input at {other:?}")),
    }
}

/// Parse a sequence of `.`-terminated clauses / directives.
pub fn parse_clauses(text: &str) -> Result<Vec<T>, String> {
    let toks = lex(text)?;
    let mut p = Parser { toks, pos: 0, vars: HashMap::new(), next_var: 0 };
    let mut out = vec![];
    while p.peek().is_some() {
        p.vars.clear();
        p.next_var = 0;
        let t = p.parse(1200)?;
        match p.next() {
            Some(Tok::End) => out.push(t),
            other => return Err(format!("expected end of clause, got {other:?} after {}", t.text())),
        }
    }
    Ok(out)
}

#[cfg(test)]
mod tests {
    use super::*;
    #[test]
    fn plparse_basic() {
        assert_eq!(parse_term("foo(X, Y, X)").unwrap().text(), "foo(V0,V1,V0)");
        assert_eq!(parse_term("a :- b, c ; d -> e").unwrap().text(), "':-'(a,';'(','(b,c),'->'(d,e)))");
        assert_eq!(parse_term("X is 1 + 2 * 3 - -4").unwrap().text(), "'is'(V0,'-'('+'(1,'*'(2,3)),-4))");
        assert_eq!(parse_term("\\+ a, [1,2|T] = L").unwrap().text(), "','('\\\\+'(a),'='([1,2|V0],V1))");
        assert_eq!(parse_clauses("p(1). p(X) :- q(X), !.\n:- dynamic(r/1).").unwrap().len(), 3);
        assert_eq!(parse_term("- X").unwrap().text(), "'-'(V0)");
        assert_eq!(parse_term("a - 1").unwrap().text(), "'-'(a,1)");
        assert_eq!(parse_term("f(;, '|', [])").unwrap().text(), "f(';','|',[])");
        assert_eq!(parse_term("(a , b)").unwrap().text(), "','(a,b)");
    }
}
