//! Exact numeric values (integer / rational / binary64) and correctly rounded conversions,
//! independent of scryer's arithmetic and of dashu's own float conversions.
#![allow(dead_code)]

use crate::num::*;
use crate::term::{self, T};
use dashu::base::{BitTest, UnsignedAbs};
use dashu::integer::IBig;
use serde::{Deserialize, Serialize};
use std::cmp::Ordering;

/// A numeric value of the model. `Rat` is in lowest terms with denominator >= 1.
#[derive(Clone, Debug, Serialize, Deserialize)]
pub enum V {
    Int(#[serde(with = "term::ibig_serde")] IBig),
    Rat(#[serde(with = "term::ibig_serde")] IBig, #[serde(with = "term::ibig_serde")] IBig),
    F(#[serde(with = "term::f64_bits")] f64),
}

impl V {
    /// a rational-typed value (lowest terms, denominator >= 1; n/1 stays rational-typed: the
    /// machine does not turn integral rationals into integers)
    pub fn rat(n: IBig, d: IBig) -> V {
        let (n, d) = rat_norm(n, d);
        V::Rat(n, d)
    }
    pub fn is_exact(&self) -> bool {
        !matches!(self, V::F(_))
    }
    /// numerator / denominator of an exact value
    pub fn frac(&self) -> (IBig, IBig) {
        match self {
            V::Int(i) => (i.clone(), IBig::ONE),
            V::Rat(n, d) => (n.clone(), d.clone()),
            V::F(_) => panic!("frac of float"),
        }
    }
    pub fn is_zero(&self) -> bool {
        match self {
            V::Int(i) => *i == IBig::ZERO,
            V::Rat(n, _) => *n == IBig::ZERO,
            V::F(f) => *f == 0.0,
        }
    }
    /// strictly negative (−0.0 is not negative)
    pub fn is_neg(&self) -> bool {
        match self {
            V::Int(i) => is_neg(i),
            V::Rat(n, _) => is_neg(n),
            V::F(f) => *f < 0.0,
        }
    }
    pub fn show(&self) -> String {
        match self {
            V::Int(i) => format!("{i}"),
            V::Rat(n, d) => format!("{n} rdiv {d}"),
            V::F(f) => format!("{} [bits {:016x}]", term::write_float(*f), f.to_bits()),
        }
    }
    pub fn kind(&self) -> &'static str {
        match self {
            V::Int(i) => {
                if bit_len(i) > 55 || *i == -ipow2(55) - IBig::ONE {
                    "bigint"
                } else {
                    "smallint"
                }
            }
            V::Rat(..) => "rational",
            V::F(_) => "float",
        }
    }
    /// Does the term returned by the machine denote exactly this value with the same type?
    /// Floats: bit-identical, except that the two zeros are interchangeable (the sign of a
    /// zero result is not claimed). An exact value with denominator 1 may come back as an
    /// integer or as a rational n/1 (the statement is silent on rational normalisation)
    /// when `lenient_rat` is set.
    pub fn matches(&self, t: &T, lenient_rat: bool) -> bool {
        match (self, t) {
            (V::Int(i), T::Int(j)) => i == j,
            (V::Int(i), T::Rat(n, d)) => lenient_rat && *d == IBig::ONE && n == i,
            (V::Rat(n, d), T::Int(i)) => *d == IBig::ONE && n == i,
            (V::Rat(n, d), T::Rat(n2, d2)) => {
                let (a, b) = rat_norm(n2.clone(), d2.clone());
                *n == a && *d == b
            }
            (V::F(f), T::Float(g)) => f.to_bits() == g.to_bits() || (*f == 0.0 && *g == 0.0),
            _ => false,
        }
    }
    pub fn from_t(t: &T) -> Option<V> {
        match t {
            T::Int(i) => Some(V::Int(i.clone())),
            T::Rat(n, d) if *d != IBig::ZERO => Some(V::rat(n.clone(), d.clone())),
            T::Float(f) => Some(V::F(*f)),
            _ => None,
        }
    }
}

fn pow2_f64(e: i32) -> f64 {
    assert!((-1022..=1023).contains(&e));
    f64::from_bits(((e + 1023) as u64) << 52)
}

/// q * 2^e for an integer 0 <= q <= 2^53 when the result is known to be exactly representable.
fn scale_exact(q: u64, e: i64) -> f64 {
    let mut f = q as f64;
    let mut e = e;
    while e < -1000 {
        f *= pow2_f64(-1000);
        e += 1000;
    }
    while e > 900 {
        f *= pow2_f64(900);
        e -= 900;
    }
    f * pow2_f64(e as i32)
}

/// Correctly rounded (nearest, ties to even) binary64 value of n/d (d > 0). `None` = the
/// rounded value is not finite (overflow). Underflow gives a subnormal or zero, as IEEE does.
pub fn rat_to_f64(n: &IBig, d: &IBig) -> Option<f64> {
    assert!(*d > IBig::ZERO);
    if *n == IBig::ZERO {
        return Some(0.0);
    }
    let neg = is_neg(n);
    let a = iabs(n);
    let la = bit_len(&a) as i64;
    let ld = bit_len(d) as i64;
    // a/d lies in (2^(la-ld-1), 2^(la-ld+1)); start with the exponent that gives 53 or 54 bits
    let mut e = la - ld - 53;
    let mut tries = 0;
    loop {
        tries += 1;
        assert!(tries < 4, "rat_to_f64 does not converge");
        if e < -1074 {
            e = -1074;
        }
        let (num, den) = if e >= 0 { (a.clone(), d << (e as usize)) } else { (&a << ((-e) as usize), d.clone()) };
        let q = &num / &den;
        let r = &num - &q * &den;
        if bit_len(&q) > 53 {
            // too many bits: a coarser exponent (cannot happen twice)
            e += 1;
            continue;
        }
        // q < 2^53; round to nearest even on the remainder
        let mut qv: u64 = u64::try_from(&q).unwrap();
        let twice = &r + &r;
        match twice.cmp(&den) {
            Ordering::Greater => qv += 1,
            Ordering::Equal => {
                if qv & 1 == 1 {
                    qv += 1
                }
            }
            Ordering::Less => {}
        }
        // qv <= 2^53
        let top = 64 - qv.leading_zeros() as i64; // bit length
        if qv != 0 && top + e > 1024 {
            return None;
        }
        let f = scale_exact(qv, e);
        if !f.is_finite() {
            return None;
        }
        return Some(if neg { -f } else { f });
    }
}

// ---------------------------------------------------------------------------------------------
// Faithful ports of the conversions in dashu 0.4.2 (the bignum crate scryer links), including
// their rounding defects. They are NEVER used as the expected value: a result that disagrees
// with the correctly rounded reference is re-judged against these to decide whether the
// mismatch is the already known conversion defect or something new.

fn dashu_round_to_even_adjustment(bits: u8) -> bool {
    bits >= 0b110 || bits == 0b011
}

/// dashu-base 0.4.2 `<f64 as FloatEncoding>::encode`. Its normal-range branch builds the
/// sticky bit from `mantissa & 0x3ff` although 11 bits lie below the round bit, so the bit
/// directly below the round bit is ignored.
pub fn dashu_encode_f64(mantissa: i64, exponent: i16) -> f64 {
    if mantissa == 0 {
        return 0.0;
    }
    let sign = (mantissa < 0) as u64;
    let mut mantissa = mantissa.unsigned_abs();
    let zeros = mantissa.leading_zeros();
    let top_bit = (u64::BITS - zeros) as i16 + exponent;
    if top_bit > 1024 {
        return if sign == 0 { f64::INFINITY } else { f64::NEG_INFINITY };
    } else if top_bit < -1022 - 52 {
        return if sign == 0 { 0.0 } else { -0.0 };
    }
    let bits;
    let round_bits;
    if top_bit <= -1022 {
        let shift = exponent + 1022 + 52;
        if shift >= 0 {
            round_bits = 0;
            mantissa = mantissa.wrapping_shl(shift as u32);
        } else {
            let shifted = mantissa.wrapping_shl((62 + shift) as u32);
            round_bits = ((shifted >> 60) & 0b110) as u8 | ((shifted & 0xfffffffffffffff) != 0) as u8;
            mantissa = mantissa.checked_shr((-shift) as u32).unwrap_or(0);
        }
        bits = (sign << 63) | mantissa;
    } else {
        if mantissa == 1 {
            mantissa = 0;
        } else {
            mantissa = mantissa.wrapping_shl(zeros + 1);
        }
        let exponent = (exponent + 1023 + u64::BITS as i16) as u64 - zeros as u64 - 1;
        bits = (sign << 63) | (exponent << 52) | (mantissa >> 12);
        round_bits = ((mantissa >> 10) & 0b110) as u8 | ((mantissa & 0x3ff) != 0) as u8;
    }
    if round_bits & 0b11 == 0 {
        f64::from_bits(bits)
    } else if dashu_round_to_even_adjustment(round_bits) {
        f64::from_bits(bits + 1)
    } else {
        f64::from_bits(bits)
    }
}

/// dashu-int 0.4.2 `IBig::to_f64` (may return an infinity)
pub fn dashu_ibig_to_f64(a: &IBig) -> f64 {
    let neg = is_neg(a);
    let m = a.clone().unsigned_abs();
    let n = m.bit_len();
    let f = if n <= 128 {
        let v: u128 = u128::try_from(&m).unwrap();
        v as f64
    } else if n > 1024 {
        f64::INFINITY
    } else {
        let top_u63: u64 = u64::try_from(&(&m >> (n - 63))).unwrap();
        let low_mask = (dashu::integer::UBig::ONE << (n - 63)) - dashu::integer::UBig::ONE;
        let extra_bit = ((&m & low_mask) != dashu::integer::UBig::ZERO) as u64;
        dashu_encode_f64((top_u63 | extra_bit) as i64, (n - 63) as i16)
    };
    if neg {
        -f
    } else {
        f
    }
}

/// dashu-ratio 0.4.2 `RBig::to_f64` (numerator n, denominator d > 0 in lowest terms): the
/// quotient is rounded to 53 *or 54* bits and then rounded again by `encode` (double
/// rounding), and anything below 2^-1127 * 2^53 is flushed to zero before looking at it.
pub fn dashu_rbig_to_f64(n: &IBig, d: &IBig) -> f64 {
    assert!(*d > IBig::ZERO);
    if *n == IBig::ZERO {
        return 0.0;
    }
    let neg = is_neg(n);
    let sign = if neg { -1.0 } else { 1.0 };
    let a = iabs(n);
    let shift = bit_len(&a) as i64 - bit_len(d) as i64 - 53;
    if shift >= 1024 {
        return sign * f64::INFINITY;
    } else if shift < -1074 - 53 {
        return sign * 0.0;
    }
    let (num, den) = if shift >= 0 { (a.clone(), d << (shift as usize)) } else { (&a << ((-shift) as usize), d.clone()) };
    let q = &num / &den;
    let r = &num - &q * &den;
    let mut man: u64 = u64::try_from(&q).unwrap();
    if r != IBig::ZERO {
        let twice = &r + &r;
        match twice.cmp(&den) {
            Ordering::Greater => man += 1,
            Ordering::Equal => {
                if man & 1 > 0 {
                    man += 1
                }
            }
            Ordering::Less => {}
        }
    }
    let m = man as i64;
    dashu_encode_f64(if neg { -m } else { m }, shift as i16)
}

#[derive(Clone, Copy, Debug, Default, PartialEq)]
pub struct ConvMode {
    /// convert rationals the way dashu-ratio 0.4.2 does
    pub dashu_rat: bool,
    /// convert integers the way dashu-int 0.4.2 does
    pub dashu_int: bool,
}

/// promotion under a (possibly defective) conversion model; None = not finite
pub fn promote_mode(v: &V, m: ConvMode) -> Option<f64> {
    let f = match v {
        V::Int(i) if m.dashu_int => dashu_ibig_to_f64(i),
        V::Rat(n, d) if m.dashu_rat => dashu_rbig_to_f64(n, d),
        _ => return promote(v),
    };
    if f.is_finite() {
        Some(f)
    } else {
        None
    }
}

/// nearest-even conversion of an exact value; None = overflow
pub fn promote(v: &V) -> Option<f64> {
    match v {
        V::Int(i) => {
            let a = ibig_to_f64(i);
            let b = rat_to_f64(i, &IBig::ONE);
            // two independently written conversions must agree
            assert!(a.map(f64::to_bits) == b.map(f64::to_bits), "oracle self-check: int->f64 conversions disagree for {i}");
            a
        }
        V::Rat(n, d) => rat_to_f64(n, d),
        V::F(f) => Some(*f),
    }
}

/// exact rational value of a finite double
pub fn f64_frac(f: f64) -> (IBig, IBig) {
    let (m, e) = f64_decompose(f);
    if e >= 0 {
        (m << (e as usize), IBig::ONE)
    } else {
        rat_norm(m, IBig::ONE << ((-e) as usize))
    }
}

/// exact fraction of any model value
pub fn exact_frac(v: &V) -> (IBig, IBig) {
    match v {
        V::F(f) => f64_frac(*f),
        _ => v.frac(),
    }
}

pub fn floor_frac(n: &IBig, d: &IBig) -> IBig {
    div_floor(n, d)
}

pub fn ceil_frac(n: &IBig, d: &IBig) -> IBig {
    -div_floor(&-n.clone(), d)
}

pub fn trunc_frac(n: &IBig, d: &IBig) -> IBig {
    if is_neg(n) {
        ceil_frac(n, d)
    } else {
        floor_frac(n, d)
    }
}

/// Exact comparison of two exact fractions.
pub fn cmp_frac(a: &(IBig, IBig), b: &(IBig, IBig)) -> Ordering {
    (&a.0 * &b.1).cmp(&(&b.0 * &a.1))
}

#[cfg(test)]
mod tests {
    use super::*;
    #[test]
    fn conv() {
        assert_eq!(rat_to_f64(&IBig::from(1), &IBig::from(3)), Some(1.0 / 3.0));
        assert_eq!(rat_to_f64(&IBig::from(22), &IBig::from(7)), Some(22.0 / 7.0));
        assert_eq!(rat_to_f64(&IBig::from(1), &(IBig::ONE << 1074)), Some(5e-324));
        assert_eq!(rat_to_f64(&IBig::from(1), &(IBig::ONE << 1075)), Some(0.0));
        assert_eq!(rat_to_f64(&IBig::from(3), &(IBig::ONE << 1075)), Some(1e-323));
        assert_eq!(rat_to_f64(&(IBig::ONE << 1024), &IBig::ONE), None);
        assert_eq!(rat_to_f64(&((IBig::ONE << 1024) - IBig::ONE), &IBig::ONE), None);
        assert_eq!(rat_to_f64(&((IBig::ONE << 1024) - (IBig::ONE << 970)), &IBig::ONE), None);
        assert_eq!(rat_to_f64(&((IBig::ONE << 1024) - (IBig::ONE << 971)), &IBig::ONE), Some(f64::MAX));
        assert_eq!(rat_to_f64(&((IBig::ONE << 1024) - (IBig::ONE << 970) - IBig::ONE), &IBig::ONE), Some(f64::MAX));
    }
}


#[cfg(test)]
mod dashu_port_tests {
    use super::*;
    use dashu::rational::RBig;
    fn rng(state: &mut u64) -> u64 {
        *state ^= *state << 13;
        *state ^= *state >> 7;
        *state ^= *state << 17;
        *state
    }
    fn rand_big(st: &mut u64) -> IBig {
        let limbs = 1 + (rng(st) % 6) as usize;
        let mut v = IBig::ZERO;
        for _ in 0..limbs {
            let mut l = rng(st);
            // sparse patterns: many zero bits so that ties / lone sticky bits occur
            match rng(st) % 4 {
                0 => l &= rng(st) & rng(st) & rng(st),
                1 => l = 1u64 << (rng(st) % 64),
                2 => l = 0,
                _ => {}
            }
            v = (v << 64) + IBig::from(l);
        }
        let v = v >> ((rng(st) % 64) as usize);
        if rng(st) % 2 == 0 {
            -v
        } else {
            v
        }
    }
    #[test]
    fn ports_agree_with_dashu() {
        let mut st = 0x9E3779B97F4A7C15u64;
        let mut int_diff = 0;
        let mut rat_diff = 0;
        for _ in 0..200_000 {
            let a = rand_big(&mut st);
            let f = a.to_f64().value();
            let g = dashu_ibig_to_f64(&a);
            assert!(f.to_bits() == g.to_bits() || (f == 0.0 && g == 0.0), "int port differs for {a}: dashu {f:e} port {g:e}");
            if let Some(c) = ibig_to_f64(&a) {
                if c.to_bits() != f.to_bits() && !(c == 0.0 && f == 0.0) {
                    int_diff += 1;
                }
            }
            let d = iabs(&rand_big(&mut st)) + IBig::ONE;
            let (n, d) = rat_norm(a.clone(), d);
            let r = RBig::from_parts(n.clone(), d.clone().unsigned_abs());
            let f = r.to_f64().value();
            let g = dashu_rbig_to_f64(&n, &d);
            assert!(f.to_bits() == g.to_bits() || (f == 0.0 && g == 0.0), "rat port differs for {n}/{d}: dashu {f:e} port {g:e}");
            match rat_to_f64(&n, &d) {
                Some(c) if c.to_bits() != f.to_bits() && !(c == 0.0 && f == 0.0) => rat_diff += 1,
                _ => {}
            }
        }
        println!("dashu differs from correct rounding: ints {int_diff}, rationals {rat_diff} of 200000");
    }
}
