//! DCG grammar AST, rendering as Prolog text with `-->` rules, and a reference interpreter
//! that evaluates the grammar AST directly (used by C39).
//!
//! The reference is a depth-first, left-to-right interpreter in continuation-passing style. Every
//! grammar body element relates two list terms (S0, S): a terminal list `[t1..tn]` holds iff
//! S0 = [t1..tn|S]; a non-terminal tries its rules in textual order; `!` is local to the rule (or
//! to the `phrase//1`, `call//N`, if-condition it occurs in) and is followed by S0 = S; `{G}`
//! runs G (transparent to cut) followed by S0 = S; a rule `H, PB --> B` holds for (S0, S) iff B
//! holds for (S0, S1) and S = PB ++ S1 (DCG draft, 7.13 / 7.14).
#![allow(dead_code)]

use crate::term::{atom, cmp, int, nil, resolve, unify, walk, Subst, T};
use dashu::integer::IBig;
use serde::{Deserialize, Serialize};

#[derive(Clone, Debug, PartialEq, Serialize, Deserialize)]
pub enum Arith {
    /// a variable or an integer literal
    Val(T),
    Plus(T, T),
}

#[derive(Clone, Debug, PartialEq, Serialize, Deserialize)]
pub enum Goal {
    Unify(T, T),
    Eq(T, T),
    Neq(T, T),
    Is(T, Arith),
    Less(Arith, Arith),
    Cut,
    True,
    Fail,
}

#[derive(Clone, Debug, PartialEq, Serialize, Deserialize)]
pub enum How {
    /// `nt(Args)`
    Plain,
    /// `call(nt(Args[..n-k]), Args[n-k..])`
    CallN(u8),
    /// `phrase(nt(Args[..n-k]), Args[n-k..])`, k <= 2
    PhraseN(u8),
    /// `{V = nt(Args)}, V` (a variable as body, bound at run time)
    ViaVar(u32),
}

#[derive(Clone, Debug, PartialEq, Serialize, Deserialize)]
pub enum Body {
    /// terminal list; the flag asks for "..." notation when every token is a one-char atom
    Lit(Vec<T>, bool),
    Call { nt: usize, args: Vec<T>, how: How },
    Seq(Vec<Body>),
    /// `( A ; B )` or (flag) `( A | B )`
    Alt(Box<Body>, Box<Body>, bool),
    Ite(Box<Body>, Box<Body>, Box<Body>),
    Cut,
    Goal(Vec<Goal>),
    /// `phrase(Body)`: opaque to cut
    Phrase(Box<Body>),
    /// `seq(Xs)` of library(dcgs)
    SeqLib(T),
    /// `...` of library(dcgs)
    Dots,
}

#[derive(Clone, Debug, PartialEq, Serialize, Deserialize)]
pub struct Rule {
    pub nt: usize,
    pub head: Vec<T>,
    pub pushback: Option<(Vec<T>, bool)>,
    pub body: Body,
}

#[derive(Clone, Debug, PartialEq, Serialize, Deserialize)]
pub struct Grammar {
    pub arity: Vec<u8>,
    /// grouped by non-terminal, in clause order
    pub rules: Vec<Rule>,
}

// ---------------------------------------------------------------------------------------------
// Rendering

pub fn nt_name(prefix: &str, i: usize) -> String {
    format!("{prefix}n{i}")
}

fn is_char_atom(t: &T) -> bool {
    matches!(t, T::Atom(a) if a.len() == 1 && a.chars().all(|c| c.is_ascii_lowercase()))
}

pub fn render_lit(ts: &[T], as_str: bool) -> String {
    if ts.is_empty() {
        return if as_str { "\"\"".to_string() } else { "[]".to_string() };
    }
    if as_str && ts.iter().all(is_char_atom) {
        let mut s = String::from("\"");
        for t in ts {
            if let T::Atom(a) = t {
                s.push_str(a);
            }
        }
        s.push('"');
        return s;
    }
    T::PList(ts.to_vec(), Box::new(nil())).text()
}

fn render_callable(name: &str, args: &[T]) -> String {
    if args.is_empty() {
        name.to_string()
    } else {
        format!("{}({})", name, args.iter().map(|a| a.text()).collect::<Vec<_>>().join(","))
    }
}

fn render_arith(a: &Arith) -> String {
    match a {
        Arith::Val(t) => t.text(),
        Arith::Plus(x, y) => format!("{} + {}", x.text(), y.text()),
    }
}

pub fn render_goal(g: &Goal) -> String {
    match g {
        Goal::Unify(a, b) => format!("{} = {}", a.text(), b.text()),
        Goal::Eq(a, b) => format!("{} == {}", a.text(), b.text()),
        Goal::Neq(a, b) => format!("{} \\== {}", a.text(), b.text()),
        Goal::Is(x, e) => format!("{} is {}", x.text(), render_arith(e)),
        Goal::Less(a, b) => format!("{} < {}", render_arith(a), render_arith(b)),
        Goal::Cut => "!".to_string(),
        Goal::True => "true".to_string(),
        Goal::Fail => "fail".to_string(),
    }
}

pub fn render_body(b: &Body, prefix: &str) -> String {
    match b {
        Body::Lit(ts, s) => render_lit(ts, *s),
        Body::Call { nt, args, how } => {
            let name = nt_name(prefix, *nt);
            match how {
                How::Plain => render_callable(&name, args),
                How::CallN(k) => {
                    let k = (*k as usize).min(args.len());
                    let (inner, outer) = args.split_at(args.len() - k);
                    let mut s = format!("call({}", render_callable(&name, inner));
                    for a in outer {
                        s.push(',');
                        s.push_str(&a.text());
                    }
                    s.push(')');
                    s
                }
                How::PhraseN(k) => {
                    let k = (*k as usize).min(args.len()).min(2);
                    let (inner, outer) = args.split_at(args.len() - k);
                    let mut s = format!("phrase({}", render_callable(&name, inner));
                    for a in outer {
                        s.push(',');
                        s.push_str(&a.text());
                    }
                    s.push(')');
                    s
                }
                How::ViaVar(v) => format!("({{{} = {}}}, {})", T::Var(*v).text(), render_callable(&name, args), T::Var(*v).text()),
            }
        }
        Body::Seq(v) => format!("({})", v.iter().map(|x| render_body(x, prefix)).collect::<Vec<_>>().join(", ")),
        Body::Alt(a, b, bar) => format!("( {} {} {} )", render_body(a, prefix), if *bar { "|" } else { ";" }, render_body(b, prefix)),
        Body::Ite(c, t, e) => format!("( {} -> {} ; {} )", render_body(c, prefix), render_body(t, prefix), render_body(e, prefix)),
        Body::Cut => "!".to_string(),
        Body::Goal(gs) => format!("{{{}}}", gs.iter().map(render_goal).collect::<Vec<_>>().join(", ")),
        Body::Phrase(b) => format!("phrase({})", render_body(b, prefix)),
        Body::SeqLib(t) => format!("seq({})", t.text()),
        Body::Dots => "(...)".to_string(),
    }
}

pub fn render_rule(r: &Rule, prefix: &str) -> String {
    let head = render_callable(&nt_name(prefix, r.nt), &r.head);
    let head = match &r.pushback {
        Some((pb, s)) => format!("{}, {}", head, render_lit(pb, *s)),
        None => head,
    };
    format!("{} --> {}.\n", head, render_body(&r.body, prefix))
}

pub fn render_grammar(g: &Grammar, prefix: &str) -> String {
    let mut s = String::new();
    for r in &g.rules {
        s.push_str(&render_rule(r, prefix));
    }
    s
}

// ---------------------------------------------------------------------------------------------
// Features (for classes / the non-trivial rule)

#[derive(Default, Clone, Debug)]
pub struct Features {
    pub cut: bool,
    pub pushback: bool,
    pub ite: bool,
    pub alt: bool,
    pub bar: bool,
    pub goal: bool,
    pub arith: bool,
    pub call_n: bool,
    pub phrase_n: bool,
    pub via_var: bool,
    pub phrase_body: bool,
    pub seq_lib: bool,
    pub dots: bool,
    pub string_lit: bool,
    pub var_token: bool,
    pub recursion: bool,
}

impl Features {
    pub fn scan_body(&mut self, b: &Body, cur: Option<usize>) {
        match b {
            Body::Lit(ts, s) => {
                if *s && !ts.is_empty() && ts.iter().all(is_char_atom) {
                    self.string_lit = true;
                }
                if ts.iter().any(|t| matches!(t, T::Var(_))) {
                    self.var_token = true;
                }
            }
            Body::Call { nt, how, .. } => {
                match how {
                    How::Plain => {}
                    How::CallN(_) => self.call_n = true,
                    How::PhraseN(_) => self.phrase_n = true,
                    How::ViaVar(_) => self.via_var = true,
                }
                if let Some(c) = cur {
                    if *nt <= c {
                        self.recursion = true;
                    }
                }
            }
            Body::Seq(v) => v.iter().for_each(|x| self.scan_body(x, cur)),
            Body::Alt(a, b, bar) => {
                self.alt = true;
                if *bar {
                    self.bar = true;
                }
                self.scan_body(a, cur);
                self.scan_body(b, cur);
            }
            Body::Ite(c, t, e) => {
                self.ite = true;
                self.scan_body(c, cur);
                self.scan_body(t, cur);
                self.scan_body(e, cur);
            }
            Body::Cut => self.cut = true,
            Body::Goal(gs) => {
                self.goal = true;
                for g in gs {
                    match g {
                        Goal::Cut => self.cut = true,
                        Goal::Is(..) | Goal::Less(..) => self.arith = true,
                        _ => {}
                    }
                }
            }
            Body::Phrase(b) => {
                self.phrase_body = true;
                self.scan_body(b, cur);
            }
            Body::SeqLib(_) => self.seq_lib = true,
            Body::Dots => self.dots = true,
        }
    }
    pub fn scan_grammar(&mut self, g: &Grammar) {
        for r in &g.rules {
            if r.pushback.is_some() {
                self.pushback = true;
            }
            self.scan_body(&r.body, Some(r.nt));
        }
    }
}

/// does the body contain a cut that is local to an enclosing `phrase//1` element?
pub fn has_cut_under_phrase(b: &Body, under: bool) -> bool {
    match b {
        Body::Cut => under,
        Body::Goal(gs) => under && gs.iter().any(|g| matches!(g, Goal::Cut)),
        Body::Seq(v) => v.iter().any(|x| has_cut_under_phrase(x, under)),
        Body::Alt(a, b, _) => has_cut_under_phrase(a, under) || has_cut_under_phrase(b, under),
        // a cut in the condition is local to the condition either way
        Body::Ite(_, t, e) => has_cut_under_phrase(t, under) || has_cut_under_phrase(e, under),
        Body::Phrase(b) => has_cut_under_phrase(b, true),
        _ => false,
    }
}

/// does the body contain a cut that belongs to the body itself (not to a condition / phrase//1)?
pub fn has_own_cut(b: &Body) -> bool {
    match b {
        Body::Cut => true,
        Body::Goal(gs) => gs.iter().any(|g| matches!(g, Goal::Cut)),
        Body::Seq(v) => v.iter().any(has_own_cut),
        Body::Alt(a, b, _) => has_own_cut(a) || has_own_cut(b),
        Body::Ite(_, t, e) => has_own_cut(t) || has_own_cut(e),
        _ => false,
    }
}

// ---------------------------------------------------------------------------------------------
// Reference interpreter

#[derive(Clone, Debug, PartialEq)]
pub enum Sig {
    /// alternatives exhausted normally
    Next,
    /// a cut with this frame id was backtracked into: unwind up to the owner of the id
    CutTo(u32),
    /// an error was raised; any of these formals is acceptable
    Throw(Vec<T>),
    /// the model refuses (budget, cyclic unifier, unsupported value)
    Abort(String),
}

/// which cut barriers are (wrongly) transparent in the alternative "leak" model, used only to
/// label a mismatch: phrase//1 elements inside rule bodies, and phrase//1 elements / the whole body
/// of the top-level phrase call
#[derive(Clone, Copy, Debug, Default, PartialEq)]
pub struct Leak {
    pub rules: bool,
    pub top: bool,
}

pub struct Interp<'a> {
    pub g: &'a Grammar,
    next_var: u32,
    next_id: u32,
    pub steps: u64,
    pub max_steps: u64,
    pub leak: Leak,
}

/// variables of rule instances are renamed by adding an offset; the top-level body has offset 0
pub const RULE_VARS: u32 = 64;
pub const FIRST_FRESH: u32 = 1000;

fn ren(t: &T, off: u32) -> T {
    if off == 0 {
        return t.clone();
    }
    match t {
        T::Var(v) => T::Var(v + off),
        T::PList(items, tail) => T::PList(items.iter().map(|x| ren(x, off)).collect(), Box::new(ren(tail, off))),
        T::Cmp(n, args) => T::Cmp(n.clone(), args.iter().map(|x| ren(x, off)).collect()),
        other => other.clone(),
    }
}

fn cons(items: Vec<T>, tail: &T) -> T {
    if items.is_empty() {
        tail.clone()
    } else {
        T::PList(items, Box::new(tail.clone()))
    }
}

type K<'k, 'a> = &'k mut dyn FnMut(&mut Interp<'a>, &Subst) -> Sig;

impl<'a> Interp<'a> {
    pub fn new(g: &'a Grammar, max_steps: u64, leak: Leak) -> Self {
        Interp { g, next_var: FIRST_FRESH, next_id: 1, steps: 0, max_steps, leak }
    }

    fn fresh(&mut self) -> T {
        let v = self.next_var;
        self.next_var += 1;
        T::Var(v)
    }

    fn fresh_id(&mut self) -> u32 {
        let v = self.next_id;
        self.next_id += 1;
        v
    }

    fn uni(&mut self, a: &T, b: &T, sub: &Subst) -> Result<Option<Subst>, Sig> {
        let mut s2 = sub.clone();
        match unify(a, b, &mut s2, false) {
            Ok(true) => Ok(Some(s2)),
            Ok(false) => Ok(None),
            Err(()) => Err(Sig::Abort("cyclic-unifier".into())),
        }
    }

    fn eval_val(&self, t: &T, sub: &Subst) -> Result<IBig, Sig> {
        let v = resolve(t, sub);
        match &v {
            T::Int(i) => Ok(i.clone()),
            T::Var(_) => Err(Sig::Throw(vec![atom("instantiation_error")])),
            T::Atom(a) if a != "[]" => Err(Sig::Throw(vec![cmp("type_error", vec![atom("evaluable"), cmp("/", vec![atom(a), int(0)])])])),
            T::Cmp(f, _) if f != "." => {
                // the evaluator may visit the arguments before it rejects the functor: any error a
                // sub-term can raise is acceptable
                let mut errs = vec![];
                collect_eval_errors(&v, &mut errs);
                Err(Sig::Throw(errs))
            }
            _ => Err(Sig::Abort("arith-on-list".into())),
        }
    }

    fn eval(&self, e: &Arith, off: u32, sub: &Subst) -> Result<IBig, Sig> {
        match e {
            Arith::Val(t) => self.eval_val(&ren(t, off), sub),
            Arith::Plus(a, b) => {
                let (x, y) = (self.eval_val(&ren(a, off), sub), self.eval_val(&ren(b, off), sub));
                merge2(x, y).map(|(x, y)| x + y)
            }
        }
    }

    fn goals(&mut self, gs: &[Goal], off: u32, sub: &Subst, cut: u32, k: K<'_, 'a>) -> Sig {
        let Some((g, rest)) = gs.split_first() else { return k(self, sub) };
        match g {
            Goal::Unify(a, b) => match self.uni(&ren(a, off), &ren(b, off), sub) {
                Ok(Some(s2)) => self.goals(rest, off, &s2, cut, k),
                Ok(None) => Sig::Next,
                Err(s) => s,
            },
            Goal::Eq(a, b) | Goal::Neq(a, b) => {
                let same = resolve(&ren(a, off), sub).norm().eq_struct(&resolve(&ren(b, off), sub).norm());
                if same == matches!(g, Goal::Eq(..)) {
                    self.goals(rest, off, sub, cut, k)
                } else {
                    Sig::Next
                }
            }
            Goal::Is(x, e) => match self.eval(e, off, sub) {
                Ok(v) => match self.uni(&ren(x, off), &T::Int(v), sub) {
                    Ok(Some(s2)) => self.goals(rest, off, &s2, cut, k),
                    Ok(None) => Sig::Next,
                    Err(s) => s,
                },
                Err(s) => s,
            },
            Goal::Less(a, b) => match merge2(self.eval(a, off, sub), self.eval(b, off, sub)) {
                Ok((x, y)) => {
                    if x < y {
                        self.goals(rest, off, sub, cut, k)
                    } else {
                        Sig::Next
                    }
                }
                Err(s) => s,
            },
            Goal::Cut => match self.goals(rest, off, sub, cut, k) {
                Sig::Next => Sig::CutTo(cut),
                other => other,
            },
            Goal::True => self.goals(rest, off, sub, cut, k),
            Goal::Fail => Sig::Next,
        }
    }

    fn seq(&mut self, bs: &[Body], off: u32, s0: &T, s: &T, sub: &Subst, cut: u32, k: K<'_, 'a>) -> Sig {
        if bs.is_empty() {
            return match self.uni(s0, s, sub) {
                Ok(Some(s2)) => k(self, &s2),
                Ok(None) => Sig::Next,
                Err(e) => e,
            };
        }
        if bs.len() == 1 {
            return self.body(&bs[0], off, s0, s, sub, cut, k);
        }
        let mid = self.fresh();
        let (first, rest) = bs.split_first().unwrap();
        self.body(first, off, s0, &mid, sub, cut, &mut |me, sub2| me.seq(rest, off, &mid, s, sub2, cut, &mut *k))
    }

    fn call_nt(&mut self, nt: usize, args: &[T], s0: &T, s: &T, sub: &Subst, k: K<'_, 'a>) -> Sig {
        let g = self.g;
        for rule in g.rules.iter().filter(|r| r.nt == nt) {
            let off = self.next_var;
            self.next_var += RULE_VARS;
            let id = self.fresh_id();
            if rule.head.len() != args.len() {
                return Sig::Abort("arity-mismatch".into());
            }
            let mut sub2 = sub.clone();
            let mut ok = true;
            for (a, h) in args.iter().zip(&rule.head) {
                match unify(a, &ren(h, off), &mut sub2, false) {
                    Ok(true) => {}
                    Ok(false) => {
                        ok = false;
                        break;
                    }
                    Err(()) => return Sig::Abort("cyclic-unifier".into()),
                }
            }
            if !ok {
                continue;
            }
            let r = match &rule.pushback {
                None => self.body(&rule.body, off, s0, s, &sub2, id, &mut *k),
                Some((pb, _)) => {
                    let s1 = self.fresh();
                    let pbl = cons(pb.iter().map(|t| ren(t, off)).collect(), &s1);
                    self.body(&rule.body, off, s0, &s1, &sub2, id, &mut |me, sub3| match me.uni(s, &pbl, sub3) {
                        Ok(Some(s4)) => k(me, &s4),
                        Ok(None) => Sig::Next,
                        Err(e) => e,
                    })
                }
            };
            match r {
                Sig::Next => {}
                Sig::CutTo(x) if x == id => return Sig::Next,
                other => return other,
            }
        }
        Sig::Next
    }

    fn seqlib(&mut self, xs: &T, s0: &T, s: &T, sub: &Subst, k: K<'_, 'a>) -> Sig {
        self.steps += 1;
        if self.steps > self.max_steps {
            return Sig::Abort("budget".into());
        }
        // seq([]) --> [].
        match self.uni(xs, &nil(), sub) {
            Ok(Some(s2)) => match self.uni(s0, s, &s2) {
                Ok(Some(s3)) => match k(self, &s3) {
                    Sig::Next => {}
                    other => return other,
                },
                Ok(None) => {}
                Err(e) => return e,
            },
            Ok(None) => {}
            Err(e) => return e,
        }
        // seq([E|Es]) --> [E], seq(Es).
        let (e, es, s1) = (self.fresh(), self.fresh(), self.fresh());
        match self.uni(xs, &cons(vec![e.clone()], &es), sub) {
            Ok(Some(s2)) => match self.uni(s0, &cons(vec![e], &s1), &s2) {
                Ok(Some(s3)) => self.seqlib(&es, &s1, s, &s3, k),
                Ok(None) => Sig::Next,
                Err(e) => e,
            },
            Ok(None) => Sig::Next,
            Err(e) => e,
        }
    }

    fn dots(&mut self, s0: &T, s: &T, sub: &Subst, k: K<'_, 'a>) -> Sig {
        self.steps += 1;
        if self.steps > self.max_steps {
            return Sig::Abort("budget".into());
        }
        // ... --> [] | [_], ... .
        match self.uni(s0, s, sub) {
            Ok(Some(s2)) => match k(self, &s2) {
                Sig::Next => {}
                other => return other,
            },
            Ok(None) => {}
            Err(e) => return e,
        }
        let (e, s1) = (self.fresh(), self.fresh());
        match self.uni(s0, &cons(vec![e], &s1), sub) {
            Ok(Some(s2)) => self.dots(&s1, s, &s2, k),
            Ok(None) => Sig::Next,
            Err(e) => e,
        }
    }

    pub fn body(&mut self, b: &Body, off: u32, s0: &T, s: &T, sub: &Subst, cut: u32, k: K<'_, 'a>) -> Sig {
        self.steps += 1;
        if self.steps > self.max_steps {
            return Sig::Abort("budget".into());
        }
        match b {
            Body::Lit(ts, _) => {
                let l = cons(ts.iter().map(|t| ren(t, off)).collect(), s);
                match self.uni(s0, &l, sub) {
                    Ok(Some(s2)) => k(self, &s2),
                    Ok(None) => Sig::Next,
                    Err(e) => e,
                }
            }
            Body::Call { nt, args, .. } => {
                let args: Vec<T> = args.iter().map(|a| ren(a, off)).collect();
                self.call_nt(*nt, &args, s0, s, sub, k)
            }
            Body::Seq(v) => self.seq(v, off, s0, s, sub, cut, k),
            Body::Alt(a, b, _) => match self.body(a, off, s0, s, sub, cut, &mut *k) {
                Sig::Next => self.body(b, off, s0, s, sub, cut, k),
                other => other,
            },
            Body::Ite(c, t, e) => {
                let cid = self.fresh_id();
                let mid = self.fresh();
                let mut found: Option<Subst> = None;
                let r = self.body(c, off, s0, &mid, sub, cid, &mut |_, sub2| {
                    found = Some(sub2.clone());
                    Sig::CutTo(cid)
                });
                if matches!(r, Sig::Throw(_) | Sig::Abort(_)) {
                    return r;
                }
                match found {
                    Some(sub2) => self.body(t, off, &mid, s, &sub2, cut, k),
                    None => self.body(e, off, s0, s, sub, cut, k),
                }
            }
            Body::Cut => {
                let r = match self.uni(s0, s, sub) {
                    Ok(Some(s2)) => k(self, &s2),
                    Ok(None) => Sig::Next,
                    Err(e) => e,
                };
                match r {
                    Sig::Next => Sig::CutTo(cut),
                    other => other,
                }
            }
            Body::Goal(gs) => {
                let (s0c, sc) = (s0.clone(), s.clone());
                self.goals(gs, off, sub, cut, &mut |me, sub2| match me.uni(&s0c, &sc, sub2) {
                    Ok(Some(s3)) => k(me, &s3),
                    Ok(None) => Sig::Next,
                    Err(e) => e,
                })
            }
            Body::Phrase(inner) => {
                let transparent = if off == 0 { self.leak.top } else { self.leak.rules };
                if transparent {
                    return self.body(inner, off, s0, s, sub, cut, k);
                }
                let id = self.fresh_id();
                match self.body(inner, off, s0, s, sub, id, k) {
                    Sig::CutTo(x) if x == id => Sig::Next,
                    other => other,
                }
            }
            Body::SeqLib(xs) => self.seqlib(&ren(xs, off), s0, s, sub, k),
            Body::Dots => self.dots(s0, s, sub, k),
        }
    }
}

fn collect_eval_errors(t: &T, out: &mut Vec<T>) {
    match t {
        T::Var(_) => out.push(atom("instantiation_error")),
        T::Atom(a) => out.push(cmp("type_error", vec![atom("evaluable"), cmp("/", vec![atom(a), int(0)])])),
        T::Cmp(f, args) => {
            out.push(cmp("type_error", vec![atom("evaluable"), cmp("/", vec![atom(f), int(args.len() as i64)])]));
            args.iter().for_each(|a| collect_eval_errors(a, out));
        }
        T::PList(items, tail) => {
            items.iter().for_each(|a| collect_eval_errors(a, out));
            collect_eval_errors(tail, out);
        }
        _ => {}
    }
}

fn merge2<A, B>(x: Result<A, Sig>, y: Result<B, Sig>) -> Result<(A, B), Sig> {
    match (x, y) {
        (Ok(a), Ok(b)) => Ok((a, b)),
        (Err(Sig::Abort(m)), _) | (_, Err(Sig::Abort(m))) => Err(Sig::Abort(m)),
        (Err(Sig::Throw(mut a)), Err(Sig::Throw(b))) => {
            a.extend(b);
            Err(Sig::Throw(a))
        }
        (Err(e), _) | (_, Err(e)) => Err(e),
    }
}

#[derive(Clone, Debug, PartialEq)]
pub enum RefOutcome {
    /// ordered instances of the template; the flag says that a cut of the top-level body was
    /// backtracked into (only observable in the leak model: the clause containing the phrase
    /// call is cut)
    Sols(Vec<T>, bool),
    Throw(Vec<T>),
    Abort(String),
}

/// All solutions of `phrase(top, input, rest)` as instances of `template`, in order.
pub fn run_ref(g: &Grammar, top: &Body, input: &T, rest: &T, template: &T, leak: Leak, max_steps: u64, max_sols: usize) -> RefOutcome {
    let mut it = Interp::new(g, max_steps, leak);
    let mut sols: Vec<T> = vec![];
    let sub = Subst::new();
    let top_id = it.fresh_id();
    let r = it.body(top, 0, &input.norm(), &rest.norm(), &sub, top_id, &mut |_, s| {
        sols.push(resolve(template, s));
        if sols.len() > max_sols {
            Sig::Abort("too-many-solutions".into())
        } else {
            Sig::Next
        }
    });
    match r {
        Sig::Next => RefOutcome::Sols(sols, false),
        Sig::CutTo(x) if x == top_id => RefOutcome::Sols(sols, true),
        Sig::CutTo(_) => RefOutcome::Abort("stray-cut".into()),
        Sig::Throw(f) => RefOutcome::Throw(f),
        Sig::Abort(m) => RefOutcome::Abort(m),
    }
}

// keep `walk` referenced (used by callers through this module's re-export)
pub fn deref(t: &T, s: &Subst) -> T {
    walk(t, s)
}
