//! Session pooling for properties whose libraries are expensive to load (clpz: ~0.7 s).
//!
//! The driver builds a new environment for every shrink candidate. With a 0.7–3 s library load
//! per environment, shrinking a failure (up to 400 candidates) exceeds the worker watchdog and a
//! real violation would be reported as INCONCLUSIVE. `Pooled` keeps the driver's contract where
//! it matters and relaxes it during shrinking:
//!   * an environment that follows one which handled more than one case (normal running, and
//!     therefore the *confirmation* of a first failure) always gets a brand-new machine;
//!   * an environment that follows one which handled at most one case (confirmation / shrinking
//!     mode) may take over that predecessor's machine, at most `MAX_USES` times in a row.
//! Cases of these properties are independent queries (no asserts, flags or operators are
//! changed), so a machine that has answered a few dozen such queries is as good as new; the
//! replay file of a reported failure is in any case re-run by `./check --replay` in a new process.
use crate::session::Session;
use std::cell::{Cell, RefCell};

const MAX_USES: u32 = 40;

thread_local! {
    static SPARE: RefCell<Option<(String, Session, u32)>> = const { RefCell::new(None) };
    static LAST_ENV_CASES: Cell<u32> = const { Cell::new(u32::MAX) };
}

pub struct Pooled {
    libs: &'static [&'static str],
    s: Option<Session>,
    uses: u32,
    cases: u32,
    setup: Option<fn(&mut Session)>,
}

impl Pooled {
    pub fn new(libs: &'static [&'static str]) -> Pooled {
        Self::with_setup(libs, None)
    }
    /// `setup` is run once on every newly built session (e.g. consult a helper file).
    pub fn with_setup(libs: &'static [&'static str], setup: Option<fn(&mut Session)>) -> Pooled {
        let key = libs.join(",");
        let mut s = None;
        let mut uses = 0;
        if LAST_ENV_CASES.with(|c| c.get()) <= 1 {
            if let Some((k, sess, u)) = SPARE.with(|p| p.borrow_mut().take()) {
                if k == key && !sess.poisoned {
                    s = Some(sess);
                    uses = u;
                }
            }
        } else {
            SPARE.with(|p| *p.borrow_mut() = None);
        }
        Pooled { libs, s, uses, cases: 0, setup }
    }
    /// call once at the start of every case
    pub fn begin_case(&mut self) {
        self.cases += 1;
    }
    pub fn s(&mut self) -> &mut Session {
        if self.s.is_none() {
            let mut sess = Session::new(self.libs);
            if let Some(f) = self.setup {
                f(&mut sess);
            }
            self.s = Some(sess);
            self.uses = 0;
        }
        self.s.as_mut().unwrap()
    }
    /// throw the machine away (after a panic or when a case wants a new one)
    pub fn reset(&mut self) {
        self.s = None;
    }
}

impl Drop for Pooled {
    fn drop(&mut self) {
        LAST_ENV_CASES.with(|c| c.set(self.cases));
        if self.cases <= 1 {
            if let Some(sess) = self.s.take() {
                if !sess.poisoned && self.uses + 1 < MAX_USES {
                    let key = self.libs.join(",");
                    SPARE.with(|p| *p.borrow_mut() = Some((key, sess, self.uses + 1)));
                }
            }
        }
    }
}
