//! Small text helpers shared by the library checks (C36, C41, C37, C51).
use crate::session::Session;
use crate::term::T;
use scryer_prolog::{MachineBuilder, OutputStreamConfig, StreamConfig};
use std::cell::RefCell;
use std::io::Read;
use std::rc::Rc;

/// A (normalised) list of one-character atoms as a String; `[]` is the empty string.
pub fn chars_of(t: &T) -> Option<String> {
    match t {
        T::Atom(a) if a == "[]" => Some(String::new()),
        T::Str(s) => Some(s.clone()),
        T::PList(items, tail) if tail.is_nil() => {
            let mut s = String::new();
            for it in items {
                match it {
                    T::Atom(a) if a.chars().count() == 1 => s.push_str(a),
                    _ => return None,
                }
            }
            Some(s)
        }
        _ => None,
    }
}

/// A list of small integers (bytes) as Vec<u8>.
pub fn bytes_of(t: &T) -> Option<Vec<u8>> {
    match t {
        T::Atom(a) if a == "[]" => Some(vec![]),
        T::PList(items, tail) if tail.is_nil() => {
            let mut v = vec![];
            for it in items {
                match it {
                    T::Int(i) => v.push(u8::try_from(i).ok()?),
                    _ => return None,
                }
            }
            Some(v)
        }
        _ => None,
    }
}

/// Items of a proper list.
pub fn items_of(t: &T) -> Option<Vec<T>> {
    match t {
        T::Atom(a) if a == "[]" => Some(vec![]),
        T::PList(items, tail) if tail.is_nil() => Some(items.clone()),
        T::Str(s) => Some(s.chars().map(|c| T::Atom(c.to_string())).collect()),
        _ => None,
    }
}

/// Session whose user_output is captured into a shared byte buffer (filled on flush).
pub struct CapSession {
    pub s: Session,
    pub out: Rc<RefCell<Vec<u8>>>,
}

impl CapSession {
    pub fn new(libs: &[&str]) -> CapSession {
        let out: Rc<RefCell<Vec<u8>>> = Rc::new(RefCell::new(Vec::new()));
        let o2 = out.clone();
        let streams = StreamConfig::in_memory().with_user_output(OutputStreamConfig::callback(Box::new(move |c| {
            let _ = c.read_to_end(&mut o2.borrow_mut());
        })));
        let machine = MachineBuilder::default().with_streams(streams).build();
        CapSession { s: Session::with_machine(machine, libs), out }
    }
    pub fn take(&self) -> Vec<u8> {
        std::mem::take(&mut *self.out.borrow_mut())
    }
}

pub fn short(s: &str) -> String {
    let mut o: String = s.chars().take(160).collect();
    if s.chars().count() > 160 {
        o.push_str("...");
    }
    format!("{o:?}")
}

// ---------------------------------------------------------------------------------------------
// In-oracle toleration of open known findings (cheap: the environment is kept, the rest of the
// case is still checked). Only active inside run_shard (`tolerate_on`), never in replays, so a
// witness replay still fails with its signature.

thread_local! {
    static TOLERATE: std::cell::Cell<bool> = const { std::cell::Cell::new(false) };
    static TOLERATED: RefCell<std::collections::BTreeMap<String, u64>> = const { RefCell::new(std::collections::BTreeMap::new()) };
}

pub fn tolerate_on(on: bool) {
    TOLERATE.with(|t| t.set(on));
}

/// true = the signature is an open known finding and the search should continue behind it
pub fn tolerated(sig: &str) -> bool {
    if TOLERATE.with(|t| t.get()) && crate::engine::is_known_open(sig) {
        TOLERATED.with(|m| *m.borrow_mut().entry(sig.to_string()).or_default() += 1);
        true
    } else {
        false
    }
}

/// move the counters into the shard result (`excluded_known`)
pub fn drain_tolerated(into: &mut std::collections::BTreeMap<String, u64>) {
    TOLERATED.with(|m| {
        for (k, v) in std::mem::take(&mut *m.borrow_mut()) {
            *into.entry(k).or_default() += v;
        }
    });
}
