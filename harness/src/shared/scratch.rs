//! Per-case scratch directories under `$VERIF_ROOT/scratch/<pid>/` for the I/O properties.
//! Nothing a registered command needs ever lives in /tmp directly.
use std::path::PathBuf;
use std::sync::atomic::{AtomicU64, Ordering};

static COUNTER: AtomicU64 = AtomicU64::new(0);

/// Directory of this process: `$VERIF_ROOT/scratch/<pid>`.
pub fn process_dir() -> PathBuf {
    PathBuf::from(crate::engine::verif_dir()).join("scratch").join(format!("{}", std::process::id()))
}

/// A fresh directory that is removed (recursively) when the value is dropped.
pub struct Scratch {
    pub dir: PathBuf,
}

impl Scratch {
    pub fn new(tag: &str) -> Scratch {
        let n = COUNTER.fetch_add(1, Ordering::Relaxed);
        let dir = process_dir().join(format!("{tag}-{n}"));
        std::fs::create_dir_all(&dir).unwrap_or_else(|e| panic!("cannot create scratch dir {}: {e}", dir.display()));
        Scratch { dir }
    }

    pub fn path(&self, name: &str) -> PathBuf {
        self.dir.join(name)
    }

    /// the path as text (the scratch root is ASCII; `name` may be anything valid in UTF-8)
    pub fn path_str(&self, name: &str) -> String {
        self.dir.join(name).to_string_lossy().to_string()
    }
}

impl Drop for Scratch {
    fn drop(&mut self) {
        let _ = std::fs::remove_dir_all(&self.dir);
        // the per-process directory goes away with its last case directory
        let _ = std::fs::remove_dir(process_dir());
    }
}
