//! Generators of the printer checks: operator-rich terms over a tricky-atom vocabulary,
//! operator tables.
use crate::gen::*;
use crate::shared::printer::OpDecl;
use crate::term::{self, T};
use dashu::integer::IBig;
use proptest::prelude::*;

/// names of the default operator table plus a few names other systems make operators
pub const OP_NAMES: &[&str] = &[
    "-", "+", "*", "/", "=", ":-", "-->", "?-", ";", "->", ",", "\\+", "\\=", "==", "\\==", "@<", "@>", "@=<", "@>=", "=..", "is", "=:=", "=\\=", "<", ">", "=<", ">=", ":", "/\\", "\\/", "//", "rem", "mod", "div", "rdiv", "<<",
    ">>", "**", "^", "\\", "|", "*->", "dynamic", "$", "@", "table", "non_counted_backtracking",
];

/// atoms that are special to the reader or the printer
pub const SPECIAL_ATOMS: &[&str] = &[
    "[]", "{}", "!", ";", ",", "|", "''", "'", "", ".", "..", "/*", "//", "(", ")", "[", "]", "{", "}", "%", "\"", "`", "\\", "e", "E", "x", "0", "1", "-1", "1.0", "1.0e10", "1e", "_", "X", "_x", "A1", "a b", "a\nb", "\n", "\t", " ", "\0", "a\0b",
    "\u{1}", "\u{7f}", "\u{85}", "\u{a0}", "\u{2028}", "\u{feff}", "é", "É", "αβγ", "日本語", "😀", "a😀", "e\u{301}", "end_of_file", "$VAR", "[]a", "a'b", "a''b", "a\\b", "0'a", "0x", "don't", "\\n", "*/", "- 1", "-(", "f(x)", "a.", "a. ",
    "a.b", "a,b", "[a]", "{a}", "\u{1c5}", "\u{2167}", "²", "½", "\u{200b}", "\u{301}",
];

/// names used by random operator tables
pub const USER_OP_NAMES: &[&str] = &[
    "-", "*", "|", "dynamic", "f", "fy", "yf", "xfx", "+", "=", "\\", "++", "<>", "and", "not", "mod", "is", "e", "é", "op", "~", "?", "@", "#", "$", "&", ".", "..", "[]", "{}", "!", ";", "->", ":-", "a", "b", "-->", "^", "**", "abcdefg",
    "E", "_x", "a b", "''", "'", "", "😀", "1", "-1", ":", "\\+", "//", "/*",
];

pub const SPECS: &[&str] = &["xfx", "xfy", "yfx", "fy", "fx", "xf", "yf"];

fn from_table(items: &'static [&'static str]) -> BoxedStrategy<String> {
    any::<u16>().prop_map(move |k| pick(items, k).to_string()).boxed()
}

fn from_vec(items: Vec<String>) -> BoxedStrategy<String> {
    any::<u16>().prop_map(move |k| pick(&items, k)).boxed()
}

/// operator-ish names: default operator names and the `extra` names (user operators)
pub fn opname(extra: &[String]) -> BoxedStrategy<String> {
    if extra.is_empty() {
        from_table(OP_NAMES)
    } else {
        prop_oneof![2 => from_table(OP_NAMES), 3 => from_vec(extra.to_vec())].boxed()
    }
}

pub fn patom(extra: &[String]) -> BoxedStrategy<String> {
    prop_oneof![
        4 => opname(extra),
        3 => from_table(SPECIAL_ATOMS),
        2 => atom_text_strategy(),
        2 => ident_strategy(),
    ]
    .boxed()
}

fn small_num() -> BoxedStrategy<T> {
    prop_oneof![
        4 => (-3i64..=3).prop_map(|i| T::Int(IBig::from(i))),
        2 => (-2i32..=2, 0u8..=2).prop_map(|(n, s)| T::Float((n as f64) / (1u32 << s) as f64)),
        1 => Just(T::Float(-0.0)),
    ]
    .boxed()
}

fn leaf(extra: &[String], nvars: u32) -> BoxedStrategy<T> {
    prop_oneof![
        6 => patom(extra).prop_map(T::Atom),
        4 => small_num(),
        1 => int_strategy().prop_map(T::Int),
        2 => float_strategy().prop_map(T::Float),
        3 => (0..nvars.max(1)).prop_map(T::Var),
        1 => string_content_strategy().prop_map(T::Str),
        1 => Just(term::nil()),
    ]
    .boxed()
}

/// Terms for the printer: operator applications (prefix / infix / postfix candidates) over
/// operator names, tricky atoms as atoms and functors, numbers incl. negative operands,
/// {}/1, '$VAR'/1, lists, partial lists, strings, variables.
pub fn pterm(extra: &[String], depth: u32, size: u32) -> BoxedStrategy<T> {
    let extra: Vec<String> = extra.to_vec();
    let lf = leaf(&extra, 4);
    lf.prop_recursive(depth, size, 3, move |inner| {
        let ex = extra.clone();
        prop_oneof![
            6 => (opname(&ex), inner.clone()).prop_map(|(n, a)| T::Cmp(n, vec![a])),
            8 => (opname(&ex), inner.clone(), inner.clone()).prop_map(|(n, a, b)| T::Cmp(n, vec![a, b])),
            1 => inner.clone().prop_map(|a| T::Cmp("{}".into(), vec![a])),
            1 => prop_oneof![(-1i64..=30).prop_map(|i| T::Int(IBig::from(i))), inner.clone()].prop_map(|a| T::Cmp("$VAR".into(), vec![a])),
            3 => (patom(&ex), proptest::collection::vec(inner.clone(), 1..=3)).prop_map(|(n, args)| T::Cmp(n, args)),
            2 => proptest::collection::vec(inner.clone(), 1..=4).prop_map(|items| T::PList(items, Box::new(term::nil()))),
            1 => (proptest::collection::vec(inner.clone(), 1..=3), inner.clone()).prop_map(|(items, tail)| T::PList(items, Box::new(tail))),
            1 => (proptest::collection::vec(from_table(&["a", "b", "é", "😀", " ", "\n", "\"", "\\", "'", "\0", "\u{1}", "1", "A", "_", "-", ","]), 1..=5), inner.clone())
                .prop_map(|(cs, tail)| T::PList(cs.into_iter().map(T::Atom).collect(), Box::new(tail))),
            // character lists ending in a (usually shared) variable
            1 => (proptest::collection::vec(from_table(&["a", "b", "é", " ", "'", "1", "A"]), 1..=3), 0u32..4).prop_map(|(cs, v)| T::PList(cs.into_iter().map(T::Atom).collect(), Box::new(T::Var(v)))),
        ]
    })
    .boxed()
}

/// 0..=6 random op/3 declarations over USER_OP_NAMES
pub fn op_table() -> BoxedStrategy<Vec<OpDecl>> {
    let prio = prop_oneof![
        3 => any::<u16>().prop_map(|k| pick(&[1u16, 9, 100, 200, 199, 201, 400, 500, 699, 700, 701, 900, 999, 1000, 1001, 1100, 1105, 1199, 1200], k)),
        1 => 1u16..=1200,
    ];
    let decl = (prio, from_table(SPECS), from_table(USER_OP_NAMES)).prop_map(|(p, spec, name)| OpDecl { p, spec, name });
    proptest::collection::vec(decl, 0..=6).boxed()
}
