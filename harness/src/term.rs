//! Term model `T`, canonical writer, transport decoding, reference algorithms.
#![allow(dead_code)]

use dashu::integer::IBig;
use scryer_prolog::Term;
use serde::{Deserialize, Serialize};
use std::cmp::Ordering;
use std::collections::HashMap;
use std::fmt::Write as _;

/// Harness-side term. Strings are lists of one-character atoms (`Str`), kept
/// distinct only so that writers can choose the `"..."` notation.
#[derive(Clone, Debug, PartialEq, Serialize, Deserialize)]
pub enum T {
    Var(u32),
    Atom(String),
    Int(#[serde(with = "ibig_serde")] IBig),
    Rat(#[serde(with = "ibig_serde")] IBig, #[serde(with = "ibig_serde")] IBig),
    Float(#[serde(with = "f64_bits")] f64),
    /// "..." notation for a proper list of characters
    Str(String),
    /// partial list: items and a tail (tail `Atom("[]")` means proper list)
    PList(Vec<T>, Box<T>),
    Cmp(String, Vec<T>),
}

pub mod ibig_serde {
    use dashu::integer::IBig;
    use serde::{Deserialize, Deserializer, Serializer};
    pub fn serialize<S: Serializer>(v: &IBig, s: S) -> Result<S::Ok, S::Error> {
        s.serialize_str(&v.to_string())
    }
    pub fn deserialize<'de, D: Deserializer<'de>>(d: D) -> Result<IBig, D::Error> {
        let s = String::deserialize(d)?;
        s.parse::<IBig>().map_err(serde::de::Error::custom)
    }
}

pub mod f64_bits {
    use serde::{Deserialize, Deserializer, Serializer};
    pub fn serialize<S: Serializer>(v: &f64, s: S) -> Result<S::Ok, S::Error> {
        s.serialize_str(&format!("{:016x}", v.to_bits()))
    }
    pub fn deserialize<'de, D: Deserializer<'de>>(d: D) -> Result<f64, D::Error> {
        let s = String::deserialize(d)?;
        u64::from_str_radix(&s, 16)
            .map(f64::from_bits)
            .map_err(serde::de::Error::custom)
    }
}

pub fn nil() -> T {
    T::Atom("[]".into())
}
pub fn atom(s: &str) -> T {
    T::Atom(s.to_string())
}
pub fn int<I: Into<IBig>>(i: I) -> T {
    T::Int(i.into())
}
pub fn cmp(name: &str, args: Vec<T>) -> T {
    T::Cmp(name.to_string(), args)
}
pub fn list(items: Vec<T>) -> T {
    if items.is_empty() {
        nil()
    } else {
        T::PList(items, Box::new(nil()))
    }
}

impl T {
    pub fn is_nil(&self) -> bool {
        matches!(self, T::Atom(a) if a == "[]")
    }

    /// Structural normal form: strings become lists of char atoms; nested
    /// partial lists are flattened; `'.'(H,T)` compounds become list cells.
    pub fn norm(&self) -> T {
        match self {
            T::Str(s) => {
                if s.is_empty() {
                    nil()
                } else {
                    T::PList(s.chars().map(|c| T::Atom(c.to_string())).collect(), Box::new(nil()))
                }
            }
            T::PList(items, tail) => {
                let mut out: Vec<T> = items.iter().map(|t| t.norm()).collect();
                let mut tl = tail.norm();
                loop {
                    match tl {
                        T::PList(more, t2) => {
                            out.extend(more);
                            tl = *t2;
                        }
                        _ => break,
                    }
                }
                if out.is_empty() {
                    tl
                } else {
                    T::PList(out, Box::new(tl))
                }
            }
            T::Cmp(n, args) if n == "." && args.len() == 2 => {
                T::PList(vec![args[0].clone()], Box::new(args[1].clone())).norm()
            }
            T::Cmp(n, args) => T::Cmp(n.clone(), args.iter().map(|t| t.norm()).collect()),
            T::Rat(n, d) => {
                // normalise sign and gcd; denominator 1 stays a rational here on purpose
                let (n, d) = crate::num::rat_norm(n.clone(), d.clone());
                T::Rat(n, d)
            }
            other => other.clone(),
        }
    }

    pub fn node_count(&self) -> usize {
        match self {
            T::PList(items, tail) => items.iter().map(|t| t.node_count()).sum::<usize>() + items.len() + tail.node_count(),
            T::Cmp(_, args) => 1 + args.iter().map(|t| t.node_count()).sum::<usize>(),
            T::Str(s) => 1 + s.chars().count(),
            _ => 1,
        }
    }

    pub fn vars(&self, out: &mut Vec<u32>) {
        match self {
            T::Var(v) => {
                if !out.contains(v) {
                    out.push(*v)
                }
            }
            T::PList(items, tail) => {
                for i in items {
                    i.vars(out)
                }
                tail.vars(out)
            }
            T::Cmp(_, args) => {
                for a in args {
                    a.vars(out)
                }
            }
            _ => {}
        }
    }

    pub fn is_ground(&self) -> bool {
        let mut v = vec![];
        self.vars(&mut v);
        v.is_empty()
    }

    /// Apply a substitution (var -> term), repeatedly (idempotent substitutions assumed acyclic).
    pub fn subst(&self, s: &HashMap<u32, T>) -> T {
        match self {
            T::Var(v) => match s.get(v) {
                Some(t) => t.subst(s),
                None => self.clone(),
            },
            T::PList(items, tail) => T::PList(items.iter().map(|t| t.subst(s)).collect(), Box::new(tail.subst(s))),
            T::Cmp(n, args) => T::Cmp(n.clone(), args.iter().map(|t| t.subst(s)).collect()),
            other => other.clone(),
        }
    }

    /// Rename variables in order of first occurrence to 0,1,2...
    pub fn canon_vars(&self) -> T {
        let mut vs = vec![];
        self.vars(&mut vs);
        let m: HashMap<u32, T> = vs.iter().enumerate().map(|(i, v)| (*v, T::Var(1_000_000 + i as u32))).collect();
        let t = self.subst_once(&m);
        let m2: HashMap<u32, T> = (0..vs.len()).map(|i| (1_000_000 + i as u32, T::Var(i as u32))).collect();
        t.subst_once(&m2)
    }

    fn subst_once(&self, s: &HashMap<u32, T>) -> T {
        match self {
            T::Var(v) => s.get(v).cloned().unwrap_or_else(|| self.clone()),
            T::PList(items, tail) => T::PList(items.iter().map(|t| t.subst_once(s)).collect(), Box::new(tail.subst_once(s))),
            T::Cmp(n, args) => T::Cmp(n.clone(), args.iter().map(|t| t.subst_once(s)).collect()),
            other => other.clone(),
        }
    }

    /// Variant test (equal up to consistent variable renaming), on normal forms.
    pub fn variant(&self, other: &T) -> bool {
        self.norm().canon_vars().eq_struct(&other.norm().canon_vars())
    }

    /// Structural equality on normal forms with float bit equality.
    pub fn eq_struct(&self, other: &T) -> bool {
        match (self, other) {
            (T::Float(a), T::Float(b)) => a.to_bits() == b.to_bits(),
            (T::Var(a), T::Var(b)) => a == b,
            (T::Atom(a), T::Atom(b)) => a == b,
            (T::Int(a), T::Int(b)) => a == b,
            (T::Rat(a, b), T::Rat(c, d)) => a == c && b == d,
            (T::Str(a), T::Str(b)) => a == b,
            (T::PList(a, at), T::PList(b, bt)) => a.len() == b.len() && a.iter().zip(b).all(|(x, y)| x.eq_struct(y)) && at.eq_struct(bt),
            (T::Cmp(n, a), T::Cmp(m, b)) => n == m && a.len() == b.len() && a.iter().zip(b).all(|(x, y)| x.eq_struct(y)),
            _ => false,
        }
    }

    /// Identity `==` in Prolog terms (on normal forms; floats compare by value except that
    /// 0.0 and -0.0 are distinguished only by bit pattern -- callers decide).
    pub fn identical(&self, other: &T) -> bool {
        self.norm().eq_struct(&other.norm())
    }
}

// ---------------------------------------------------------------------------------------------
// Canonical writer

pub fn is_plain_atom(s: &str) -> bool {
    let mut cs = s.chars();
    match cs.next() {
        Some(c) if c.is_ascii_lowercase() => {}
        _ => return false,
    }
    if !s.chars().all(|c| c.is_ascii_alphanumeric() || c == '_') {
        return false;
    }
    // avoid words that are operators or otherwise special to the reader
    !matches!(
        s,
        "is" | "mod" | "rem" | "div" | "rdiv" | "xor" | "dynamic" | "discontiguous" | "initialization" | "table" | "multifile"
            | "meta_predicate" | "module_transparent" | "in" | "ins" | "as" | "non_counted_backtracking"
    )
}

pub fn quote_atom(s: &str) -> String {
    let mut out = String::with_capacity(s.len() + 2);
    out.push('\'');
    for c in s.chars() {
        match c {
            '\'' => out.push_str("\\'"),
            '\\' => out.push_str("\\\\"),
            c if (c as u32) < 0x20 || c as u32 == 0x7f || ((c as u32) >= 0x80 && !c.is_alphanumeric()) => {
                write!(out, "\\x{:x}\\", c as u32).unwrap();
            }
            c => out.push(c),
        }
    }
    out.push('\'');
    out
}

pub fn write_atom(s: &str) -> String {
    if s == "[]" {
        "[]".into()
    } else if is_plain_atom(s) {
        s.to_string()
    } else {
        quote_atom(s)
    }
}

pub fn quote_string(s: &str) -> String {
    let mut out = String::with_capacity(s.len() + 2);
    out.push('"');
    for c in s.chars() {
        match c {
            '"' => out.push_str("\\\""),
            '\\' => out.push_str("\\\\"),
            c if (c as u32) < 0x20 || c as u32 == 0x7f || ((c as u32) >= 0x80 && !c.is_alphanumeric()) => {
                write!(out, "\\x{:x}\\", c as u32).unwrap();
            }
            c => out.push(c),
        }
    }
    out.push('"');
    out
}

/// Shortest round-trip decimal text of a finite double in Prolog syntax.
pub fn write_float(f: f64) -> String {
    assert!(f.is_finite());
    let s = format!("{:e}", f); // e.g. 1.2345e-7, 1e0, -0e0
    let (mant, exp) = s.split_once('e').unwrap();
    let mant = if mant.contains('.') { mant.to_string() } else { format!("{mant}.0") };
    let exp: i32 = exp.parse().unwrap();
    if (-5..=15).contains(&exp) {
        // plain decimal notation through Rust's Display (also shortest round trip)
        let d = format!("{}", f);
        if d.contains('.') {
            d
        } else {
            format!("{d}.0")
        }
    } else {
        format!("{mant}e{exp}")
    }
}

pub fn var_name(v: u32) -> String {
    format!("V{v}")
}

impl T {
    /// Canonical text: functional notation, quoted atoms, no operators.
    pub fn text(&self) -> String {
        let mut s = String::new();
        self.write_text(&mut s);
        s
    }

    pub fn write_text(&self, out: &mut String) {
        match self {
            T::Var(v) => out.push_str(&var_name(*v)),
            T::Atom(a) => out.push_str(&write_atom(a)),
            T::Int(i) => {
                if *i < IBig::ZERO {
                    // a negative literal: '-' immediately followed by digits
                    write!(out, "{}", i).unwrap()
                } else {
                    write!(out, "{}", i).unwrap()
                }
            }
            T::Rat(n, d) => {
                // built by rdiv at run time where used inside `is`; as data: via vp_rat/3
                write!(out, "({} rdiv {})", n, d).unwrap()
            }
            T::Float(f) => out.push_str(&write_float(*f)),
            T::Str(s) => out.push_str(&quote_string(s)),
            T::PList(items, tail) => {
                out.push('[');
                for (i, it) in items.iter().enumerate() {
                    if i > 0 {
                        out.push(',');
                    }
                    it.write_text(out);
                }
                if !tail.is_nil() {
                    out.push('|');
                    tail.write_text(out);
                }
                out.push(']');
            }
            T::Cmp(n, args) => {
                out.push_str(&write_atom(n));
                out.push('(');
                for (i, a) in args.iter().enumerate() {
                    if i > 0 {
                        out.push(',');
                    }
                    a.write_text(out);
                }
                out.push(')');
            }
        }
    }

    /// Tagged ground encoding text understood by `vp_dec/2` in support.pl. Nothing but
    /// integers, fixed lowercase atoms, floats and lists appears in it.
    pub fn enc_text(&self) -> String {
        let mut s = String::new();
        self.write_enc(&mut s);
        s
    }

    fn write_codes(out: &mut String, s: &str) {
        out.push('[');
        for (i, c) in s.chars().enumerate() {
            if i > 0 {
                out.push(',');
            }
            write!(out, "{}", c as u32).unwrap();
        }
        out.push(']');
    }

    pub fn write_enc(&self, out: &mut String) {
        match self {
            T::Var(v) => write!(out, "v({v})").unwrap(),
            T::Atom(a) => {
                out.push_str("a(");
                Self::write_codes(out, a);
                out.push(')');
            }
            T::Int(i) => write!(out, "i({i})").unwrap(),
            T::Rat(n, d) => write!(out, "r({n},{d})").unwrap(),
            T::Float(f) => write!(out, "f({})", write_float(*f)).unwrap(),
            T::Str(s) => {
                out.push_str("s(");
                Self::write_codes(out, s);
                out.push(')');
            }
            T::PList(items, tail) => {
                out.push_str("l([");
                for (i, it) in items.iter().enumerate() {
                    if i > 0 {
                        out.push(',');
                    }
                    it.write_enc(out);
                }
                out.push_str("],");
                tail.write_enc(out);
                out.push(')');
            }
            T::Cmp(n, args) => {
                out.push_str("c(");
                Self::write_codes(out, n);
                out.push_str(",[");
                for (i, a) in args.iter().enumerate() {
                    if i > 0 {
                        out.push(',');
                    }
                    a.write_enc(out);
                }
                out.push_str("])");
            }
        }
    }
}

// ---------------------------------------------------------------------------------------------
// Decoding the transport encoding produced by vp_enc/2

fn term_list(t: &Term) -> Option<Vec<&Term>> {
    match t {
        Term::List(v) => Some(v.iter().collect()),
        Term::Atom(a) if a == "[]" => Some(vec![]),
        Term::String(s) if s.is_empty() => Some(vec![]),
        _ => None,
    }
}

fn codes_to_string(t: &Term) -> Result<String, String> {
    let items = term_list(t).ok_or_else(|| format!("codes: not a list: {t:?}"))?;
    let mut s = String::new();
    for it in items {
        match it {
            Term::Integer(i) => {
                let c: u32 = u32::try_from(i.clone()).map_err(|_| "code out of range".to_string())?;
                s.push(char::from_u32(c).ok_or("bad code")?);
            }
            other => return Err(format!("codes: non-integer {other:?}")),
        }
    }
    Ok(s)
}

/// Decode a `scryer_prolog::Term` holding the tagged encoding into a `T`.
pub fn decode(t: &Term) -> Result<T, String> {
    match t {
        Term::Compound(tag, args) => match (tag.as_str(), args.as_slice()) {
            ("v", [Term::Integer(n)]) => Ok(T::Var(u32::try_from(n.clone()).map_err(|_| "var idx")?)),
            ("a", [codes]) => Ok(T::Atom(codes_to_string(codes)?)),
            ("i", [Term::Integer(n)]) => Ok(T::Int(n.clone())),
            // NB: a rational with denominator 1 (e.g. `X is 7 rdiv 1`) passes integer/1 on the Prolog
            // side and arrives here as i(Rational): that is reported as a decode error (the checks were
            // burned in with that behaviour; C03/C05 carry such values through their own marker).
            ("f", [Term::Float(f)]) => Ok(T::Float(*f)),
            ("r", [Term::Integer(n), Term::Integer(d)]) => Ok(T::Rat(n.clone(), d.clone())),
            ("l", [items, tail]) => {
                let its = term_list(items).ok_or_else(|| format!("l: items not a list: {items:?}"))?;
                let mut out = Vec::with_capacity(its.len());
                for it in its {
                    out.push(decode(it)?);
                }
                let tl = decode(tail)?;
                Ok(T::PList(out, Box::new(tl)))
            }
            ("c", [name, args]) => {
                let n = codes_to_string(name)?;
                let its = term_list(args).ok_or_else(|| format!("c: args not a list: {args:?}"))?;
                let mut out = Vec::with_capacity(its.len());
                for it in its {
                    out.push(decode(it)?);
                }
                Ok(T::Cmp(n, out))
            }
            _ => Err(format!("decode: unknown tag {tag}/{}", args.len())),
        },
        other => Err(format!("decode: not a tagged term: {other:?}")),
    }
}

// ---------------------------------------------------------------------------------------------
// Standard order of terms (per the C13 statement)

fn class_rank(t: &T) -> u8 {
    match t {
        T::Var(_) => 0,
        T::Float(_) => 1,
        T::Int(_) | T::Rat(_, _) => 2,
        T::Atom(_) => 3,
        T::Str(_) | T::PList(_, _) | T::Cmp(_, _) => 4,
    }
}

fn as_compound(t: &T) -> Option<(String, Vec<T>)> {
    match t {
        T::Cmp(n, a) => Some((n.clone(), a.clone())),
        T::PList(items, tail) => {
            if items.is_empty() {
                return as_compound(tail);
            }
            let rest = if items.len() == 1 { (**tail).clone() } else { T::PList(items[1..].to_vec(), tail.clone()) };
            Some((".".to_string(), vec![items[0].clone(), rest]))
        }
        _ => None,
    }
}

/// Standard order comparison on normal forms. Variables compare by index (callers must not
/// rely on a specific variable order). Iterative on the list spine.
pub fn std_cmp(a: &T, b: &T) -> Ordering {
    let (mut a, mut b) = (a.norm(), b.norm());
    loop {
        let (ra, rb) = (class_rank(&a), class_rank(&b));
        if ra != rb {
            return ra.cmp(&rb);
        }
        match (&a, &b) {
            (T::Var(x), T::Var(y)) => return x.cmp(y),
            (T::Float(x), T::Float(y)) => return x.partial_cmp(y).unwrap_or(Ordering::Equal),
            (T::Atom(x), T::Atom(y)) => return x.chars().cmp(y.chars()),
            (T::Int(_) | T::Rat(_, _), T::Int(_) | T::Rat(_, _)) => return crate::num::cmp_exact(&a, &b),
            _ => {}
        }
        let (na, aa) = as_compound(&a).unwrap();
        let (nb, ab) = as_compound(&b).unwrap();
        if aa.len() != ab.len() {
            return aa.len().cmp(&ab.len());
        }
        let c = na.chars().cmp(nb.chars());
        if c != Ordering::Equal {
            return c;
        }
        let n = aa.len();
        for i in 0..n - 1 {
            let c = std_cmp(&aa[i], &ab[i]);
            if c != Ordering::Equal {
                return c;
            }
        }
        a = aa[n - 1].clone();
        b = ab[n - 1].clone();
    }
}

// ---------------------------------------------------------------------------------------------
// Unification on finite terms (reference; occurs check optional)

pub type Subst = HashMap<u32, T>;

pub fn walk(t: &T, s: &Subst) -> T {
    let mut t = t.clone();
    loop {
        match &t {
            T::Var(v) => match s.get(v) {
                Some(n) => t = n.clone(),
                None => return t,
            },
            _ => return t,
        }
    }
}

fn occurs(v: u32, t: &T, s: &Subst) -> bool {
    match walk(t, s) {
        T::Var(w) => v == w,
        T::PList(items, tail) => items.iter().any(|i| occurs(v, i, s)) || occurs(v, &tail, s),
        T::Cmp(_, args) => args.iter().any(|a| occurs(v, a, s)),
        _ => false,
    }
}

/// Finite-term unification. Returns None when not unifiable (with occurs check when `oc`),
/// Err(()) if `oc` is false and a cyclic binding would be created (callers treat separately).
pub fn unify(a: &T, b: &T, s: &mut Subst, oc: bool) -> Result<bool, ()> {
    let mut stack = vec![(a.norm(), b.norm())];
    while let Some((x, y)) = stack.pop() {
        let x = walk(&x, s);
        let y = walk(&y, s);
        match (&x, &y) {
            (T::Var(v), T::Var(w)) if v == w => {}
            (T::Var(v), _) => {
                if occurs(*v, &y, s) {
                    if oc {
                        return Ok(false);
                    } else {
                        return Err(());
                    }
                }
                s.insert(*v, y.clone());
            }
            (_, T::Var(w)) => {
                if occurs(*w, &x, s) {
                    if oc {
                        return Ok(false);
                    } else {
                        return Err(());
                    }
                }
                s.insert(*w, x.clone());
            }
            (T::Atom(p), T::Atom(q)) => {
                if p != q {
                    return Ok(false);
                }
            }
            (T::Int(p), T::Int(q)) => {
                if p != q {
                    return Ok(false);
                }
            }
            (T::Rat(..), T::Rat(..)) => {
                if !x.eq_struct(&y) {
                    return Ok(false);
                }
            }
            (T::Float(p), T::Float(q)) => {
                // unification of floats: identical values (0.0 vs -0.0 left to callers to avoid)
                if p != q {
                    return Ok(false);
                }
            }
            _ => {
                let (ca, cb) = (as_compound(&x), as_compound(&y));
                match (ca, cb) {
                    (Some((n, aa)), Some((m, bb))) => {
                        if n != m || aa.len() != bb.len() {
                            return Ok(false);
                        }
                        for (p, q) in aa.into_iter().zip(bb) {
                            stack.push((p, q));
                        }
                    }
                    _ => return Ok(false),
                }
            }
        }
    }
    Ok(true)
}

/// Fully apply a (triangular, acyclic) substitution.
pub fn resolve(t: &T, s: &Subst) -> T {
    match walk(t, s) {
        T::PList(items, tail) => T::PList(items.iter().map(|i| resolve(i, s)).collect(), Box::new(resolve(&tail, s))).norm(),
        T::Cmp(n, args) => T::Cmp(n, args.iter().map(|a| resolve(a, s)).collect()),
        other => other,
    }
}
