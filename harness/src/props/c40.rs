//! C40 — Inference-limited execution is deterministic and faithful.
//!
//! Goals are the queries of the C07 program generator (deterministic, k solutions, failing,
//! throwing after k solutions). For every goal G:
//!  * baseline: the plain run of G (solutions in order, then `done` or the uncaught ball), which must
//!    agree with the reference interpreter (otherwise the query is skipped: not C40's subject);
//!  * threshold search: call_with_inference_limit(G, L, R) for L = 1, 2, 4, .. until the limit is
//!    not exceeded, then bisection to the smallest such L (T); limits {0, 1, T-2 .. T+2, three values
//!    in [0, 2T], 10T} are then run as well;
//!  * every run is judged by itself: each R is true, ! or inference_limit_exceeded; the template
//!    instances delivered with true / ! are a prefix of the baseline (each up to renaming);
//!    inference_limit_exceeded occurs at most once and last; nothing follows a !; a run that is not
//!    exceeded delivers the whole baseline and ends like it (exhaustion or the same ball); a run that is
//!    exceeded does not end with a ball;
//!  * all runs of one goal together: monotone in L (exceeded at L => exceeded at every smaller tried
//!    L; the number of delivered solutions never decreases with L);
//!  * determinism: every limit of the final list is run twice on the working machine and once on a
//!    fresh machine that has only loaded the program: identical results;
//!  * nesting (first decidable goal of a case): with c = T(limit inside limit over `true`) - T(`true`)
//!    measured on the same machine: an inner limit that cannot fire leaves the outer outcome monotone
//!    with threshold in [T, T + c * (solutions + 1)]; an inner limit that fires (Li = T - 1) under a
//!    large outer limit reports exactly the R sequence and solutions of the single limit Li in Ri while
//!    every Ro is true / !; an outer limit over (inner-limited G, 20 more recursive calls) needs at least
//!    20 more inferences than over (inner-limited G, 0 more calls) (the outer count goes on after the
//!    inner limit is removed); the threshold is never below the number of user-predicate calls the
//!    reference interpreter makes for the goal;
//!  * errors: L unbound -> instantiation_error, negative -> domain_error(not_less_than_zero, L),
//!    not an integer -> type_error(integer, L) (library(iso_ext) source);
//!  * an enclosing findall/3 around the limited goal collects exactly the R sequence of the run, and
//!    the lifted heap is back at its previous size after every run (an interrupted findall/3 inside G).
//! No inference count is asserted: only the relations above.
use crate::engine::*;
use crate::props::c07::{load, LoadErr};
use crate::session::{Outcome, Session};
use crate::shared::proggen::*;
use crate::shared::refint::{ball_matches, Interp, Limits, RefOutcome};
use crate::term::{atom, T};
use serde_json::{json, Value};
use std::collections::BTreeMap;
use std::sync::atomic::{AtomicU64, Ordering};

const C40_PL: &str = include_str!("../../prolog/c40.pl");
const BIG: u64 = 100_000_000;
/// goals whose threshold is above this are not explored further
const MAX_T: u64 = 1 << 17;

static GOALS: AtomicU64 = AtomicU64::new(0);
static RUNS: AtomicU64 = AtomicU64::new(0);
static SKIPPED: AtomicU64 = AtomicU64::new(0);
static NESTED: AtomicU64 = AtomicU64::new(0);

#[derive(Clone, Debug, PartialEq)]
pub struct Run {
    /// (R, template instance) per solution
    pub items: Vec<(T, T)>,
    /// None = exhausted, Some(ball) = ended with this uncaught ball
    pub end: Option<T>,
}

impl Run {
    fn exceeded(&self) -> bool {
        self.items.iter().any(|(r, _)| is_atom(r, "inference_limit_exceeded"))
    }
    fn delivered(&self) -> usize {
        self.items.iter().filter(|(r, _)| !is_atom(r, "inference_limit_exceeded")).count()
    }
    fn short(&self) -> String {
        let it: Vec<String> = self.items.iter().take(12).map(|(r, t)| format!("{}-{}", r.text(), t.text())).collect();
        format!("[{}{}] {}", it.join(", "), if self.items.len() > 12 { ", ..." } else { "" }, self.end.as_ref().map(|b| format!("ball {}", b.text())).unwrap_or("done".into()))
    }
}

fn is_atom(t: &T, a: &str) -> bool {
    matches!(t, T::Atom(x) if x == a)
}

pub struct Env {
    pub s: Session,
    pub n: u64,
    /// overhead of an inner limit under an outer one, measured on `true`
    pub c: Option<u64>,
}

pub fn mk_env() -> Env {
    let mut s = Session::new(&[]);
    assert!(s.consult(C40_PL, "c40_helpers"), "c40.pl failed to load");
    Env { s, n: 0, c: None }
}

fn panic_sig(m: &str) -> String {
    format!("panic:{}", m.split_whitespace().next().unwrap_or("?"))
}

enum RunErr {
    Verdict(Verdict),
}

/// one run of a goal in a mode; also checks that the lifted heap is restored
fn run(s: &mut Session, goal: &str, tmpl: &str, mode: &str) -> Result<Run, RunErr> {
    RUNS.fetch_add(1, Ordering::Relaxed);
    let lifted_before = s.machine.verif_footprint().lifted_heap_cells;
    let cwil_before = s.machine.verif_footprint().cwil_depth;
    let o = s.ask_once(&format!("c40_go(({goal}), {tmpl}, {mode})"), "[]");
    match &o {
        Outcome::Sols(v) if v.len() == 1 => {}
        Outcome::Panic(m) => return Err(RunErr::Verdict(Verdict::fail(panic_sig(m), format!("?- {goal}. in mode {mode} panicked: {m}")))),
        Outcome::Harness(m) => return Err(RunErr::Verdict(Verdict::Discard(format!("harness:{}", m.chars().take(40).collect::<String>())))),
        other => return Err(RunErr::Verdict(Verdict::fail("runner-failed:", format!("?- {goal}. in mode {mode}: the runner gave {}", other.short())))),
    }
    let f = s.machine.verif_footprint();
    if f.lifted_heap_cells != lifted_before {
        return Err(RunErr::Verdict(Verdict::fail(
            "lifted-heap:not-restored-after-limited-run",
            format!("?- {goal}. in mode {mode}: the lifted heap (findall/3 results) holds {} cells after the run, {lifted_before} before it", f.lifted_heap_cells),
        )));
    }
    if f.cwil_depth != cwil_before {
        return Err(RunErr::Verdict(Verdict::fail("limit-stack:not-restored", format!("?- {goal}. in mode {mode}: {} inference limits are still installed after the run ({cwil_before} before it)", f.cwil_depth))));
    }
    let o = s.ask("bb_get(c40_out, X)", "X");
    let x = match &o {
        Outcome::Sols(v) if v.len() == 1 => v[0].clone(),
        Outcome::Panic(m) => return Err(RunErr::Verdict(Verdict::fail(panic_sig(m), format!("reading the result of ?- {goal}. in mode {mode} panicked: {m}")))),
        other => return Err(RunErr::Verdict(Verdict::fail("result-unreadable:", format!("?- {goal}. in mode {mode}: reading the result gave {}", other.short())))),
    };
    let bad = |x: &T| RunErr::Verdict(Verdict::fail("result-unreadable:", format!("?- {goal}. in mode {mode}: unexpected result term {}", x.text())));
    let T::Cmp(n, a) = &x else { return Err(bad(&x)) };
    if n != "-" || a.len() != 2 {
        return Err(bad(&x));
    }
    let end = match &a[1] {
        T::Atom(d) if d == "done" => None,
        T::Cmp(b, ba) if b == "ball" && ba.len() == 1 => Some(ba[0].clone()),
        _ => return Err(bad(&x)),
    };
    let list: Vec<T> = match &a[0] {
        T::PList(items, tl) if tl.is_nil() => items.clone(),
        T::Str(st) => st.chars().map(|c| T::Atom(c.to_string())).collect(),
        t if t.is_nil() => vec![],
        T::Atom(f) if f == "failed" => vec![atom("failed")],
        _ => return Err(bad(&x)),
    };
    let mut items = vec![];
    for it in list {
        match it {
            T::Cmp(d, mut da) if d == "-" && da.len() == 2 => {
                let t = da.pop().unwrap();
                items.push((da.pop().unwrap(), t));
            }
            // enclosed mode: bare R values
            other => items.push((other, atom("-"))),
        }
    }
    Ok(Run { items, end })
}

fn same_term(a: &T, b: &T) -> bool {
    a.eq_struct(b) || a.variant(b) || ball_matches(a, b)
}

fn same_run(a: &Run, b: &Run) -> bool {
    a.items.len() == b.items.len()
        && a.items.iter().zip(&b.items).all(|((r1, t1), (r2, t2))| same_term(r1, r2) && same_term(t1, t2))
        && match (&a.end, &b.end) {
            (None, None) => true,
            (Some(x), Some(y)) => same_term(x, y),
            _ => false,
        }
}

/// the rules every single limited run must obey, given the baseline
fn judge_run(base: &Run, r: &Run, limit: u64) -> Option<(String, String)> {
    let n = r.items.len();
    for (i, (res, t)) in r.items.iter().enumerate() {
        let last = i + 1 == n;
        match res {
            T::Atom(a) if a == "true" => {}
            T::Atom(a) if a == "!" => {
                if !last {
                    return Some(("solution-after-cut-result:".into(), format!("limit {limit}: R = ! on solution {} of {n}: a deterministic exit cannot be followed by another solution", i + 1)));
                }
            }
            T::Atom(a) if a == "inference_limit_exceeded" => {
                if !last {
                    return Some(("solution-after-exceeded:".into(), format!("limit {limit}: inference_limit_exceeded on solution {} of {n}, further solutions follow", i + 1)));
                }
                continue;
            }
            other => return Some(("wrong-result-term:".into(), format!("limit {limit}: R = {} on solution {}", other.text(), i + 1))),
        }
        match base.items.get(i) {
            Some((_, bt)) if same_term(bt, t) => {}
            Some((_, bt)) => return Some(("not-a-prefix:different".into(), format!("limit {limit}: solution {} is {} but the unlimited run gives {}", i + 1, t.text(), bt.text()))),
            None => return Some(("not-a-prefix:more".into(), format!("limit {limit}: solution {} = {} but the unlimited run has only {} solutions", i + 1, t.text(), base.items.len()))),
        }
    }
    if r.exceeded() {
        if let Some(b) = &r.end {
            return Some(("ball-after-exceeded:".into(), format!("limit {limit}: inference_limit_exceeded was reported and then the ball {} escaped", b.text())));
        }
    } else {
        if r.delivered() != base.items.len() {
            return Some(("not-exceeded-but-incomplete:".into(), format!("limit {limit}: the limit was not exceeded but only {} of {} solutions were delivered", r.delivered(), base.items.len())));
        }
        match (&base.end, &r.end) {
            (None, None) => {}
            (Some(x), Some(y)) if same_term(x, y) => {}
            (x, y) => {
                return Some((
                    "not-exceeded-but-different-end:".into(),
                    format!("limit {limit}: the unlimited run ends with {} but the limited run with {}", x.as_ref().map(|b| b.text()).unwrap_or("exhaustion".into()), y.as_ref().map(|b| b.text()).unwrap_or("exhaustion".into())),
                ))
            }
        }
    }
    None
}

struct Explorer<'a> {
    s: &'a mut Session,
    goal: String,
    tmpl: String,
    base: Run,
    runs: BTreeMap<u64, Run>,
}

impl<'a> Explorer<'a> {
    fn at(&mut self, mode_of: &dyn Fn(u64) -> String, judge: bool, l: u64) -> Result<Run, Verdict> {
        if let Some(r) = self.runs.get(&l) {
            return Ok(r.clone());
        }
        let r = match run(self.s, &self.goal, &self.tmpl, &mode_of(l)) {
            Ok(r) => r,
            Err(RunErr::Verdict(v)) => return Err(v),
        };
        if judge {
            if let Some((sig, d)) = judge_run(&self.base, &r, l) {
                return Err(Verdict::fail(sig, format!("?- call_with_inference_limit({}, {l}, R).\n{d}\nunlimited: {}\nlimited:   {}", self.goal, self.base.short(), r.short())));
            }
        }
        self.runs.insert(l, r.clone());
        Ok(r)
    }

    /// smallest limit that is not exceeded (None: above MAX_T)
    fn threshold(&mut self, mode_of: &dyn Fn(u64) -> String, judge: bool, exceeded: &dyn Fn(&Run) -> bool) -> Result<Option<u64>, Verdict> {
        if !exceeded(&self.at(mode_of, judge, 0)?) {
            return Ok(Some(0));
        }
        let mut lo = 0u64; // exceeded
        let mut hi = 1u64;
        loop {
            if !exceeded(&self.at(mode_of, judge, hi)?) {
                break;
            }
            lo = hi;
            hi *= 2;
            if hi > MAX_T {
                return Ok(None);
            }
        }
        while hi - lo > 1 {
            let mid = lo + (hi - lo) / 2;
            if exceeded(&self.at(mode_of, judge, mid)?) {
                lo = mid;
            } else {
                hi = mid;
            }
        }
        Ok(Some(hi))
    }

    fn monotone(&self, what: &str, exceeded: &dyn Fn(&Run) -> bool, delivered: &dyn Fn(&Run) -> usize) -> Option<(String, String)> {
        let mut prev: Option<(u64, bool, usize)> = None;
        for (l, r) in &self.runs {
            let (e, d) = (exceeded(r), delivered(r));
            if let Some((pl, pe, pd)) = prev {
                if !pe && e {
                    return Some((format!("not-monotone:exceeded{what}"), format!("?- {}: limit {pl} is not exceeded but the larger limit {l} is", self.goal)));
                }
                if d < pd {
                    return Some((format!("not-monotone:solutions{what}"), format!("?- {}: limit {pl} delivers {pd} solutions but the larger limit {l} only {d}", self.goal)));
                }
            }
            prev = Some((*l, e, d));
        }
        None
    }
}

fn lim_mode(l: u64) -> String {
    format!("lim({l})")
}

fn check_errors(s: &mut Session) -> Result<(), Verdict> {
    for (l, want) in [("_", "instantiation_error"), ("-1", "domain_error(not_less_than_zero,-1)"), ("a", "type_error(integer,a)"), ("1.5", "type_error(integer,1.5)"), ("f(x)", "type_error(integer,f(x))")] {
        let r = match run(s, "true", "[]", &format!("lim({l})")) {
            Ok(r) => r,
            Err(RunErr::Verdict(v)) => return Err(v),
        };
        let formal = match &r.end {
            Some(T::Cmp(e, a)) if e == "error" && a.len() == 2 => Some(a[0].text()),
            _ => None,
        };
        if !r.items.is_empty() || formal.as_deref() != Some(want) {
            return Err(Verdict::fail(format!("wrong-limit-error:{}", want.split('(').next().unwrap_or(want)), format!("?- call_with_inference_limit(true, {l}, R). expected error({want}, _), got {}", r.short())));
        }
    }
    Ok(())
}

fn pseudo(seed: u64, k: u64, range: u64) -> u64 {
    // deterministic "random" limits from the case itself (no RNG in check)
    let mut h = seed ^ (k.wrapping_mul(0x9E3779B97F4A7C15));
    h ^= h >> 29;
    h = h.wrapping_mul(0xBF58476D1CE4E5B9);
    h ^= h >> 32;
    if range == 0 {
        0
    } else {
        h % (range + 1)
    }
}

pub fn check(env: &mut Env, case: &GenCase) -> Verdict {
    let prefix = format!("e{}x_", env.n);
    env.n += 1;
    let c = rename_case(case, &prefix);
    let text = render_program(&c.prog);
    match load(&mut env.s, &text, &format!("e{}", env.n)) {
        Ok(()) => {}
        Err(LoadErr::Panic(m)) => return Verdict::fail(panic_sig(&m), format!("consult panicked: {m}\n{text}")),
        Err(LoadErr::Rejected(m)) => return Verdict::fail("load-rejected:", format!("valid program text was not loaded ({m})\n{text}")),
    }
    if env.c.is_none() {
        if let Err(v) = check_errors(&mut env.s) {
            return v;
        }
        // overhead of a limit inside a limit, on the empty goal
        let base = Run { items: vec![(atom("p"), atom("[]"))], end: None };
        let mut ex = Explorer { s: &mut env.s, goal: "true".into(), tmpl: "[]".into(), base: base.clone(), runs: BTreeMap::new() };
        let t0 = match ex.threshold(&lim_mode, true, &|r| r.exceeded()) {
            Ok(Some(t)) => t,
            Ok(None) => return Verdict::Discard("overhead-not-measurable".into()),
            Err(v) => return v,
        };
        ex.runs.clear();
        let outer_exc = |r: &Run| r.items.iter().any(|(res, _)| matches!(res, T::Cmp(n, a) if n == "n" && a.len() == 2 && is_atom(&a[0], "inference_limit_exceeded")) || is_atom(res, "inference_limit_exceeded"));
        let t1 = match ex.threshold(&|l| format!("nest({BIG}, {l})"), false, &outer_exc) {
            Ok(Some(t)) => t,
            Ok(None) => return Verdict::Discard("overhead-not-measurable".into()),
            Err(v) => return v,
        };
        if t1 < t0 {
            return Verdict::fail("nested-threshold:below-plain", format!("?- true. needs the limit {t0}, inside a second (non-firing) limit only {t1}"));
        }
        env.c = Some(t1 - t0);
    }
    let over = env.c.unwrap();
    let fails = |v: Verdict, text: &str| match v {
        Verdict::Fail { signature, detail } => {
            let shapes: Vec<&str> = known_shapes(&c.prog).into_iter().collect();
            let sig = if shapes.is_empty() || signature.starts_with("panic") { signature } else { format!("{signature}+{}", shapes.join("+")) };
            Verdict::fail(sig, format!("{detail}\nprogram:\n{text}"))
        }
        other => other,
    };

    let mut interp = Interp::new(&c.prog);
    let lim = Limits { max_steps: 30_000, max_solutions: 300, max_term_nodes: 2_000 };
    let mut fresh: Option<Session> = None;
    let mut classes: Vec<String> = vec![];
    let add = |classes: &mut Vec<String>, s: &str| {
        if !classes.contains(&s.to_string()) {
            classes.push(s.to_string());
        }
    };
    let mut decided = 0;
    let mut nested_done = false;
    let seed = fnv64(text.as_bytes());
    for (qi, q) in c.queries.iter().enumerate() {
        let expected = interp.solve(&q.goal, &q.template, &lim);
        if matches!(expected, RefOutcome::Limit | RefOutcome::Unsupported(_)) {
            SKIPPED.fetch_add(1, Ordering::Relaxed);
            continue;
        }
        let user_calls = interp.user_calls;
        let goal = goal_text(&q.goal);
        let tmpl = q.template.text();
        // baseline
        let base = match run(&mut env.s, &goal, &tmpl, "plain") {
            Ok(r) => r,
            Err(RunErr::Verdict(v)) => return fails(v, &text),
        };
        let agrees = match &expected {
            RefOutcome::Sols(s) => base.end.is_none() && base.items.len() == s.len() && base.items.iter().zip(s).all(|((_, t), e)| same_term(e, t)),
            RefOutcome::Ex(b) => matches!(&base.end, Some(o) if ball_matches(b, o)),
            _ => false,
        };
        if !agrees {
            // the unlimited run itself is not what the reference says: C07's subject, not judged here
            SKIPPED.fetch_add(1, Ordering::Relaxed);
            add(&mut classes, "skipped:plain-run-differs-from-reference");
            continue;
        }
        GOALS.fetch_add(1, Ordering::Relaxed);
        let mut ex = Explorer { s: &mut env.s, goal: goal.clone(), tmpl: tmpl.clone(), base: base.clone(), runs: BTreeMap::new() };
        let t = match ex.threshold(&lim_mode, true, &|r| r.exceeded()) {
            Ok(Some(t)) => t,
            Ok(None) => {
                add(&mut classes, "skipped:threshold-above-bound");
                continue;
            }
            Err(v) => return fails(v, &text),
        };
        // every call of a user predicate is an inference: the reference's call count is a lower bound
        if t < user_calls {
            return fails(Verdict::fail("threshold-below-call-count:", format!("?- {goal}. runs to completion under the limit {t}, but the reference interpreter makes {user_calls} calls of user predicates for it")), &text);
        }
        let mut limits: Vec<u64> = vec![0, 1, t.saturating_sub(2), t.saturating_sub(1), t, t + 1, t + 2, 10 * t.max(1)];
        for k in 0..3 {
            limits.push(pseudo(seed, (qi as u64) * 7 + k, 2 * t));
        }
        limits.sort();
        limits.dedup();
        for l in &limits {
            if let Err(v) = ex.at(&lim_mode, true, *l) {
                return fails(v, &text);
            }
        }
        if let Some((sig, d)) = ex.monotone("", &|r| r.exceeded(), &|r| r.delivered()) {
            let all: Vec<String> = ex.runs.iter().map(|(l, r)| format!("  {l}: {}", r.short())).collect();
            return fails(Verdict::fail(sig, format!("{d}\n{}", all.join("\n"))), &text);
        }
        let single_runs = ex.runs.clone();
        // determinism: second run on this machine, one run on a fresh machine
        for l in &limits {
            let again = match run(&mut env.s, &goal, &tmpl, &lim_mode(*l)) {
                Ok(r) => r,
                Err(RunErr::Verdict(v)) => return fails(v, &text),
            };
            if !same_run(&single_runs[l], &again) {
                return fails(Verdict::fail("not-deterministic:same-machine", format!("?- call_with_inference_limit({goal}, {l}, R). first run: {}\nsecond run on the same machine: {}", single_runs[l].short(), again.short())), &text);
            }
        }
        if fresh.is_none() {
            let mut s2 = Session::new(&[]);
            if !s2.consult(C40_PL, "c40_helpers") || load(&mut s2, &text, "fresh").is_err() {
                return Verdict::Discard("fresh-machine-load-failed".into());
            }
            fresh = Some(s2);
        }
        for l in &limits {
            let other = match run(fresh.as_mut().unwrap(), &goal, &tmpl, &lim_mode(*l)) {
                Ok(r) => r,
                Err(RunErr::Verdict(v)) => return fails(v, &text),
            };
            if !same_run(&single_runs[l], &other) {
                return fails(Verdict::fail("not-deterministic:fresh-machine", format!("?- call_with_inference_limit({goal}, {l}, R). on the working machine: {}\non a fresh machine: {}", single_runs[l].short(), other.short())), &text);
            }
        }
        // an enclosing findall/3 sees the same R sequence
        for l in [t.saturating_sub(1), t] {
            let enc = match run(&mut env.s, &goal, &tmpl, &format!("enclosed({l})")) {
                Ok(r) => r,
                Err(RunErr::Verdict(v)) => return fails(v, &text),
            };
            let want: Vec<String> = single_runs[&l].items.iter().map(|(r, _)| r.text()).collect();
            let got: Vec<String> = enc.items.iter().map(|(r, _)| r.text()).collect();
            let end_ok = match (&single_runs[&l].end, &enc.end) {
                (None, None) => true,
                (Some(a), Some(b)) => same_term(a, b),
                _ => false,
            };
            if (single_runs[&l].end.is_none() && want != got) || !end_ok {
                return fails(
                    Verdict::fail("enclosing-findall:differs", format!("?- findall(R, call_with_inference_limit({goal}, {l}, R), Rs). gives Rs = [{}] {:?}, the solutions one by one give [{}] {:?}", got.join(","), enc.end.as_ref().map(|b| b.text()), want.join(","), single_runs[&l].end.as_ref().map(|b| b.text()))),
                    &text,
                );
            }
        }
        decided += 1;
        add(&mut classes, match base.items.len() {
            0 => "goal:no-solution",
            1 => "goal:1-solution",
            _ => "goal:>=2-solutions",
        });
        if base.end.is_some() {
            add(&mut classes, "goal:ends-with-ball");
        }
        add(&mut classes, match t {
            0..=1 => "threshold:0-1",
            2..=9 => "threshold:2-9",
            10..=99 => "threshold:10-99",
            _ => "threshold:>=100",
        });
        if single_runs.values().any(|r| r.exceeded() && r.delivered() > 0) {
            add(&mut classes, "exceeded-after->=1-solution");
        }

        // nesting
        if !nested_done {
            nested_done = true;
            NESTED.fetch_add(1, Ordering::Relaxed);
            let outer_exc = |r: &Run| r.items.iter().any(|(res, _)| matches!(res, T::Cmp(n, a) if n == "n" && a.len() == 2 && is_atom(&a[0], "inference_limit_exceeded")) || is_atom(res, "inference_limit_exceeded"));
            let outer_delivered = |r: &Run| r.items.iter().filter(|(res, _)| matches!(res, T::Cmp(n, a) if n == "n" && a.len() == 2 && !is_atom(&a[0], "inference_limit_exceeded"))).count();
            // (a) the inner limit cannot fire
            let mut exn = Explorer { s: &mut env.s, goal: goal.clone(), tmpl: tmpl.clone(), base: base.clone(), runs: BTreeMap::new() };
            let tn = match exn.threshold(&|l| format!("nest({BIG}, {l})"), false, &outer_exc) {
                Ok(Some(x)) => x,
                Ok(None) => u64::MAX,
                Err(v) => return fails(v, &text),
            };
            if tn != u64::MAX {
                for l in [0, tn.saturating_sub(1), tn, tn + 1, 10 * tn.max(1)] {
                    if let Err(v) = exn.at(&|l| format!("nest({BIG}, {l})"), false, l) {
                        return fails(v, &text);
                    }
                }
                if let Some((sig, d)) = exn.monotone("-nested", &outer_exc, &outer_delivered) {
                    return fails(Verdict::fail(sig, d), &text);
                }
                let hi = t + over * (base.items.len() as u64 + 1);
                if tn < t || tn > hi {
                    return fails(
                        Verdict::fail(
                            if tn < t { "nested-threshold:below-plain" } else { "nested-threshold:above-plain-plus-overhead" },
                            format!("?- {goal}. needs the limit {t} alone ({} solutions); inside an inner limit of {BIG} the outer limit needs {tn}, expected {t}..{hi} (overhead {over} per limit entry)", base.items.len()),
                        ),
                        &text,
                    );
                }
                // a complete nested run must deliver the baseline with Ri in {true, !}
                let full = exn.runs[&(10 * tn.max(1))].clone();
                let ok = full.items.len() == base.items.len()
                    && full.end.as_ref().map(|b| b.text()) == base.end.as_ref().map(|b| b.text())
                    && full.items.iter().zip(&base.items).all(|((res, t1), (_, t2))| same_term(t1, t2) && matches!(res, T::Cmp(n, a) if n == "n" && a.len() == 2 && (is_atom(&a[0], "true") || is_atom(&a[0], "!")) && (is_atom(&a[1], "true") || is_atom(&a[1], "!"))));
                if !ok && base.end.is_none() {
                    return fails(Verdict::fail("nested-run:differs-from-plain", format!("?- {goal}. under two non-firing limits: {}\nplain: {}", full.short(), base.short())), &text);
                }
                // (b2) a *tight* inner limit (just enough for the goal, so its absolute value lies close to
                // the outer one): the outer outcome must still be monotone in the outer limit -- an inner
                // limit that is looser than what the outer limit has left must not replace it
                if t != u64::MAX && t < 5000 {
                    let li = t + 2;
                    let mut ext = Explorer { s: &mut env.s, goal: goal.clone(), tmpl: tmpl.clone(), base: base.clone(), runs: BTreeMap::new() };
                    let lo = t.saturating_sub(12);
                    let mut l = lo;
                    while l <= t + 4 * over + 40 {
                        if let Err(v) = ext.at(&|l| format!("nest({li}, {l})"), false, l) {
                            return fails(v, &text);
                        }
                        l += 3;
                    }
                    if let Some((sig, d)) = ext.monotone("-nested-tight-inner", &outer_exc, &outer_delivered) {
                        return fails(Verdict::fail(sig, d), &text);
                    }
                    add(&mut classes, "nested:tight-inner-limit-scan");
                }
                // (c) the outer count goes on after the inner limit has been removed: calls that follow
                // the inner limited goal inside the outer limit are counted (20 more recursive calls
                // need at least 20 more inferences)
                if !base.items.is_empty() {
                    let mut ts = [0u64; 2];
                    for (k, n) in [0u64, 20].iter().enumerate() {
                        let mut exs = Explorer { s: &mut env.s, goal: goal.clone(), tmpl: tmpl.clone(), base: base.clone(), runs: BTreeMap::new() };
                        ts[k] = match exs.threshold(&|l| format!("seq({BIG}, {l}, {n})"), false, &outer_exc) {
                            Ok(Some(x)) => x,
                            Ok(None) => u64::MAX,
                            Err(v) => return fails(v, &text),
                        };
                    }
                    if ts[0] != u64::MAX && ts[1] != u64::MAX && ts[1] < ts[0] + 20 {
                        return fails(
                            Verdict::fail("outer-count-lost-after-inner-limit:", format!("?- {goal}. inside an inner limit, followed by c40_tail(0) inside the outer limit, needs the outer limit {}; followed by c40_tail(20) (20 more recursive calls) it needs only {}", ts[0], ts[1])),
                            &text,
                        );
                    }
                }
                add(&mut classes, "nested:inner-limit-does-not-fire");
            }
            // (b) the inner limit fires, the outer one does not
            if t >= 1 {
                let li = t - 1;
                let r = match run(&mut env.s, &goal, &tmpl, &format!("nest({li}, {BIG})")) {
                    Ok(r) => r,
                    Err(RunErr::Verdict(v)) => return fails(v, &text),
                };
                let single = &single_runs[&li];
                let ok = r.items.len() == single.items.len()
                    && r.end.is_none() == single.end.is_none()
                    && r.items.iter().zip(&single.items).all(|((res, t1), (ri, t2))| same_term(t1, t2) && matches!(res, T::Cmp(n, a) if n == "n" && a.len() == 2 && (is_atom(&a[0], "true") || is_atom(&a[0], "!")) && same_term(&a[1], ri)));
                if !ok {
                    return fails(Verdict::fail("nested-inner-fires:differs-from-single-limit", format!("?- {goal}. with the single limit {li}: {}\nwith the inner limit {li} under an outer limit of {BIG} (items n(Ro,Ri)-T): {}", single.short(), r.short())), &text);
                }
                add(&mut classes, "nested:inner-limit-fires");
            }
        }
    }
    if decided == 0 {
        return Verdict::Discard("no-decidable-query".into());
    }
    let cl: Vec<&str> = classes.iter().map(|s| s.as_str()).collect();
    // every decided goal is explored within +-2 of its threshold
    Verdict::pass(true, &cl)
}

pub struct C40;

impl Prop for C40 {
    fn id(&self) -> &'static str {
        "C40"
    }
    fn rule(&self) -> &'static str {
        "programs and queries of the C07 generator; per goal: plain run (must agree with the reference interpreter), threshold T by doubling + bisection over call_with_inference_limit(G, L, R), limits {0, 1, T-2..T+2, 3 values in [0,2T], 10T}; every run: R in {true, !, inference_limit_exceeded}, delivered solutions a prefix of the plain run, exceeded at most once and last, nothing after !, not exceeded => complete and same end; all runs: monotone in L; every listed limit run twice on the working machine and once on a fresh machine: identical; enclosing findall/3 = same R sequence; lifted heap and limit stack restored after every run; nesting on the first decidable goal of a case (inner limit that cannot fire: outer monotone, threshold within [T, T + c*(solutions+1)], outer count continues after the inner limit; inner limit T-1 under a large outer limit: Ri and solutions identical to the single limit, Ro in {true,!}); limit errors; non-trivial = every decided goal (all are explored within +-2 of the threshold); distinct by case encoding"
    }
    fn assumptions(&self) -> Vec<String> {
        vec![
            "the plain (unlimited) run of a goal is checked against the reference interpreter shared/refint.rs; goals where they differ are skipped (C07's subject)".into(),
            "results are collected by a failure-driven loop over bb_put/bb_get (prolog/c40.pl), not by findall/3".into(),
            "no absolute inference count is asserted, only relations between runs".into(),
        ]
    }
    fn run_shard(&self, cfg: &ShardCfg) -> ShardResult {
        let mut d = Driver::new(cfg, "C40");
        let n = cfg.share(cfg.tier.pick(900, 60_000));
        let gcfg = GenCfg { max_queries: 4, ..GenCfg::default() };
        d.run("program", 0, n, 60, case_strategy(gcfg), &mk_env, &check);
        d.res.extra.insert("goals_explored".into(), json!(GOALS.load(Ordering::Relaxed)));
        d.res.extra.insert("limited_runs".into(), json!(RUNS.load(Ordering::Relaxed)));
        d.res.extra.insert("queries_skipped".into(), json!(SKIPPED.load(Ordering::Relaxed)));
        d.res.extra.insert("goals_with_nesting_checks".into(), json!(NESTED.load(Ordering::Relaxed)));
        d.finish()
    }
    fn replay(&self, _kind: &str, case: &Value) -> Verdict {
        replay_case::<GenCase, Env>(case, &mk_env, &check)
    }
    fn case_timeout_s(&self, _tier: Tier) -> u64 {
        150
    }
    /// triage: `vcheck child C40 mkcase file.json` with {"text": program over p0..pN, "queries": [goal, ..]}
    /// runs the check and prints a replay file; `vcheck child C40 table file.json` prints the runs for limits 0..N
    fn child(&self, mode: &str, input: &Value) -> i32 {
        let case: GenCase = if input.get("text").is_some() {
            let prog = crate::shared::refint::Program::from_text(input["text"].as_str().unwrap_or("")).expect("program text");
            let mut queries = vec![];
            for q in input["queries"].as_array().cloned().unwrap_or_default() {
                let goal = crate::shared::plparse::parse_term(q.as_str().unwrap()).expect("query text");
                let mut vs = vec![];
                goal.vars(&mut vs);
                let template = crate::term::list(vs.into_iter().map(T::Var).collect());
                queries.push(Query { goal, template });
            }
            GenCase { prog, queries }
        } else {
            let cv = if input.get("case").is_some() { input["case"].clone() } else { input.clone() };
            serde_json::from_value(cv).expect("case")
        };
        if mode == "mkcase" {
            let (sig, detail) = match check(&mut mk_env(), &case) {
                Verdict::Fail { signature, detail } => (signature, detail),
                Verdict::Pass { .. } => ("pass".into(), String::new()),
                Verdict::Discard(w) => (format!("discard {w}"), String::new()),
            };
            println!("{}", serde_json::to_string_pretty(&json!({"property": "C40", "kind": "program", "signature": sig, "detail": detail, "case": case})).unwrap());
            return 0;
        }
        let c = rename_case(&case, "k_");
        let text = render_program(&c.prog);
        println!("{text}");
        let mut env = mk_env();
        if load(&mut env.s, &text, "dbg").is_err() {
            println!("load failed");
            return 1;
        }
        let upto = input["upto"].as_u64().unwrap_or(12);
        for q in &c.queries {
            let g = goal_text(&q.goal);
            println!("?- {g}.");
            for l in 0..=upto {
                match run(&mut env.s, &g, &q.template.text(), &lim_mode(l)) {
                    Ok(r) => println!("   {l}: {}", r.short()),
                    Err(RunErr::Verdict(v)) => println!("   {l}: {v:?}"),
                }
            }
        }
        0
    }
}
