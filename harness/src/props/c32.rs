//! C32 — Concurrent machines intern atoms consistently.
//!
//! Statistical exploration (the schedule is perturbed, not owned): a run spawns T threads in a
//! fresh child process (fresh process-wide atom table, 64 KiB first block) that intern texts
//! from a universe with controlled overlap (disjoint / pairwise shared / all shared) large
//! enough to cross at least one growth of the table, and read texts back through ids obtained
//! by themselves and — through a lock-free slot array — by other threads, before, during and
//! after growths. At the four yield points inside `AtomTable::build_with` every thread follows a
//! seeded perturbation plan {continue, yield_now, spin, sleep 50..500 us; one "victim" thread is
//! occasionally stalled for milliseconds inside a window}.
//! Second layer: real `Machine`s in threads create and read back atoms with atom_codes/2,
//! atom_concat/3, atom_length/2 concurrently.
//!
//! Oracle (history invariants): same text => same id in every thread and at every time;
//! different texts => different ids; `text(id)` always returns the interned text; the
//! machine-level answers equal the texts computed by the harness; no panic. A run that does
//! not finish within the watchdog is reported as inconclusive (discard), not as a violation.

use crate::engine::*;
use proptest::prelude::*;
use scryer_prolog::verif_hooks::{atoms, VerifAtomTable};
use serde::{Deserialize, Serialize};
use serde_json::{json, Value};
use std::cell::RefCell;
use std::collections::HashMap;
use std::sync::atomic::{AtomicBool, AtomicU64, Ordering};
use std::sync::Arc;

pub struct C32;

#[derive(Clone, Debug, Serialize, Deserialize, PartialEq)]
pub struct Run {
    pub seed: u64,
    pub threads: u8,
    /// distinct texts in the universe
    pub texts: u16,
    /// bytes per text (beyond the 6-byte inline limit)
    pub text_len: u8,
    /// 0 disjoint, 1 pairwise shared, 2 all shared
    pub overlap: u8,
    /// perturbation intensity 0..3 (0 = no perturbation)
    pub intensity: u8,
    /// layer: false = direct interning, true = real machines running queries
    pub machines: bool,
}

fn xorshift(s: &mut u64) -> u64 {
    let mut x = *s;
    x ^= x << 13;
    x ^= x >> 7;
    x ^= x << 17;
    *s = x;
    x
}

fn text_of(run: &Run, j: usize) -> String {
    // unique per index, multi-byte characters in some, fixed length >= 8
    let mut t = format!("c32·{:x}·{}", run.seed & 0xffff, j);
    let mut k = 0u8;
    while t.len() < run.text_len.max(8) as usize {
        t.push((b'a' + k.wrapping_add(j as u8) % 26) as char);
        k = k.wrapping_add(1);
    }
    t
}

// ---------------------------------------------------------------------------------------------
// perturbation plan (per thread, consulted by the yield hook)

struct Plan {
    rng: u64,
    intensity: u8,
    victim: bool,
}

thread_local! {
    static PLAN: RefCell<Option<Plan>> = const { RefCell::new(None) };
}

static YIELDS: AtomicU64 = AtomicU64::new(0);
static SLEEPS: AtomicU64 = AtomicU64::new(0);
static STALLS: AtomicU64 = AtomicU64::new(0);

fn hook(point: u8) {
    PLAN.with(|p| {
        let mut p = p.borrow_mut();
        let Some(plan) = p.as_mut() else { return };
        if plan.intensity == 0 {
            return;
        }
        let r = xorshift(&mut plan.rng);
        let dice = r % 100;
        // the victim is stalled for a long time at the race windows now and then
        if plan.victim && (point == 0 || point == 2 || point == 3) && r % 37 == 0 {
            STALLS.fetch_add(1, Ordering::Relaxed);
            std::thread::sleep(std::time::Duration::from_micros(1500 + (r >> 8) % 3000));
            return;
        }
        let (p_yield, p_spin, p_sleep) = match plan.intensity {
            1 => (20, 5, 1),
            2 => (35, 15, 4),
            _ => (40, 20, 10),
        };
        if dice < p_yield {
            YIELDS.fetch_add(1, Ordering::Relaxed);
            std::thread::yield_now();
        } else if dice < p_yield + p_spin {
            let n = (r >> 16) % 2000;
            for _ in 0..n {
                std::hint::spin_loop();
            }
        } else if dice < p_yield + p_spin + p_sleep {
            SLEEPS.fetch_add(1, Ordering::Relaxed);
            std::thread::sleep(std::time::Duration::from_micros(50 + (r >> 8) % 450));
        }
    });
}

// ---------------------------------------------------------------------------------------------
// layer 1: direct interning

#[derive(Default, Serialize, Deserialize, Debug)]
struct RunOut {
    violation: Option<(String, String)>,
    retries: u64,
    growths: u64,
    inserts: u64,
    yields: u64,
    sleeps: u64,
    stalls: u64,
    ops: u64,
    readbacks: u64,
    cross_reads: u64,
}

/// which texts thread t interns, in which order
fn script(run: &Run, t: usize) -> Vec<usize> {
    let n = run.texts as usize;
    let tn = run.threads as usize;
    let mut idx: Vec<usize> = match run.overlap {
        0 => (0..n).filter(|j| j % tn == t).collect(),
        1 => (0..n).filter(|j| j % tn == t || (j + 1) % tn == t).collect(),
        _ => (0..n).collect(),
    };
    // every text is interned twice by its owners (second time must hit the lookup path)
    let mut again = idx.clone();
    idx.append(&mut again);
    let mut s = run.seed ^ (t as u64 + 1).wrapping_mul(0x9E3779B97F4A7C15) | 1;
    for i in (1..idx.len()).rev() {
        let j = (xorshift(&mut s) % (i as u64 + 1)) as usize;
        idx.swap(i, j);
    }
    idx
}

fn run_direct(run: &Run) -> RunOut {
    let table = Arc::new(VerifAtomTable::get());
    let n = run.texts as usize;
    let texts: Arc<Vec<String>> = Arc::new((0..n).map(|j| text_of(run, j)).collect());
    // slot j: id + 1 of text j as obtained by whoever interned it first (0 = none yet)
    let slots: Arc<Vec<AtomicU64>> = Arc::new((0..n).map(|_| AtomicU64::new(0)).collect());
    let failed = Arc::new(AtomicBool::new(false));
    atoms::reset_stats();
    atoms::set_yield_hook(Some(hook));
    let mut handles = vec![];
    for t in 0..run.threads as usize {
        let (table, texts, slots, failed) = (table.clone(), texts.clone(), slots.clone(), failed.clone());
        let run = run.clone();
        handles.push(std::thread::spawn(move || {
            PLAN.with(|p| *p.borrow_mut() = Some(Plan { rng: (run.seed ^ (t as u64 + 7).wrapping_mul(0xD1B54A32D192ED03)) | 1, intensity: run.intensity, victim: t == (run.seed % run.threads as u64) as usize }));
            let mut log: Vec<(usize, u64)> = vec![];
            let mut viol: Option<(String, String)> = None;
            let mut rng = run.seed ^ (t as u64 + 3).wrapping_mul(0x2545F4914F6CDD1D) | 1;
            let (mut readbacks, mut cross) = (0u64, 0u64);
            for j in script(&run, t) {
                if failed.load(Ordering::Relaxed) {
                    break;
                }
                let id = table.intern(&texts[j]);
                log.push((j, id));
                // publish / compare with what others got for the same text
                let prev = slots[j].compare_exchange(0, id + 1, Ordering::Relaxed, Ordering::Relaxed);
                if let Err(p) = prev {
                    if p != id + 1 {
                        viol = Some(("same-text-different-id".into(), format!("thread {t} interned {:?} and got id {id}, another thread (or an earlier call) got {}", texts[j], p - 1)));
                    }
                }
                // read back: own id now
                let back = table.text(id);
                readbacks += 1;
                if back != texts[j] {
                    viol = Some(("text-changed".into(), format!("thread {t}: text(id {id}) = {back:?} right after interning {:?}", texts[j])));
                }
                // read back an id obtained earlier (possibly before a growth, possibly by another thread)
                let r = xorshift(&mut rng);
                let k = (r % n as u64) as usize;
                let s = slots[k].load(Ordering::Relaxed);
                if s != 0 {
                    let back = table.text(s - 1);
                    cross += 1;
                    if back != texts[k] {
                        viol = Some(("text-changed".into(), format!("thread {t}: text(id {}) = {back:?} but that id was returned for {:?}", s - 1, texts[k])));
                    }
                }
                if viol.is_some() {
                    failed.store(true, Ordering::Relaxed);
                    break;
                }
            }
            (log, viol, readbacks, cross)
        }));
    }
    let mut out = RunOut::default();
    let mut by_text: HashMap<usize, u64> = HashMap::new();
    let mut by_id: HashMap<u64, usize> = HashMap::new();
    for (t, h) in handles.into_iter().enumerate() {
        match h.join() {
            Err(_) => {
                let p = crate::session::take_last_panic();
                out.violation.get_or_insert(("panic".into(), format!("thread {t} panicked: {p}")));
            }
            Ok((log, viol, rb, cr)) => {
                out.readbacks += rb;
                out.cross_reads += cr;
                out.ops += log.len() as u64;
                if let Some(v) = viol {
                    out.violation.get_or_insert(v);
                }
                for (j, id) in log {
                    if let Some(prev) = by_text.insert(j, id) {
                        if prev != id {
                            out.violation.get_or_insert(("same-text-different-id".into(), format!("text {:?} has ids {prev} and {id}", texts[j])));
                        }
                    }
                    if let Some(prev) = by_id.insert(id, j) {
                        if prev != j {
                            out.violation.get_or_insert(("different-texts-same-id".into(), format!("id {id} was returned for {:?} and for {:?}", texts[prev], texts[j])));
                        }
                    }
                }
            }
        }
    }
    atoms::set_yield_hook(None);
    // final read-back of everything, after all growths
    if out.violation.is_none() {
        for (j, id) in &by_text {
            let back = table.text(*id);
            if back != texts[*j] {
                out.violation = Some(("text-changed".into(), format!("after the run text(id {id}) = {back:?}, interned was {:?}", texts[*j])));
                break;
            }
            if table.intern(&texts[*j]) != *id {
                out.violation = Some(("same-text-different-id".into(), format!("after the run interning {:?} again gives another id than {id}", texts[*j])));
                break;
            }
        }
    }
    let (r, g, i) = atoms::stats();
    out.retries = r;
    out.growths = g;
    out.inserts = i;
    out.yields = YIELDS.load(Ordering::Relaxed);
    out.sleeps = SLEEPS.load(Ordering::Relaxed);
    out.stalls = STALLS.load(Ordering::Relaxed);
    out
}

// ---------------------------------------------------------------------------------------------
// layer 2: real machines

fn run_machines(run: &Run) -> RunOut {
    use scryer_prolog::{LeafAnswer, MachineBuilder, StreamConfig, Term};
    let n = (run.texts as usize).min(400);
    let texts: Arc<Vec<String>> = Arc::new((0..n).map(|j| text_of(run, j)).collect());
    atoms::reset_stats();
    atoms::set_yield_hook(Some(hook));
    let mut handles = vec![];
    for t in 0..run.threads as usize {
        let texts = texts.clone();
        let run = run.clone();
        handles.push(std::thread::spawn(move || -> Result<u64, (String, String)> {
            PLAN.with(|p| *p.borrow_mut() = Some(Plan { rng: (run.seed ^ (t as u64 + 7).wrapping_mul(0xD1B54A32D192ED03)) | 1, intensity: run.intensity, victim: t == 0 }));
            let mut m = MachineBuilder::default().with_streams(StreamConfig::in_memory()).build();
            let mut ops = 0u64;
            for j in script(&run, t).into_iter().filter(|j| *j < texts.len()) {
                let codes: Vec<String> = texts[j].chars().map(|c| (c as u32).to_string()).collect();
                // build the atom from codes, read it back as codes and length, concatenate with itself
                let q = format!("atom_codes(A, [{}]), atom_codes(A, Cs), atom_length(A, L), atom_concat(A, A, AA), atom_length(AA, L2), atom_codes(B, Cs), ( A == B -> Same = yes ; Same = no ).", codes.join(","));
                let ans: Vec<_> = m.run_query(q).collect();
                ops += 1;
                let ok = match ans.first() {
                    Some(Ok(LeafAnswer::LeafAnswer { bindings, .. })) => {
                        let a_ok = matches!(bindings.get("A"), Some(Term::Atom(a)) if *a == texts[j]);
                        let l_ok = matches!(bindings.get("L"), Some(Term::Integer(i)) if *i == dashu::integer::IBig::from(texts[j].chars().count()));
                        let l2_ok = matches!(bindings.get("L2"), Some(Term::Integer(i)) if *i == dashu::integer::IBig::from(2 * texts[j].chars().count()));
                        let aa_ok = matches!(bindings.get("AA"), Some(Term::Atom(a)) if *a == format!("{}{}", texts[j], texts[j]));
                        let same_ok = matches!(bindings.get("Same"), Some(Term::Atom(a)) if a == "yes");
                        a_ok && l_ok && l2_ok && aa_ok && same_ok
                    }
                    _ => false,
                };
                if !ok {
                    return Err(("machine-answer-wrong".into(), format!("thread {t}: atom built from the codes of {:?} answered {}", texts[j], format!("{:?}", ans.first()).chars().take(300).collect::<String>())));
                }
            }
            Ok(ops)
        }));
    }
    let mut out = RunOut::default();
    for (t, h) in handles.into_iter().enumerate() {
        match h.join() {
            Err(_) => {
                let p = crate::session::take_last_panic();
                out.violation.get_or_insert(("panic".into(), format!("machine thread {t} panicked: {p}")));
            }
            Ok(Err(v)) => {
                out.violation.get_or_insert(v);
            }
            Ok(Ok(ops)) => out.ops += ops,
        }
    }
    atoms::set_yield_hook(None);
    let (r, g, i) = atoms::stats();
    out.retries = r;
    out.growths = g;
    out.inserts = i;
    out.yields = YIELDS.load(Ordering::Relaxed);
    out.sleeps = SLEEPS.load(Ordering::Relaxed);
    out.stalls = STALLS.load(Ordering::Relaxed);
    out
}

// ---------------------------------------------------------------------------------------------
// parent side

thread_local! {
    static COUNTERS: RefCell<HashMap<&'static str, u64>> = RefCell::new(HashMap::new());
}

fn bump(k: &'static str, n: u64) {
    COUNTERS.with(|c| *c.borrow_mut().entry(k).or_default() += n);
}

const WATCHDOG_S: u64 = 60;

pub fn check(_env: &mut (), run: &Run) -> Verdict {
    let co = run_child("C32", "run", &serde_json::to_value(run).unwrap(), WATCHDOG_S, &[]);
    if co.timed_out {
        bump("watchdog_timeouts", 1);
        return Verdict::Discard("watchdog".into());
    }
    let Some(line) = co.stdout.lines().find_map(|l| l.strip_prefix("OUT ")) else {
        if co.crashed() {
            return Verdict::fail(format!("crash:{}", if co.stack_overflow() { "stack-overflow".into() } else { format!("signal{}", co.signal.unwrap_or(0)) }), format!("the process died: {}", co.stderr.lines().rev().take(4).collect::<Vec<_>>().join(" | ")));
        }
        return Verdict::Discard(format!("no-output-exit-{:?}", co.code));
    };
    let Ok(out) = serde_json::from_str::<RunOut>(line) else { return Verdict::Discard("bad-output".into()) };
    bump("runs", 1);
    bump("epoch_recheck_retries", out.retries);
    bump("table_growths", out.growths);
    bump("atoms_inserted", out.inserts);
    bump("hook_yields", out.yields);
    bump("hook_sleeps", out.sleeps);
    bump("hook_long_stalls", out.stalls);
    bump("intern_or_query_ops", out.ops);
    bump("readbacks", out.readbacks + out.cross_reads);
    if out.retries > 0 {
        bump("runs_with_retry", 1);
    }
    if out.growths > 0 {
        bump("runs_with_growth", 1);
    }
    if let Some((sig, detail)) = out.violation {
        let layer = if run.machines { "machines" } else { "direct" };
        return Verdict::fail(format!("{sig}:{layer}"), format!("{detail} (retries {} growths {} inserts {})", out.retries, out.growths, out.inserts));
    }
    let mut classes = vec![
        format!("layer:{}", if run.machines { "machines" } else { "direct" }),
        format!("threads:{}", match run.threads { 0..=2 => "2", 3..=4 => "3-4", 5..=8 => "5-8", _ => "9-16" }),
        format!("overlap:{}", ["disjoint", "pairwise", "all-shared"][(run.overlap % 3) as usize]),
        format!("perturbation:{}", run.intensity),
        format!("growths:{}", match out.growths { 0 => "0", 1 => "1", _ => "2+" }),
        format!("retries:{}", match out.retries { 0 => "0", 1..=9 => "1-9", _ => "10+" }),
    ];
    classes.sort();
    Verdict::Pass { nontrivial: out.retries >= 1 && out.growths >= 1, classes }
}

pub fn run_strategy() -> BoxedStrategy<Run> {
    let direct = (any::<u64>(), 2u8..=16, 1500u16..=5000, 24u8..=48, 0u8..3, 0u8..=3).prop_map(|(seed, threads, texts, text_len, overlap, intensity)| Run { seed, threads, texts, text_len, overlap, intensity, machines: false });
    let machines = (any::<u64>(), 2u8..=4, 60u16..=200, 24u8..=40, 1u8..3, 0u8..=2).prop_map(|(seed, threads, texts, text_len, overlap, intensity)| Run { seed, threads, texts, text_len, overlap, intensity, machines: true });
    prop_oneof![9 => direct, 1 => machines].boxed()
}

impl Prop for C32 {
    fn id(&self) -> &'static str {
        "C32"
    }
    fn rule(&self) -> &'static str {
        "runs in a fresh process each: 2..16 threads intern 1500..5000 texts of 24..48 bytes (so the 64 KiB first block of the shared table grows at least once) with disjoint / pairwise-shared / all-shared universes, every text twice, in seeded shuffled order, reading back own ids immediately and other threads' ids through a relaxed atomic slot array; a seeded perturbation plan (continue / yield_now / spin / sleep 50-500 us, one victim thread stalled 1.5-4.5 ms) runs at the four yield points inside AtomTable::build_with; 1 run in 10 uses 2..4 real Machines running atom_codes/atom_length/atom_concat queries concurrently; non-trivial = the hook counters of that run show at least one epoch-recheck retry AND at least one table growth; distinct by run parameters"
    }
    fn assumptions(&self) -> Vec<String> {
        vec![
            "interleavings are sampled, not enumerated: the schedule is perturbed at the yield points but owned by the OS; the contention actually reached is reported (epoch_recheck_retries, table_growths, runs_with_retry, runs_with_growth)".into(),
            "a failing run may not reproduce from its replay file (the schedule is not part of the case); such failures are counted as unconfirmed_state_dependent".into(),
            "a run that exceeds the 60 s watchdog is counted as a discard (inconclusive), not as a violation".into(),
        ]
    }
    fn child(&self, mode: &str, input: &Value) -> i32 {
        if mode == "run" {
            let Ok(run) = serde_json::from_value::<Run>(input.clone()) else { return 2 };
            let out = if run.machines { run_machines(&run) } else { run_direct(&run) };
            println!("OUT {}", serde_json::to_string(&out).unwrap());
            return 0;
        }
        2
    }
    fn run_shard(&self, cfg: &ShardCfg) -> ShardResult {
        let mut d = Driver::new(cfg, "C32");
        let n = cfg.share(cfg.tier.pick(300, 30_000));
        d.run("run", 0, n, 1_000_000, run_strategy(), &|| (), &check);
        COUNTERS.with(|c| {
            for (k, v) in c.borrow().iter() {
                d.res.extra.insert(k.to_string(), json!(v));
            }
        });
        d.finish()
    }
    fn replay(&self, _kind: &str, case: &Value) -> Verdict {
        replay_case::<Run, ()>(case, &|| (), &check)
    }
    fn workers(&self, _tier: Tier) -> Option<u32> {
        // every run is itself multi-threaded (up to 16 threads): fewer worker processes keep the
        // threads of one run really concurrent
        Some(std::env::var("VERIF_JOBS").ok().and_then(|s| s.parse::<u32>().ok()).unwrap_or(4).min(4))
    }
}
