//! Registry of property checks.
use crate::engine::Prop;

pub mod c01;

pub fn all() -> Vec<&'static dyn Prop> {
    vec![&c01::C01]
}

/// `vcheck child <mode> ...` entry for single-case child processes.
pub fn child_main(args: &[String]) -> i32 {
    let _ = args;
    eprintln!("unknown child mode");
    2
}
