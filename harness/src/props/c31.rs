//! C31 — An interrupt at any point is caught cleanly.
//!
//! Fault enumeration: `dispatch_loop` polls the interrupt flag every 255 executed instructions
//! (a wrapping u8 counter that starts at 0 in every `QueryState::next`), and the
//! attributed-variable loop polls after every instruction. For every workload W and phase
//! shift s (a prelude of s iterations of a skip loop whose per-iteration instruction count is
//! calibrated to be coprime with the poll period, so that s = 0..254 moves the polls over every
//! instruction boundary of W) the flag is raised at the n-th poll, for EVERY n up to the number
//! of polls the run makes (`interrupt::arm_at_poll(n)`), in a child process per (W, s).
//!
//! Query: `vf_skip(Kind,S), catch((mark(in), W, mark(done)), Ball, R = caught(Ball))`.
//! Accepted outcomes:
//!   * the flag was not raised (n beyond the end): W's tabulated result;
//!   * raised while the mark is `in`: R = caught(error('$interrupt_thrown', _)) — the Formal is
//!     the documented term (toplevel.pl, time.pl); the context is implementation defined;
//!   * raised before the mark was set or after it was set to `done`: caught(...) or the same
//!     error at the top of the query (no handler was active).
//! Then, on the same machine, with the hook disarmed: cleanup, the follow-up battery and W
//! itself must give their tabulated results, the setup_call_cleanup token log must be a sublist of
//! [setup,cleanup], and the control state (stack, trail, choice points, pending
//! cleanup continuations, inference-limit stack) must equal that of an uninterrupted machine.

use crate::engine::*;
use crate::shared::faultlib::*;
use scryer_prolog::verif_hooks::interrupt;
use scryer_prolog::Machine;
use serde::{Deserialize, Serialize};
use serde_json::{json, Value};

pub struct C31;

pub const PERIOD: u64 = 255;

#[derive(Clone, Debug, Serialize, Deserialize, PartialEq)]
pub struct Inject {
    pub w: String,
    /// skip-loop kind (a, b, c) and iterations of the prelude
    pub kind: String,
    pub s: u64,
    /// poll indices injected one after the other on one fresh machine; the verdict is about the last
    pub ns: Vec<u64>,
}

#[derive(Clone, Debug, Serialize, Deserialize)]
struct GroupIn {
    w: String,
    kind: String,
    s: u64,
    /// None = every poll index of the run; Some = exactly this sequence (replay)
    ns: Option<Vec<u64>>,
    /// enumeration starts at this poll index (after a crash of an earlier child)
    #[serde(default)]
    from: u64,
}

#[derive(Clone, Debug, Serialize, Deserialize)]
struct InjOut {
    n: u64,
    /// the injection sequence that reproduces the verdict on a fresh machine
    ns: Vec<u64>,
    fired: u64,
    outcome: String,
    mark: String,
    sig: Option<String>,
    detail: String,
    classes: Vec<String>,
    nontrivial: bool,
}

fn query(kind: &str, s: u64, w: &str) -> String {
    format!("vf_irun({kind},{s},{w},R).")
}

fn gcd(a: u64, b: u64) -> u64 {
    if b == 0 {
        a
    } else {
        gcd(b, a % b)
    }
}

/// polls made by `vf_skip(kind, n)` alone
fn skip_polls(m: &mut Machine, kind: &str, n: u64) -> Result<u64, String> {
    let mut p = 0;
    let o = run_first(m, &format!("vf_skip({kind},{n})."), &mut || interrupt::reset_polls(), &mut || p = interrupt::polls());
    match o {
        QOut::True => Ok(p),
        other => Err(format!("vf_skip({kind},{n}) gave {}", other.short())),
    }
}

/// instructions per iteration of each skip loop, measured through the poll counter:
/// polls(255*M iterations) - polls(0) = c*M exactly when the period is 255
pub fn calibrate() -> Result<Vec<(String, u64)>, String> {
    let mut m = mk_machine().machine;
    let mut v = vec![];
    for kind in ["a", "b", "c"] {
        // warm up (first call may take a different path through indexing)
        skip_polls(&mut m, kind, 10)?;
        let p0 = skip_polls(&mut m, kind, 0)?;
        let p1 = skip_polls(&mut m, kind, PERIOD * 8)?;
        let p2 = skip_polls(&mut m, kind, PERIOD * 16)?;
        if p1 < p0 || (p1 - p0) % 8 != 0 || p2 - p1 != p1 - p0 {
            return Err(format!("poll period is not {PERIOD}: kind {kind} polls {p0} {p1} {p2}"));
        }
        v.push((kind.to_string(), (p1 - p0) / 8));
    }
    Ok(v)
}

struct Base {
    polls: u64,
    control: String,
}

fn followups(m: &mut Machine, w: &Workload) -> Vec<(String, String)> {
    let mut v = vec![];
    let mut ask = |m: &mut Machine, name: &str, q: &str| -> bool {
        let o = run_first(m, q, &mut || {}, &mut || {});
        let dead = matches!(o, QOut::Panic(_));
        v.push((name.to_string(), o.short()));
        !dead
    };
    if !ask(m, "log", "vf_log_state(R).") {
        return v;
    }
    if !ask(m, "cleanup", "vf_cleanup.") {
        return v;
    }
    if !ask(m, "battery", "vf_battery(R).") {
        return v;
    }
    if !ask(m, "again", &format!("vf_irun(a,0,{},R).", w.name)) {
        return v;
    }
    let (cs, balls) = control_state_no_ball_stack(m);
    v.push(("control".into(), cs));
    v.push(("ball_stack".into(), balls.to_string()));
    v
}

fn log_ok(s: &str) -> bool {
    // any sublist of [setup, cleanup]: the workload's final retractall/1 can itself be interrupted
    // after removing the first entry; a handler that ran twice or out of order is not accepted
    ["[]", "[setup]", "[cleanup]", "[setup,cleanup]"].iter().any(|l| s == QOut::R(l.to_string()).short())
}

fn is_interrupt(t: &str) -> bool {
    t.starts_with("error('$interrupt_thrown',")
}

/// one injection on machine `m`; returns (result, machine still usable)
fn inject(m: &mut Machine, w: &Workload, q: &str, n: u64, base: &Base) -> (InjOut, bool) {
    let _ = run_first(m, "vf_mark_reset.", &mut || {}, &mut || {});
    let mut fired = 0;
    let o = run_first(m, q, &mut || interrupt::arm_at_poll(n), &mut || {
        fired = interrupt::fired();
        // the hook disarms itself when it fires; `disarm()` would also clear the INTERRUPT flag, which
        // the machine must have consumed itself when it threw — a flag left raised has to show up
        // as an interrupted follow-up query
        if fired == 0 {
            interrupt::disarm();
        }
    });
    let outcome = o.short();
    let dead = matches!(o, QOut::Panic(_));
    let mut mark = String::from("-");
    if !dead {
        mark = match run_first(m, "vf_mark(R).", &mut || {}, &mut || {}) {
            QOut::R(r) => r,
            QOut::False => "unset".into(),
            other => other.short(),
        };
    }
    let mut classes: Vec<String> = vec![format!("w:{}", w.name), format!("mark:{mark}")];
    let mut sig: Option<String> = None;
    let mut detail = String::new();
    let caught_prefix = "caught(";
    match &o {
        QOut::R(r) if r == w.expected => {
            if fired == 0 {
                classes.push("outcome:not-reached".into());
            } else if w.name == "cleanup" && mark == "done" {
                // errors raised inside a cleanup handler are ignored by setup_call_cleanup/3
                classes.push("outcome:swallowed-by-cleanup-handler".into());
            } else {
                sig = Some(format!("interrupt-lost:{}", w.name));
                detail = format!("the flag was raised at poll {n} (mark = {mark}) but the goal completed normally with {r}");
            }
        }
        QOut::R(r) if r.starts_with(caught_prefix) => {
            let ball = &r[caught_prefix.len()..r.len() - 1];
            if fired == 0 {
                sig = Some(format!("spurious-exception:{}", w.name));
                detail = format!("no interrupt was raised but the goal received {ball}");
            } else if is_interrupt(ball) {
                classes.push("outcome:caught".into());
                classes.push(format!("context:{}", ball.trim_start_matches("error('$interrupt_thrown',").trim_end_matches(')')));
            } else {
                let shape: String = ball.chars().take_while(|c| *c != '(').take(40).collect();
                sig = Some(format!("wrong-ball:{shape}:{}", w.name));
                detail = format!("interrupt at poll {n}: the goal received {ball} instead of error('$interrupt_thrown',_)");
            }
        }
        QOut::R(r) => {
            sig = Some(format!("wrong-result:{}", w.name));
            detail = format!("interrupt at poll {n} (fired={fired}): R = {r}, expected {} or caught(..)", w.expected);
        }
        QOut::Err(t) if is_interrupt(t) && fired > 0 => {
            if mark == "in" {
                sig = Some(format!("not-catchable:{}", w.name));
                detail = format!("interrupt at poll {n} while catch/3 was active (mark = in) reached the top of the query: {t}");
            } else {
                classes.push(format!("outcome:uncaught-outside-catch-{mark}"));
            }
        }
        QOut::Err(t) | QOut::Exc(t) => {
            let shape: String = t.chars().take_while(|c| *c != '(').take(40).collect();
            sig = Some(format!("wrong-ball-at-top:{shape}:mark-{mark}:{}", w.name));
            detail = format!("interrupt at poll {n} (fired={fired}): the query ended with {t}");
        }
        QOut::False => {
            sig = Some(format!("silent-failure:{}", w.name));
            detail = format!("interrupt at poll {n} (fired={fired}, mark={mark}): the goal failed");
        }
        QOut::True | QOut::End => {
            sig = Some(format!("no-answer:{}", w.name));
            detail = format!("run_query gave {}", o.short());
        }
        QOut::Panic(p) => {
            sig = Some(format!("panic:{}", panic_loc(p)));
            detail = format!("workload {}: interrupt at poll {n}: Rust panic: {p}", w.name);
        }
    }
    let mut usable = !dead;
    if matches!(o, QOut::Err(_) | QOut::Exc(_)) {
        // An exception that reaches the top of run_query is never cleared from the machine: every
        // later query reports it again instead of its own answer (finding of C28). A caught
        // throw/1 empties it; without this the follow-ups of an interrupt that landed outside the
        // catch/3 (which the statement of C31 does not cover) would all fail for that reason.
        let _ = run_first(m, "catch(throw(vf_cleanse), _, true).", &mut || {}, &mut || {});
        classes.push("housekeeping:stale-top-level-ball-cleansed".into());
    }
    if !dead {
        let got = followups(m, w);
        if got.iter().any(|(_, o)| o.starts_with("Panic")) {
            usable = false;
        }
        if let Some((_, b)) = got.iter().find(|(n, _)| n == "ball_stack") {
            if b != "0" {
                classes.push("leak:stale-entry-on-ball-stack".into());
            }
        }
        if sig.is_none() {
            let exp: Vec<(&str, String)> = vec![
                ("log", String::new()),
                ("cleanup", QOut::True.short()),
                ("battery", QOut::R(BATTERY_EXPECTED.into()).short()),
                ("again", QOut::R(w.expected.into()).short()),
                ("control", base.control.clone()),
            ];
            for (i, (name, val)) in exp.iter().enumerate() {
                let g = got.get(i).map(|x| x.1.clone()).unwrap_or_else(|| "<not run>".into());
                let ok = if *name == "log" { log_ok(&g) } else { &g == val };
                if !ok {
                    let what = if g.starts_with("Panic") { format!("panic:{}", panic_loc(g.trim_start_matches("Panic(\""))) } else { "wrong".into() };
                    sig = Some(format!("after-recovery:{name}:{what}@{}", w.name));
                    detail = format!("after the interrupt at poll {n} ({outcome}, mark {mark}) the follow-up '{name}' gave {g}, expected {}", if *name == "log" { "a sublist of [setup,cleanup]".to_string() } else { val.clone() });
                    break;
                }
            }
        }
    }
    // housekeeping for the next injection (after the follow-ups have been judged)
    interrupt::disarm();
    let interior = n > 0 && n + 1 < base.polls;
    classes.push(if interior { "poll:interior".into() } else { "poll:first-or-last".into() });
    (InjOut { n, ns: vec![n], fired, outcome, mark: mark.clone(), sig, detail, classes, nontrivial: fired > 0 && mark == "in" && interior }, usable)
}

fn baseline(m: &mut Machine, w: &Workload, q: &str) -> Result<Base, String> {
    let mut polls = vec![];
    for _ in 0..3 {
        let _ = run_first(m, "vf_mark_reset.", &mut || {}, &mut || {});
        let mut p = 0;
        let o = run_first(m, q, &mut || interrupt::reset_polls(), &mut || p = interrupt::polls());
        if !matches!(&o, QOut::R(r) if r == w.expected) {
            return Err(format!("baseline of {} gave {} expected {}", w.name, o.short(), w.expected));
        }
        polls.push(p);
    }
    let f = followups(m, w);
    let ok = f.len() == 6 && log_ok(&f[0].1) && f[1].1 == QOut::True.short() && f[2].1 == QOut::R(BATTERY_EXPECTED.into()).short() && f[3].1 == QOut::R(w.expected.into()).short();
    if !ok {
        return Err(format!("baseline follow-ups of {} gave {:?}", w.name, f));
    }
    // the first run on a fresh machine may differ (clause indexing is built lazily): the
    // second and third must agree, and the enumeration covers the larger count
    if polls[1] != polls[2] {
        return Err(format!("poll count is not reproducible: {polls:?}"));
    }
    Ok(Base { polls: polls[1].max(polls[0]), control: f[4].1.clone() })
}

fn child_group(g: &GroupIn) -> i32 {
    use std::io::Write;
    let out = std::io::stdout();
    let say = |s: String| {
        let mut o = out.lock();
        let _ = writeln!(o, "{s}");
        let _ = o.flush();
    };
    let Some(w) = workload(&g.w) else {
        say(format!("HARNESS unknown workload {}", g.w));
        return 0;
    };
    let q = query(&g.kind, g.s, w.name);
    let mut m = mk_machine().machine;
    let base = match baseline(&mut m, w, &q) {
        Ok(b) => b,
        Err(e) => {
            say(format!("HARNESS {e}"));
            return 0;
        }
    };
    say(format!("POLLS {}", base.polls));
    if let Some(ns) = &g.ns {
        // replay: this exact sequence on a fresh machine; report the last (or the first failing)
        let mut m = mk_machine().machine;
        let b2 = match baseline(&mut m, w, &q) {
            Ok(b) => b,
            Err(e) => {
                say(format!("HARNESS {e}"));
                return 0;
            }
        };
        let mut last = None;
        for n in ns {
            say(format!("BEGIN {n}"));
            let (r, usable) = inject(&mut m, w, &q, *n, &b2);
            let failed = r.sig.is_some();
            last = Some(r);
            if failed || !usable {
                break;
            }
        }
        if let Some(mut r) = last {
            r.ns = ns.clone();
            if ns.len() > 1 {
                r.sig = r.sig.map(|s| format!("history-dependent:{s}"));
            }
            say(format!("INJ {}", serde_json::to_string(&r).unwrap()));
        }
        say("DONE".into());
        return 0;
    }
    // enumeration: every poll index, plus one beyond the end
    let mut history: Vec<u64> = vec![];
    let mut confirmed_sigs: std::collections::HashSet<String> = Default::default();
    for n in g.from..=base.polls {
        say(format!("BEGIN {n}"));
        let (mut r, usable) = inject(&mut m, w, &q, n, &base);
        history.push(n);
        if r.sig.as_ref().map(|s| confirmed_sigs.contains(s)).unwrap_or(false) && usable {
            // this signature already reproduced on a fresh machine in this group; the machine
            // answered its follow-ups, keep using it
        } else if r.sig.is_some() || !usable {
            // confirm on a fresh machine with this injection alone
            let mut f = mk_machine().machine;
            let confirmed = match baseline(&mut f, w, &q) {
                Ok(b2) => {
                    let (r2, _) = inject(&mut f, w, &q, n, &b2);
                    if r2.sig.is_some() {
                        Some(r2)
                    } else {
                        None
                    }
                }
                Err(_) => None,
            };
            std::mem::forget(f);
            match confirmed {
                Some(r2) => {
                    r = r2;
                    if let Some(s) = &r.sig {
                        confirmed_sigs.insert(s.clone());
                    }
                }
                None => {
                    if let Some(s) = r.sig.take() {
                        r.sig = Some(format!("history-dependent:{s}"));
                        r.ns = history.clone();
                    }
                }
            }
            // continue on a new machine
            let old = std::mem::replace(&mut m, mk_machine().machine);
            std::mem::forget(old);
            if let Err(e) = baseline(&mut m, w, &q) {
                say(format!("HARNESS {e}"));
                return 0;
            }
            history.clear();
        }
        if n == base.polls && r.fired > 0 {
            r.classes.push("poll:beyond-baseline-count-fired".into());
        }
        say(format!("INJ {}", serde_json::to_string(&r).unwrap()));
    }
    if let Some((n, size, off)) = crate::guard_alloc::take_corruptions() {
        say(format!("CANARY {n} {size} {off}"));
    }
    say("DONE".into());
    0
}

// ---------------------------------------------------------------------------------------------
// parent side

struct GroupRes {
    injs: Vec<InjOut>,
    crashes: Vec<(u64, String, String)>,
    harness: Vec<String>,
    canary: Option<String>,
    complete: bool,
}

fn run_group(w: &str, kind: &str, s: u64, only: Option<Vec<u64>>) -> GroupRes {
    let mut res = GroupRes { injs: vec![], crashes: vec![], harness: vec![], canary: None, complete: false };
    let mut from = 0u64;
    for _round in 0..32 {
        let gi = GroupIn { w: w.to_string(), kind: kind.to_string(), s, ns: only.clone(), from };
        let co = run_child("C31", "group", &serde_json::to_value(&gi).unwrap(), 600, &[]);
        let mut begun: Option<u64> = None;
        let mut done = false;
        for line in co.stdout.lines() {
            if let Some(r) = line.strip_prefix("HARNESS ") {
                res.harness.push(r.to_string());
            } else if let Some(r) = line.strip_prefix("BEGIN ") {
                begun = r.trim().parse().ok();
            } else if let Some(r) = line.strip_prefix("INJ ") {
                if let Ok(i) = serde_json::from_str::<InjOut>(r) {
                    res.injs.push(i);
                }
                begun = None;
            } else if let Some(r) = line.strip_prefix("CANARY ") {
                res.canary = Some(r.to_string());
            } else if line == "DONE" {
                done = true;
            }
        }
        if done || !res.harness.is_empty() {
            res.complete = done;
            return res;
        }
        if co.timed_out {
            res.harness.push(format!("child timed out (w={w} s={s} at n={begun:?})"));
            return res;
        }
        let tail: String = co.stderr.lines().rev().take(3).collect::<Vec<_>>().join(" | ");
        match begun {
            Some(n) => {
                let kind = if co.stack_overflow() {
                    "stack-overflow".to_string()
                } else {
                    match co.signal {
                        Some(11) => "sigsegv".into(),
                        Some(6) => "abort".into(),
                        Some(s) => format!("signal{s}"),
                        None => format!("exit{}", co.code.unwrap_or(-1)),
                    }
                };
                res.crashes.push((n, format!("crash:{kind}@{w}"), format!("the process died ({kind}) during the run interrupted at poll {n} (or one of the earlier ones on that machine): {tail}")));
                if only.is_some() {
                    res.complete = true;
                    return res;
                }
                from = n + 1;
            }
            None => {
                res.harness.push(format!("child died outside an injection (w={w} s={s}): signal {:?} code {:?} {tail}", co.signal, co.code));
                return res;
            }
        }
    }
    res
}

fn shifts(tier: Tier) -> Vec<u64> {
    match tier {
        Tier::Quick => vec![0, 32, 64, 96, 128, 160, 192, 224],
        Tier::Thorough => (0..PERIOD).collect(),
    }
}

fn pick_kind(cal: &[(String, u64)]) -> Option<(String, u64)> {
    cal.iter().find(|(_, c)| *c > 0 && gcd(*c, PERIOD) == 1).cloned()
}

impl Prop for C31 {
    fn id(&self) -> &'static str {
        "C31"
    }
    fn level(&self) -> &'static str {
        "fault_enumeration"
    }
    fn rule(&self) -> &'static str {
        "for each catalogued workload W (term construction, copy_term, findall, assertz, reading, big exception ball, frozen-goal wakeups, setup_call_cleanup, fail-driven loop, exception handling loop; thorough: all 42) x phase shift s (prelude of s skip-loop iterations of c instructions each, c coprime with the 255-instruction poll period as measured through the poll counter; 8 shifts quick, all 255 thorough): the interrupt flag is raised at the n-th poll for EVERY n = 0..polls(W,s) (one beyond the end included), all on one machine per (W,s) so that every injection also tests recovery from the previous ones; non-trivial = the flag was raised (hook counter) while the mark set inside the catch/3 around W was `in`, at a poll that is neither the first nor the last of the run; distinct by (W, shift, n)"
    }
    fn assumptions(&self) -> Vec<String> {
        vec![
            "raising INTERRUPT inside check_for_interrupt at poll n is equivalent to the ctrl-c handler storing the flag at any moment between poll n-1 and poll n (the flag is only ever read at polls)".into(),
            "instruction boundaries are swept by shifting the poll phase with a calibrated prelude; the calibration (polls grow by exactly c per 255 iterations) is re-checked in every shard".into(),
            "only the Formal '$interrupt_thrown' of the ball is compared; the context (repl/0) is implementation defined".into(),
        ]
    }
    fn child(&self, mode: &str, input: &Value) -> i32 {
        match mode {
            "group" => match serde_json::from_value::<GroupIn>(input.clone()) {
                Ok(g) => child_group(&g),
                Err(e) => {
                    println!("HARNESS bad input {e}");
                    0
                }
            },
            "calib" => {
                println!("{:?}", calibrate());
                0
            }
            "survey" => {
                let ws: Vec<String> = input["ws"].as_array().map(|a| a.iter().filter_map(|x| x.as_str().map(String::from)).collect()).unwrap_or_default();
                let ss: Vec<u64> = input["ss"].as_array().map(|a| a.iter().filter_map(|x| x.as_u64()).collect()).unwrap_or_default();
                let cal = calibrate();
                println!("calibration {cal:?}");
                let Some((kind, _)) = cal.ok().and_then(|c| pick_kind(&c)) else { return 2 };
                for w in &ws {
                    for s in &ss {
                        let t0 = std::time::Instant::now();
                        let r = run_group(w, &kind, *s, None);
                        for h in &r.harness {
                            println!("{w} s={s} HARNESS {h}");
                        }
                        for (n, sg, dt) in &r.crashes {
                            println!("{w} s={s} n={n} CRASH {sg} {dt}");
                        }
                        let mut hist: std::collections::BTreeMap<String, u64> = Default::default();
                        for i in &r.injs {
                            match &i.sig {
                                Some(sg) => println!("{w} s={s} n={} fired={} mark={} {sg} :: {} {}", i.n, i.fired, i.mark, i.outcome, i.detail),
                                None => *hist.entry(format!("{} mark={} fired={}", i.outcome.chars().take(60).collect::<String>(), i.mark, i.fired)).or_default() += 1,
                            }
                        }
                        println!("{w} s={s} injections={} complete={} {:?} passes: {:?}", r.injs.len(), r.complete, t0.elapsed(), hist);
                    }
                }
                0
            }
            _ => 2,
        }
    }

    fn run_shard(&self, cfg: &ShardCfg) -> ShardResult {
        let mut d = Driver::new(cfg, "C31");
        let cal = match calibrate() {
            Ok(c) => c,
            Err(e) => {
                d.note(format!("calibration failed: {e}"));
                d.res.discarded += 1;
                d.res.evaluations += 1;
                *d.res.classes.entry("discard:calibration".into()).or_default() += 1;
                return d.finish();
            }
        };
        let Some((kind, unit)) = pick_kind(&cal) else {
            d.note(format!("no skip loop with a per-iteration instruction count coprime with {PERIOD}: {cal:?}"));
            d.res.discarded += 1;
            d.res.evaluations += 1;
            *d.res.classes.entry("discard:calibration".into()).or_default() += 1;
            return d.finish();
        };
        let ws: Vec<&Workload> = WORKLOADS.iter().filter(|w| cfg.tier == Tier::Thorough || w.c31_quick).collect();
        let mut groups: Vec<(String, u64)> = vec![];
        for s in shifts(cfg.tier) {
            for w in &ws {
                groups.push((w.name.to_string(), s));
            }
        }
        let mut all_complete = true;
        let mut groups_done = 0u64;
        let mut injections = 0u64;
        let mut seen_sigs: std::collections::HashSet<String> = Default::default();
        for (gi, (w, s)) in groups.iter().enumerate() {
            if gi as u32 % cfg.nshards != cfg.shard {
                continue;
            }
            let r = run_group(w, &kind, *s, None);
            if !r.complete {
                all_complete = false;
            }
            for h in &r.harness {
                d.note(format!("group w={w} s={s}: {h}"));
                d.res.discarded += 1;
                d.res.evaluations += 1;
                *d.res.classes.entry("discard:harness".into()).or_default() += 1;
            }
            groups_done += 1;
            let mut fails: Vec<(Vec<u64>, String, String)> = r.crashes.iter().map(|(n, s, dt)| ((0..=*n).collect(), s.clone(), dt.clone())).collect();
            if let Some(c) = &r.canary {
                fails.push((vec![], format!("heap-overrun:canary@{w}"), format!("allocation canaries overwritten during the group: {c}")));
            }
            for i in &r.injs {
                injections += 1;
                match &i.sig {
                    None => {
                        let case = serde_json::to_value(Inject { w: w.clone(), kind: kind.clone(), s: *s, ns: vec![i.n] }).unwrap();
                        d.record_pass(&case, i.nontrivial, &i.classes);
                    }
                    Some(sg) => fails.push((i.ns.clone(), sg.clone(), i.detail.clone())),
                }
            }
            for (ns, sig, detail) in fails {
                d.res.evaluations += 1;
                if is_known_open(&sig) {
                    *d.res.excluded_known.entry(sig).or_default() += 1;
                    continue;
                }
                if seen_sigs.insert(sig.clone()) {
                    let case = serde_json::to_value(Inject { w: w.clone(), kind: kind.clone(), s: *s, ns }).unwrap();
                    d.res.failures.push(Failure { signature: sig, detail, case, kind: "inject".into() });
                }
            }
        }
        d.res.extra.insert("groups".into(), json!(groups_done));
        d.res.extra.insert("injections".into(), json!(injections));
        if cfg.shard == 0 {
            d.res.extra.insert("skip_loop_instructions_per_iteration".into(), json!(format!("{cal:?}; used kind {kind} ({unit} instructions, gcd with {PERIOD} = 1)")));
        }
        d.res.exhaustive = all_complete;
        d.finish()
    }

    fn replay(&self, _kind: &str, case: &Value) -> Verdict {
        let c: Inject = match serde_json::from_value(case.clone()) {
            Ok(c) => c,
            Err(e) => return Verdict::Discard(format!("replay: cannot decode case: {e}")),
        };
        let r = run_group(&c.w, &c.kind, c.s, Some(c.ns.clone()));
        if let Some((_, sig, detail)) = r.crashes.first() {
            return Verdict::fail(sig.clone(), detail.clone());
        }
        if let Some(h) = r.harness.first() {
            return Verdict::Discard(h.clone());
        }
        match r.injs.last() {
            Some(i) => match &i.sig {
                Some(s) => Verdict::fail(s.clone(), i.detail.clone()),
                None => Verdict::Pass { nontrivial: i.nontrivial, classes: i.classes.clone() },
            },
            None => Verdict::Discard("no injection result".into()),
        }
    }
}
