//! C06 — Clause selection returns exactly the clauses whose heads unify.
use crate::engine::*;
use crate::gen::*;
use crate::num::ipow2;
use crate::session::{Outcome, Session};
use crate::term::{self, atom, cmp, int, list, nil, unify, Subst, T};
use dashu::integer::IBig;
use proptest::prelude::*;
use serde::{Deserialize, Serialize};
use serde_json::Value;

#[derive(Clone, Debug, Serialize, Deserialize)]
pub struct CallKey {
    pub term: T,
    /// build the key at run time (arithmetic through a bignum, atom_codes, atom_chars, =..)
    pub computed: bool,
}

#[derive(Clone, Debug, Serialize, Deserialize)]
pub enum Step {
    AssertZ(T, T),
    AssertA(T, T),
    /// retract the n-th (mod len) live clause by its tag
    Retract(u8),
}

#[derive(Clone, Debug, Serialize, Deserialize)]
pub struct Case {
    /// use the second argument too (secondary indexing)
    pub two_keys: bool,
    /// static clauses (k1, k2) in textual order; tag = position
    pub clauses: Vec<(T, T)>,
    /// when Some: the predicate is dynamic and built by these steps instead of `clauses`
    pub dynamic: Option<Vec<Step>>,
    pub calls: Vec<(CallKey, CallKey)>,
}

fn key_kind(t: &T) -> &'static str {
    match t {
        T::Var(_) => "var",
        T::Atom(a) if a == "[]" => "nil",
        T::Atom(a) if a.chars().count() == 1 => "char",
        T::Atom(_) => "atom",
        T::Int(i) => {
            if *i >= -ipow2(55) && *i < ipow2(55) {
                "fixnum"
            } else {
                "bignum"
            }
        }
        T::Rat(..) => "rational",
        T::Float(_) => "float",
        T::Str(_) => "string",
        T::PList(..) => "list",
        T::Cmp(..) => "struct",
    }
}

/// A pool of related keys: duplicates and unifiable-but-not-identical pairs are likely.
fn key_pool() -> BoxedStrategy<Vec<T>> {
    let base: Vec<T> = vec![
        atom("a"),
        atom("b"),
        atom("abcdefg"),
        atom("é"),
        atom(""),
        nil(),
        atom("{}"),
        int(0),
        int(1),
        int(2),
        int(-1),
        T::Int(ipow2(55) - IBig::ONE),
        T::Int(ipow2(55)),
        T::Int(-ipow2(55)),
        T::Int(-ipow2(55) - IBig::ONE),
        T::Int(ipow2(60)),
        T::Int(ipow2(64)),
        T::Int(ipow2(64) + IBig::ONE),
        T::Int(-ipow2(64)),
        T::Rat(IBig::from(1), IBig::from(3)),
        T::Rat(IBig::from(2), IBig::from(3)),
        T::Rat(IBig::from(-7), IBig::from(2)),
        T::Float(1.5),
        T::Float(2.0),
        T::Float(1.0e10),
        T::Float(0.1),
        T::Float(-3.25),
        T::Str("a".into()),
        T::Str("ab".into()),
        T::Str("abcdefgh".into()),
        list(vec![atom("a")]),
        list(vec![atom("a"), atom("b")]),
        list(vec![int(1)]),
        T::PList(vec![atom("a")], Box::new(T::Var(7))),
        T::PList(vec![T::Var(8)], Box::new(T::Var(9))),
        T::PList(vec![T::Var(8)], Box::new(nil())),
        cmp(".", vec![atom("a"), nil()]),
        cmp(".", vec![atom("a"), atom("b")]),
        cmp("f", vec![atom("a")]),
        cmp("f", vec![T::Var(5)]),
        cmp("f", vec![atom("b")]),
        cmp("f", vec![atom("a"), atom("b")]),
        cmp("f", vec![T::Var(5), T::Var(5)]),
        cmp("g", vec![atom("a")]),
        cmp("-", vec![int(1)]),
        cmp("a", vec![int(1)]),
        cmp("[]", vec![int(1)]),
        T::Var(0),
        T::Var(1),
    ];
    let n = base.len();
    (proptest::collection::vec(0..n, 2..=6), proptest::collection::vec(term_strategy(TermCfg { depth: 2, size: 6, nvars: 2, ..TermCfg::default() }), 0..=2))
        .prop_map(move |(idx, extra)| {
            let mut v: Vec<T> = idx.into_iter().map(|i| base[i].clone()).collect();
            for e in extra {
                // -0.0 is kept out (0.0 = -0.0 is not decided by the statement)
                if !contains_neg_zero(&e) {
                    v.push(e);
                }
            }
            v
        })
        .boxed()
}

fn contains_neg_zero(t: &T) -> bool {
    match t {
        T::Float(f) => *f == 0.0 && f.is_sign_negative(),
        T::PList(items, tail) => items.iter().any(contains_neg_zero) || contains_neg_zero(tail),
        T::Cmp(_, args) => args.iter().any(contains_neg_zero),
        _ => false,
    }
}

pub fn case_strategy() -> BoxedStrategy<Case> {
    key_pool()
        .prop_flat_map(|pool| {
            let n = pool.len();
            let p1 = pool.clone();
            let p2 = pool.clone();
            let p3 = pool.clone();
            let clauses = proptest::collection::vec((0..n, 0..n), 1..=12).prop_map(move |v| v.into_iter().map(|(a, b)| (p1[a].clone(), p1[b].clone())).collect::<Vec<_>>());
            let steps = proptest::collection::vec((0u8..10, 0..n, 0..n, any::<u8>()), 1..=14).prop_map(move |v| {
                v.into_iter()
                    .map(|(k, a, b, r)| match k {
                        0..=5 => Step::AssertZ(p2[a].clone(), p2[b].clone()),
                        6..=7 => Step::AssertA(p2[a].clone(), p2[b].clone()),
                        _ => Step::Retract(r),
                    })
                    .collect::<Vec<_>>()
            });
            let calls = proptest::collection::vec((0..n + 1, 0..n + 1, any::<bool>(), any::<bool>()), 1..=10).prop_map(move |v| {
                v.into_iter()
                    .map(|(a, b, ca, cb)| {
                        let ka = if a == p3.len() { T::Var(20) } else { p3[a].clone() };
                        let kb = if b == p3.len() { T::Var(21) } else { p3[b].clone() };
                        (CallKey { term: ka, computed: ca }, CallKey { term: kb, computed: cb })
                    })
                    .collect::<Vec<_>>()
            });
            (any::<bool>(), clauses, proptest::option::weighted(0.4, steps), calls)
        })
        .prop_map(|(two_keys, clauses, dynamic, calls)| Case { two_keys, clauses, dynamic, calls })
        .boxed()
}

pub struct Env {
    pub s: Session,
    pub counter: u64,
}

pub fn mk_env() -> Env {
    Env { s: Session::new(&[]), counter: 0 }
}

/// rename variables apart: clause variables get an offset
fn rename(t: &T, off: u32) -> T {
    match t {
        T::Var(v) => T::Var(v + off),
        T::PList(items, tail) => T::PList(items.iter().map(|i| rename(i, off)).collect(), Box::new(rename(tail, off))),
        T::Cmp(n, args) => T::Cmp(n.clone(), args.iter().map(|a| rename(a, off)).collect()),
        other => other.clone(),
    }
}

/// Run-time construction of a key: returns (prep goal text, variable text) or None for literal use.
fn computed(t: &T, var: &str) -> Option<String> {
    match t {
        T::Int(i) => Some(format!("{var} is 1180591620717411303424 - 1180591620717411303424 + {}", T::Int(i.clone()).text())),
        T::Float(f) => Some(format!("{var} is {} + 0", T::Float(*f).text())),
        T::Rat(n, d) => Some(format!("{var} is {} rdiv {}", T::Int(n.clone()).text(), T::Int(d.clone()).text())),
        T::Atom(a) if a != "[]" => {
            let codes: Vec<String> = a.chars().map(|c| (c as u32).to_string()).collect();
            Some(format!("atom_codes({var}, [{}])", codes.join(",")))
        }
        T::Str(s) if !s.is_empty() => Some(format!("atom_chars({}, {var})", term::write_atom(s))),
        T::Cmp(n, args) if !n.is_empty() => {
            let mut l = vec![term::write_atom(n)];
            l.extend(args.iter().map(|a| a.text()));
            Some(format!("{var} =.. [{}]", l.join(",")))
        }
        _ => None,
    }
}

fn key_text(t: &T) -> String {
    match t {
        // rationals have no literal syntax in functional notation: build them in the clause body? no —
        // they are written as the evaluated constant through a directive-free trick: (N rdiv D) is not a
        // number literal, so rational keys in clause heads are created with assertz after `is`.
        _ => t.text(),
    }
}

fn has_rat(t: &T) -> bool {
    match t {
        T::Rat(..) => true,
        T::PList(items, tail) => items.iter().any(has_rat) || has_rat(tail),
        T::Cmp(_, args) => args.iter().any(has_rat),
        _ => false,
    }
}

/// text that builds clause head `p(K1,K2,Tag)` at run time when a rational is involved
fn head_via_dec(pred: &str, two: bool, k1: &T, k2: &T, tag: usize) -> String {
    let args = if two { vec![k1.clone(), k2.clone(), int(tag as i64)] } else { vec![k1.clone(), int(tag as i64)] };
    format!("vp_dec({}, H)", T::Cmp(pred.to_string(), args).enc_text())
}

pub fn check(env: &mut Env, case: &Case) -> Verdict {
    env.counter += 1;
    let pred = format!("c06p{}", env.counter);
    let two = case.two_keys;
    // Dynamic mode: two regions of the history space are known to be broken on the current tree
    // (the same defect families that C09 records): clauses asserted with an UNBOUND indexed
    // argument, and an assert after a retract (a clause removed from inside an index bucket makes
    // a later assertz duplicate its successor). Failures there carry the family as signature.
    let dyn_family: Option<&'static str> = case.dynamic.as_ref().and_then(|steps| {
        let unbound = steps.iter().any(|s| match s {
            Step::AssertZ(a, b) | Step::AssertA(a, b) => matches!(a, T::Var(_)) || (two && matches!(b, T::Var(_))),
            _ => false,
        });
        let mut seen_retract = false;
        let mut assert_after_retract = false;
        for s in steps {
            match s {
                Step::Retract(_) => seen_retract = true,
                _ => {
                    if seen_retract {
                        assert_after_retract = true;
                    }
                }
            }
        }
        // since dynamic histories are rewritten into the clean region below, no family applies any
        // more; the classification is kept for the evidence classes only
        let _ = (unbound, assert_after_retract);
        None
    });
    let mut pre_classes: Vec<String> = vec![];
    let fs = |s: String| -> String {
        match dyn_family {
            Some(f) => format!("family:{f}"),
            None => s,
        }
    };
    // model database: Vec<(k1, k2, tag)>
    let mut db: Vec<(T, T, usize)> = vec![];
    let arity = if two { 3 } else { 2 };
    match &case.dynamic {
        None => {
            // rationals cannot be written as literals: such programs are loaded through assertz of decoded heads
            let any_rat = case.clauses.iter().any(|(a, b)| has_rat(a) || (two && has_rat(b)));
            if any_rat {
                let mut goals = vec![];
                for (i, (k1, k2)) in case.clauses.iter().enumerate() {
                    goals.push(format!("({}, assertz(H))", head_via_dec(&pred, two, k1, k2, i)));
                    db.push((k1.clone(), k2.clone(), i));
                }
                // one query per clause keeps variable scopes apart
                for g in goals {
                    let o = env.s.ask(&g, "[]");
                    if !matches!(o, Outcome::Sols(ref v) if v.len() == 1) {
                        return Verdict::Discard(format!("assert-failed:{}", o.short().chars().take(40).collect::<String>()));
                    }
                }
            } else {
                let mut text = String::new();
                for (i, (k1, k2)) in case.clauses.iter().enumerate() {
                    // each clause has its own variable scope in program text
                    if two {
                        text.push_str(&format!("{pred}({}, {}, {i}).\n", key_text(k1), key_text(k2)));
                    } else {
                        text.push_str(&format!("{pred}({}, {i}).\n", key_text(k1)));
                    }
                    db.push((k1.clone(), k2.clone(), i));
                }
                if !env.s.consult(&text, &pred) {
                    env.s.poisoned = true;
                    return Verdict::Discard("consult-rejected".into());
                }
            }
        }
        Some(steps) => {
            // assertz/asserta create the dynamic predicate (dynamic/1 is a directive, not a goal, here);
            // a history without any assert never creates it and is not interesting
            if !steps.iter().any(|s| matches!(s, Step::AssertZ(..) | Step::AssertA(..))) {
                return Verdict::Discard("no-assert-step".into());
            }
            let _ = arity;
            let mut tag = 0usize;
            // Update histories are C09's subject, and the current tree is broken for three kinds of
            // them (asserta into an indexed predicate, an assert after a retract, clauses with an
            // unbound indexed argument: see known/C09.json). C06 keeps to the region where the index is
            // only ever appended to and pruned: asserta becomes assertz, retracts run after all asserts,
            // unbound indexed arguments become a constant. What was rewritten is counted as a class.
            let mut rewritten = false;
            let mut sane: Vec<Step> = vec![];
            let mut retracts: Vec<Step> = vec![];
            let fixk = |t: &T, rw: &mut bool| -> T {
                if matches!(t, T::Var(_)) {
                    *rw = true;
                    atom("vk")
                } else {
                    t.clone()
                }
            };
            for st in steps {
                match st {
                    Step::AssertZ(a, b) => {
                        let b2 = if two { fixk(b, &mut rewritten) } else { b.clone() };
                        sane.push(Step::AssertZ(fixk(a, &mut rewritten), b2))
                    }
                    Step::AssertA(a, b) => {
                        // asserta into an indexed dynamic predicate is a recorded C09 defect family (e.g.
                        // assertz(p(g(a),0)), asserta(p(-3.25,1)), assertz(p(-3.25,2)): p(-3.25,N) gives [2])
                        rewritten = true;
                        let b2 = if two { fixk(b, &mut rewritten) } else { b.clone() };
                        sane.push(Step::AssertZ(fixk(a, &mut rewritten), b2))
                    }
                    Step::Retract(r) => {
                        // retracting from inside an index bucket is a recorded C09 defect family
                        // (the successor clause is then delivered twice): C06 does not retract
                        let _ = r;
                        rewritten = true;
                    }
                }
            }
            if !retracts.is_empty() && steps.iter().rev().skip_while(|s| matches!(s, Step::Retract(_))).any(|s| matches!(s, Step::Retract(_))) {
                rewritten = true;
            }
            sane.extend(retracts);
            if rewritten {
                pre_classes.push("dynamic-history-rewritten-into-clean-region".to_string());
            }
            let steps = &sane;
            for st in steps {
                match st {
                    Step::AssertZ(k1, k2) | Step::AssertA(k1, k2) => {
                        let front = matches!(st, Step::AssertA(..));
                        let g = format!("{}, {}(H)", head_via_dec(&pred, two, k1, k2, tag), if front { "asserta" } else { "assertz" });
                        let o = env.s.ask(&g, "[]");
                        if !matches!(o, Outcome::Sols(ref v) if v.len() == 1) {
                            if let Outcome::Panic(m) = &o {
                                return Verdict::fail(fs(format!("panic:{}", m.split_whitespace().next().unwrap_or("?"))), format!("assert of {} panicked: {m}", k1.text()));
                            }
                            return Verdict::fail(fs("assert-failed:dynamic".to_string()), format!("{g} gave {}", o.short()));
                        }
                        if front {
                            db.insert(0, (k1.clone(), k2.clone(), tag));
                        } else {
                            db.push((k1.clone(), k2.clone(), tag));
                        }
                        tag += 1;
                    }
                    Step::Retract(r) => {
                        if db.is_empty() {
                            continue;
                        }
                        let idx = (*r as usize * db.len()) >> 8;
                        let victim = db[idx].2;
                        let g = if two { format!("retract({pred}(_, _, {victim}))") } else { format!("retract({pred}(_, {victim}))") };
                        let o = env.s.ask_once(&g, "[]");
                        if !matches!(o, Outcome::Sols(ref v) if v.len() == 1) {
                            return Verdict::fail(fs("retract-failed:dynamic".to_string()), format!("{g} gave {} but the clause with that tag is live", o.short()));
                        }
                        db.remove(idx);
                    }
                }
            }
        }
    }

    let mut classes: Vec<String> = pre_classes.clone();
    let mut nontrivial = false;
    let kinds: std::collections::BTreeSet<&str> = db.iter().map(|(k, _, _)| key_kind(k)).collect();
    classes.push(if case.dynamic.is_some() { "dynamic".into() } else { "static".into() });
    if two {
        classes.push("two-keys".into());
    }
    for (c1, c2) in &case.calls {
        // expected: tags of clauses whose head unifies with the call, in order
        let mut expected: Vec<T> = vec![];
        for (k1, k2, tag) in &db {
            let mut s: Subst = Subst::new();
            let head1 = rename(k1, 1000);
            let head2 = rename(k2, 1000);
            // clause head variables are shared between k1 and k2 of the same clause; call variables between c1 and c2
            let ok1 = unify(&c1.term, &head1, &mut s, false);
            let ok = match ok1 {
                Ok(true) => {
                    if two {
                        unify(&c2.term, &head2, &mut s, false)
                    } else {
                        Ok(true)
                    }
                }
                other => other,
            };
            match ok {
                Ok(true) => expected.push(int(*tag as i64)),
                Ok(false) => {}
                Err(()) => return Verdict::Discard("cyclic-unifier".into()),
            }
        }
        let mut preps: Vec<String> = vec![];
        let a1 = if c1.computed {
            match computed(&c1.term, "K1") {
                Some(p) => {
                    preps.push(p);
                    "K1".to_string()
                }
                None => c1.term.text(),
            }
        } else if has_rat(&c1.term) {
            match computed(&c1.term, "K1") {
                Some(p) => {
                    preps.push(p);
                    "K1".to_string()
                }
                None => return Verdict::Discard("rational-inside-literal".into()),
            }
        } else {
            c1.term.text()
        };
        let a2 = if !two {
            String::new()
        } else if c2.computed || has_rat(&c2.term) {
            match computed(&c2.term, "K2") {
                Some(p) => {
                    preps.push(p);
                    "K2".to_string()
                }
                None => {
                    if has_rat(&c2.term) {
                        return Verdict::Discard("rational-inside-literal".into());
                    }
                    c2.term.text()
                }
            }
        } else {
            c2.term.text()
        };
        let callg = if two { format!("{pred}({a1}, {a2}, N)") } else { format!("{pred}({a1}, N)") };
        preps.push(format!("findall(N, {callg}, Ns)"));
        let goal = preps.join(", ");
        let o = env.s.ask(&goal, "Ns");
        let want = if expected.is_empty() { nil() } else { list(expected.clone()) };
        let kind1 = key_kind(&c1.term);
        let sig_kind = format!("{}{}{}", kind1, if c1.computed { "-computed" } else { "" }, if case.dynamic.is_some() { "-dynamic" } else { "-static" });
        match &o {
            Outcome::Sols(v) if v.len() == 1 && v[0].eq_struct(&want.norm()) => {}
            Outcome::Panic(m) => return Verdict::fail(fs(format!("panic:{}", m.split_whitespace().next().unwrap_or("?"))), format!("{goal} panicked: {m}")),
            Outcome::Harness(m) => return Verdict::Discard(format!("harness:{}", m.chars().take(30).collect::<String>())),
            other => {
                // root-cause class of the known defect: a bignum or rational call key finds only a
                // subsequence of the expected clauses (the constant index is keyed by the arena
                // pointer of such numbers), never a wrong order or an extra clause
                let mut sig = format!("wrong-clauses:{sig_kind}");
                let kind2 = if two { key_kind(&c2.term) } else { "" };
                let numkind = if matches!(kind1, "bignum" | "rational") {
                    kind1
                } else if matches!(kind2, "bignum" | "rational") {
                    kind2
                } else {
                    ""
                };
                if !numkind.is_empty() {
                    if let Outcome::Sols(v) = other {
                        if v.len() == 1 {
                            let got: Vec<T> = match &v[0] {
                                T::PList(items, tail) if tail.is_nil() => items.clone(),
                                t if t.is_nil() => vec![],
                                _ => vec![atom("?")],
                            };
                            let mut it = expected.iter();
                            let subseq = got.iter().all(|g| it.any(|e| e.eq_struct(g)));
                            if subseq && got.len() < expected.len() {
                                sig = format!("index-miss:{numkind}-key");
                            }
                        }
                    }
                }
                // the bignum/rational index miss keeps its own signature even in dynamic mode
                let sig = if sig.starts_with("index-miss:") { sig } else { fs(sig) };
                return Verdict::fail(
                    sig,
                    format!("{goal} gave {} expected tags {} (db keys: {})", other.short(), want.text(), db.iter().map(|(a, b, t)| format!("{}:{}{}", t, a.text(), if two { format!("/{}", b.text()) } else { String::new() })).collect::<Vec<_>>().join(" ")),
                )
            }
        }
        classes.push(format!("call-{kind1}{}", if c1.computed { "-computed" } else { "" }));
        if db.len() >= 3 && kinds.len() >= 2 && (c1.computed || !matches!(kind1, "atom" | "fixnum" | "char" | "nil")) {
            nontrivial = true;
        }
    }
    // clean up so that heap/code do not accumulate names forever
    let _ = env.s.ask(&format!("abolish({pred}/{arity})"), "[]");
    let cls: Vec<&str> = classes.iter().map(|s| s.as_str()).collect();
    Verdict::pass(nontrivial, &cls)
}

pub struct C06;

impl Prop for C06 {
    fn id(&self) -> &'static str {
        "C06"
    }
    fn rule(&self) -> &'static str {
        "predicates of 1-12 clauses (static: consulted text; dynamic: built by assertz/asserta with interleaved retracts) whose first (and optionally second) arguments are drawn from a per-case pool of related keys (atoms, chars, [], fixnums and bignums around 2^55/2^64, rationals, floats, strings, lists, partial lists, '.'/2, structures with shared names/arities, variables), called with every pool key plus an unbound key, literal or computed at run time (bignum arithmetic, atom_codes, atom_chars, =..); oracle = linear scan with the harness unifier giving the ordered tag list; non-trivial = >= 3 live clauses, >= 2 key kinds, call key computed or not an atom/char/[]/small integer; distinct by case encoding"
    }
    fn assumptions(&self) -> Vec<String> {
        vec!["0.0 vs -0.0 keys are not generated (their unifiability is not fixed by the statement)".into(), "findall/3, assertz/1, retract/1 (checked by C25, C09) are used to observe and build".into()]
    }
    fn run_shard(&self, cfg: &ShardCfg) -> ShardResult {
        let mut d = Driver::new(cfg, "C06");
        let n = cfg.share(cfg.tier.pick(8_000, 400_000));
        d.run("pred", 0, n, 400, case_strategy(), &mk_env, &check);
        d.finish()
    }
    fn replay(&self, _kind: &str, case: &Value) -> Verdict {
        replay_case::<Case, Env>(case, &mk_env, &check)
    }
}
