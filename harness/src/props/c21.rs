//! C21 — Atom identity is text identity.
//!
//! A case is two (text, creation path) pairs. Both atoms are created in one query through their
//! paths and observed together (==, =, compare/3, @<.., atom_codes/atom_length/atom_chars read-back,
//! clause selection with the atom as first-argument key (also nested in f/1), bb_put/bb_get key,
//! functor name, sort/keysort, atom_concat). The oracle is plain `String` equality and `char` order.
use crate::engine::*;
use crate::gen::{atom_text_strategy, pick};
use crate::session::{Outcome, Session};
use crate::term::{atom, cmp, int, list, T};
use proptest::prelude::*;
use serde::{Deserialize, Serialize};
use serde_json::Value;
use std::cmp::Ordering;

const C21_PL: &str = include_str!("../../prolog/c21.pl");

#[derive(Clone, Debug, Serialize, Deserialize)]
pub struct ACase {
    pub t1: String,
    pub p1: String,
    pub j1: u16,
    pub t2: String,
    pub p2: String,
    pub j2: u16,
}

pub const PATHS: &[&str] = &[
    "lit", "lit", "lit_clause", "consult", "atom_codes", "atom_codes", "atom_chars", "atom_chars_str", "atom_concat", "atom_concat", "sub_atom", "sub_atom", "char_code", "number", "read", "functor_rt", "univ_rt", "bb_rt", "findall_rt", "concat_empty", "sub_whole", "caught",
];

/// names the build script turns into static atoms (a sample of `atom!("...")` uses in the sources)
pub const STATIC_SAMPLE: &[&str] = &[
    "[]", "{}", ".", "-", "+", "*", "=", "==", "\\+", "->", ";", ",", "!", "|", ":-", "is", "true", "false", "fail", "error", "instantiation_error", "type_error", "domain_error", "end_of_file", "user", "lists", "call", "dynamic", "length", "atom", "integer", "append", "member", "halt", "op", "xfx", "yfx",
    "fy", "sort", "keysort", "atom_length", "character_code", "not_less_than_zero", "$call", "$VAR",
];

// ---------------------------------------------------------------------------------------------
// generators

fn boundary_text() -> BoxedStrategy<String> {
    // byte lengths 0..=9 around the 6-byte inline limit, single- and multi-byte characters
    let ch = prop_oneof![6 => (b'a'..=b'e').prop_map(|b| b as char), 1 => Just('é'), 1 => Just('日'), 1 => Just('😀'), 1 => Just('\0'), 1 => Just('A'), 1 => Just(' '), 1 => Just('1')];
    (proptest::collection::vec(ch, 0..=9)).prop_map(|v| v.into_iter().collect::<String>()).boxed()
}

fn text_strategy() -> BoxedStrategy<String> {
    prop_oneof![
        5 => boundary_text(),
        3 => atom_text_strategy(),
        2 => any::<u16>().prop_map(|k| pick(STATIC_SAMPLE, k).to_string()),
        1 => (0u32..100_000).prop_map(|n| n.to_string()),
        1 => proptest::collection::vec(prop_oneof![(b'a'..=b'z').prop_map(|b| b as char), Just('λ'), Just('\0')], 10..=60).prop_map(|v| v.into_iter().collect::<String>()),
    ]
    .boxed()
}

/// a text near `t`
fn near(t: &str, rel: u8, pos: u16, c: char, other: &str) -> String {
    let chars: Vec<char> = t.chars().collect();
    match rel % 10 {
        0..=4 => t.to_string(),
        5 => {
            if chars.is_empty() {
                return c.to_string();
            }
            let i = (pos as usize * chars.len()) >> 16;
            let mut v = chars.clone();
            v[i] = if v[i] == c { 'z' } else { c };
            v.into_iter().collect()
        }
        6 => {
            let mut v = chars.clone();
            v.push(c);
            v.into_iter().collect()
        }
        7 => chars[..chars.len().saturating_sub(1)].iter().collect(),
        8 => {
            // same first 6 bytes, different afterwards / trailing NUL
            let mut v = chars.clone();
            v.push('\0');
            v.into_iter().collect()
        }
        _ => other.to_string(),
    }
}

pub fn acase_strategy() -> BoxedStrategy<ACase> {
    (text_strategy(), (any::<u16>(), any::<u16>(), any::<u16>(), any::<u16>()), (any::<u8>(), any::<u16>(), prop_oneof![Just('a'), Just('b'), Just('é'), Just('\0'), Just('A'), Just('日')], text_strategy()))
        .prop_map(|(t1, (p1, j1, p2, j2), (rel, pos, c, other))| {
            // the "caught" path exists for one text only and runs into an open finding: kept rare
            let path = |k: u16, j: u16| {
                let p = pick(PATHS, k);
                if p == "caught" && j % 64 != 0 {
                    "lit"
                } else {
                    p
                }
            };
            let (p1, p2) = (path(p1, j1), path(p2, j2));
            let t1 = if p1 == "caught" { CAUGHT_TEXT.to_string() } else { t1 };
            let t2 = if p2 == "caught" { CAUGHT_TEXT.to_string() } else { near(&t1, rel, pos, c, &other) };
            ACase { p1: p1.to_string(), j1, p2: p2.to_string(), j2, t1, t2 }
        })
        .boxed()
}

// ---------------------------------------------------------------------------------------------
// building the atoms

fn codes(s: &str) -> String {
    let v: Vec<String> = s.chars().map(|c| (c as u32).to_string()).collect();
    format!("[{}]", v.join(","))
}

fn is_plain_number(s: &str) -> bool {
    !s.is_empty() && s.len() <= 40 && s.chars().all(|c| c.is_ascii_digit()) && (s == "0" || !s.starts_with('0'))
}

/// the instantiation_error atom as built by the machine's own error constructor
const CAUGHT_TEXT: &str = "instantiation_error";

pub fn effective_path<'a>(p: &'a str, t: &str) -> &'a str {
    match p {
        "char_code" if t.chars().count() != 1 => "atom_codes",
        "number" if !is_plain_number(t) => "atom_chars",
        "caught" if t != CAUGHT_TEXT => "lit",
        p => p,
    }
}

/// goal text binding variable `v` to the atom with text `t` through creation path `p`
fn build(v: &str, p: &str, t: &str, j: u16, uid: u64) -> String {
    let lit = T::Atom(t.to_string()).text();
    let n = t.chars().count();
    let base = format!("atom_codes({v}0, {})", codes(t));
    match p {
        "lit" => format!("{v} = ({lit})"),
        "lit_clause" => format!("retractall(c21a({uid}, _)), assertz(c21a({uid}, {lit})), c21a({uid}, {v})"),
        // the clause was consulted before the query (see check)
        "consult" => format!("c21c({uid}, {v})"),
        "atom_codes" => format!("atom_codes({v}, {})", codes(t)),
        "atom_chars" => format!("vp_dec(s({}), {v}Cs), atom_chars({v}, {v}Cs)", codes(t)),
        "atom_chars_str" => format!("atom_chars({v}, {})", T::Str(t.to_string()).text()),
        "atom_concat" => {
            let i = (j as usize * (n + 1)) >> 16;
            let a: String = t.chars().take(i).collect();
            let b: String = t.chars().skip(i).collect();
            format!("atom_codes({v}P, {}), atom_codes({v}S, {}), atom_concat({v}P, {v}S, {v})", codes(&a), codes(&b))
        }
        "sub_atom" => {
            let pres = ["", "x", "αβ", "abcdef", "日本語のテキスト", "\0"];
            let posts = ["", "y", "é", "ghijklm"];
            let pre = pres[(j as usize) % pres.len()];
            let post = posts[(j as usize / 8) % posts.len()];
            let whole = format!("{pre}{t}{post}");
            format!("atom_codes({v}W, {}), sub_atom({v}W, {}, {}, _, {v})", codes(&whole), pre.chars().count(), n)
        }
        "char_code" => format!("char_code({v}, {})", t.chars().next().unwrap() as u32),
        "number" => format!("{v}N = {t}, number_chars({v}N, {v}Cs), atom_chars({v}, {v}Cs)"),
        "read" => format!("vp_dec(s({}), {v}Tx), read_from_chars({v}Tx, {v})", codes(&format!("{lit}."))),
        "functor_rt" => format!("{base}, functor({v}T, {v}0, 2), functor({v}T, {v}, _)"),
        "univ_rt" => format!("{base}, {v}T =.. [{v}0, x], {v}T =.. [{v}|_]"),
        "bb_rt" => format!("{base}, bb_put(c21v, {v}0), bb_get(c21v, {v})"),
        "findall_rt" => format!("{base}, findall({v}X, {v}X = {v}0, [{v}])"),
        "concat_empty" => format!("{base}, atom_concat({v}0, '', {v})"),
        "sub_whole" => format!("{base}, sub_atom({v}0, 0, _, 0, {v})"),
        "caught" => format!("catch(keysort(_, _), error({v}, _), true)"),
        other => panic!("unknown path {other}"),
    }
}

fn tf(b: bool) -> T {
    atom(if b { "true" } else { "false" })
}

fn sym(o: Ordering) -> T {
    atom(match o {
        Ordering::Less => "<",
        Ordering::Equal => "=",
        Ordering::Greater => ">",
    })
}

fn codes_t(s: &str) -> T {
    list(s.chars().map(|c| int(c as u32 as i64)).collect())
}

fn expected(t1: &str, t2: &str) -> T {
    let eq = t1 == t2;
    let o = t1.chars().cmp(t2.chars());
    // str order on UTF-8 bytes equals code point order; keep both as an oracle self-check
    assert_eq!(o, t1.cmp(t2), "oracle self-check: byte order = code point order");
    let (n1, n2) = (t1.chars().count() as i64, t2.chars().count() as i64);
    let ints = |v: Vec<i64>| list(v.into_iter().map(int).collect());
    let mut i1 = vec![];
    if t2 == "zzz_other" {
        i1.push(0);
    }
    if eq {
        i1.push(1);
    }
    i1.push(4);
    let mut i2 = vec![];
    if t1 == "zzz_other" {
        i2.push(0);
    }
    i2.push(1);
    if eq {
        i2.push(4);
    }
    let i3 = if eq { vec![3] } else { vec![] };
    cmp(
        "r",
        vec![
            list(vec![tf(true), tf(true), tf(true), tf(true)]),
            list(vec![tf(eq), tf(eq), tf(eq), tf(!eq), tf(!eq)]),
            cmp("/", vec![sym(o), sym(o.reverse())]),
            list(vec![tf(o == Ordering::Less), tf(o != Ordering::Greater), tf(o == Ordering::Greater), tf(o != Ordering::Less)]),
            codes_t(t1),
            codes_t(t2),
            ints(vec![n1, n2, n1, n2]),
            list(vec![ints(i1), ints(i2), ints(i3)]),
            atom(if eq { "yes" } else { "no" }),
            list(vec![tf(eq), tf(true), tf(eq)]),
            cmp("-", vec![int(if eq { 1 } else { 2 }), int(if o != Ordering::Greater { 1 } else { 2 })]),
            cmp("-", vec![int(n1 + n2), tf(true)]),
        ],
    )
}

const FIELDS: &[&str] = &["type-tests", "equality", "compare", "order-ops", "atom_codes-1", "atom_codes-2", "lengths", "clause-index", "bb-key", "functor-name", "sort", "atom_concat"];

pub struct Env {
    pub s: Session,
}

pub fn mk_env() -> Env {
    let mut s = Session::new(&["lists", "charsio", "iso_ext"]);
    assert!(s.consult(C21_PL, "c21"), "c21.pl failed to load");
    Env { s }
}

/// open finding: the instantiation_error atom built by MachineState::instantiation_error (an arity-0
/// functor cell behind a Str pointer) is an atom for atom/1, ==/2, atom_length/2 but atom_codes/2 hits
/// unreachable!() (system_calls.rs) and atom_chars/2 fails
const CAUGHT_SIG: &str = "error-ball-atom:not-a-plain-atom-cell";

pub fn check(env: &mut Env, c: &ACase) -> Verdict {
    let p1 = effective_path(&c.p1, &c.t1);
    let p2 = effective_path(&c.p2, &c.t2);
    let uid = fnv64(format!("{}\u{1}{}", c.t1, c.t2).as_bytes()) % 1_000_000_007;
    let mut program = String::new();
    for (p, t, id) in [(p1, &c.t1, 2 * uid), (p2, &c.t2, 2 * uid + 1)] {
        if p == "consult" {
            program.push_str(&format!("c21c({id}, {}).\n", T::Atom(t.to_string()).text()));
        }
    }
    if !program.is_empty() && !env.s.consult(&program, &format!("c21_{uid}")) {
        return Verdict::Discard("consult-rejected".into());
    }
    let goal = format!("{}, {}, c21_obs(A, B, {}, R)", build("A", p1, &c.t1, c.j1, 2 * uid), build("B", p2, &c.t2, c.j2, 2 * uid + 1), uid);
    let caught = p1 == "caught" || p2 == "caught";
    let o = env.s.ask(&goal, "R");
    let want = expected(&c.t1, &c.t2);
    let got = match &o {
        Outcome::Sols(v) if v.len() == 1 => v[0].clone(),
        Outcome::Panic(m) => {
            if caught {
                return Verdict::fail(CAUGHT_SIG, format!("{goal} panicked: {m}"));
            }
            return Verdict::fail(format!("panic:{}:{}+{}", m.split_whitespace().next().unwrap_or("?"), p1, p2), format!("{goal} panicked: {m}"));
        }
        Outcome::Harness(m) => return Verdict::Discard(format!("harness:{}", m.chars().take(40).collect::<String>())),
        other => {
            if caught {
                return Verdict::fail(CAUGHT_SIG, format!("{goal} gave {}", other.short()));
            }
            return Verdict::fail(format!("no-observation:{}+{}", p1, p2), format!("{goal} gave {}", other.short().chars().take(600).collect::<String>()));
        }
    };
    let (ga, wa) = match (&got, &want) {
        (T::Cmp(_, a), T::Cmp(_, b)) if a.len() == b.len() => (a, b),
        _ => return Verdict::Discard("harness:bad observation shape".into()),
    };
    for (i, (g, w)) in ga.iter().zip(wa.iter()).enumerate() {
        if !g.norm().eq_struct(&w.norm()) {
            if caught {
                return Verdict::fail(CAUGHT_SIG, format!("{goal}: {} gave {} expected {}", FIELDS[i], g.text(), w.text()));
            }
            return Verdict::fail(format!("wrong-{}:{}+{}", FIELDS[i], p1, p2), format!("{goal}\n  {}: observed {} expected {}", FIELDS[i], g.text(), w.text()));
        }
    }
    let (l1, l2) = (c.t1.len(), c.t2.len());
    let inl = |t: &str| !t.is_empty() && t.len() <= 6 && !t.contains('\0');
    let is_static = |t: &str| STATIC_SAMPLE.contains(&t);
    let nul = c.t1.contains('\0') || c.t2.contains('\0');
    let nontrivial = inl(&c.t1) != inl(&c.t2) || nul || is_static(&c.t1) || is_static(&c.t2) || (p1 != p2 && (5..=8).contains(&l1) && (5..=8).contains(&l2));
    let mut classes: Vec<String> = vec![format!("path:{p1}"), format!("path2:{p2}")];
    classes.push(if c.t1 == c.t2 { "texts-equal".into() } else { "texts-differ".into() });
    if p1 != p2 {
        classes.push("paths-differ".into());
    }
    if inl(&c.t1) != inl(&c.t2) {
        classes.push("inline-vs-table".into());
    }
    if inl(&c.t1) && inl(&c.t2) {
        classes.push("both-inline".into());
    }
    if nul {
        classes.push("has-NUL".into());
    }
    if is_static(&c.t1) || is_static(&c.t2) {
        classes.push("static-atom".into());
    }
    if c.t1.is_empty() || c.t2.is_empty() {
        classes.push("empty-atom".into());
    }
    classes.push(format!("bytes1:{}", l1.min(10)));
    if !c.t1.is_ascii() || !c.t2.is_ascii() {
        classes.push("non-ascii".into());
    }
    let cl: Vec<&str> = classes.iter().map(|s| s.as_str()).collect();
    Verdict::pass(nontrivial, &cl)
}

pub struct C21;

impl Prop for C21 {
    fn id(&self) -> &'static str {
        "C21"
    }
    fn rule(&self) -> &'static str {
        "pairs of (text, creation path): texts of 0..9 bytes around the 6-byte inline limit (1/2/3/4-byte characters, NUL), the shared tricky-atom vocabulary, names of static atoms, decimal numbers, 10..60-char texts; second text equal (50%) or near (one char changed, one longer/shorter, trailing NUL, unrelated); 20 creation paths (quoted literal in the query, in an asserted clause, in a consulted clause, atom_codes, atom_chars from a list / from a string literal, atom_concat of a split, sub_atom of a longer atom with multi-byte context, char_code, number_chars+atom_chars, read_from_chars, round trips through functor/3, =../2, bb_put/bb_get, findall/3, atom_concat with '', sub_atom whole, the instantiation_error atom of a caught error); one query observes ==, =, \\==, compare/3, @<.., atom_codes/atom_length/atom_chars of both, clause selection by first-argument key (plain and nested), bb_get by key, functor names, sort/keysort, atom_concat round trip; oracle: String equality and char order; non-trivial = one text inline-capable (1..6 bytes, no NUL) and the other not, or NUL, or static-atom name, or different paths at 5..8 bytes; distinct by case encoding"
    }
    fn assumptions(&self) -> Vec<String> {
        vec!["code lists cross the transport boundary as integers; atom texts are never compared through the reader or printer".into(), "STATIC_SAMPLE is a sample of names the build script pre-interns (a name that is not static only makes the case less interesting, never wrong)".into()]
    }
    fn run_shard(&self, cfg: &ShardCfg) -> ShardResult {
        let mut d = Driver::new(cfg, "C21");
        let n = cfg.share(cfg.tier.pick(60_000, 3_000_000));
        d.run("pair", 0, n, 4000, acase_strategy(), &mk_env, &check);
        d.finish()
    }
    fn replay(&self, _kind: &str, case: &Value) -> Verdict {
        replay_case::<ACase, Env>(case, &mk_env, &check)
    }
}
