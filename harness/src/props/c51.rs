//! C51 — CSV parsing and writing follow the documented format (library(csv)).
//!
//! Parse side: a generated table is rendered as an RFC 4180 document (quoted fields with embedded
//! separators / quotes / line breaks, CRLF or LF endings, final newline present or absent,
//! optional header, configurable separator). The harness's own RFC 4180 parser re-reads the
//! text (self-check against the generated table) and the documented typing (number literal ->
//! number, empty -> [], else string) gives the expected frame(Header, Rows).
//! Write side: write_csv/2,3 to a scratch file; the file must be RFC 4180 text whose fields are
//! the frame's fields, and parse_csv must read it back to the same frame.
use crate::engine::*;
use crate::gen::*;
use crate::num::*;
use crate::session::{Outcome, Session};
use crate::shared::txt::{chars_of, drain_tolerated, items_of, short, tolerate_on, tolerated};
use crate::term::{self, T};
use dashu::integer::IBig;
use proptest::prelude::*;
use serde::{Deserialize, Serialize};
use serde_json::Value;

const C51_PL: &str = include_str!("../../prolog/c51.pl");

// ---------------------------------------------------------------------------------------------
// Case

#[derive(Clone, Debug, Serialize, Deserialize, PartialEq)]
pub enum Field {
    Empty,
    Int(#[serde(with = "term::ibig_serde")] IBig),
    /// a "nice" float: m / 2^k, printed as a plain decimal
    Float(#[serde(with = "term::f64_bits")] f64),
    Text(String),
}

#[derive(Clone, Debug, Serialize, Deserialize)]
pub struct Case {
    /// None = with_header(false)
    pub header: Option<Vec<Field>>,
    pub rows: Vec<Vec<Field>>,
    pub sep: char,
    /// pass the options explicitly even when they are the defaults
    pub explicit_opts: bool,
    /// parse side: per-field "quote although not needed" choices (cyclic), line ending, final newline
    pub quote: Vec<bool>,
    pub crlf: bool,
    pub final_newline: bool,
    /// write side instead of parse side
    pub write: bool,
    pub write_crlf: Option<bool>,
    pub null_value: Option<String>,
}

fn float_text(f: f64) -> String {
    let s = format!("{}", f);
    if s.contains('.') {
        s
    } else {
        format!("{s}.0")
    }
}

impl Field {
    fn content(&self) -> String {
        match self {
            Field::Empty => String::new(),
            Field::Int(i) => i.to_string(),
            Field::Float(f) => float_text(*f),
            Field::Text(s) => s.clone(),
        }
    }
    fn term(&self) -> T {
        match self {
            Field::Empty => term::nil(),
            Field::Int(i) => T::Int(i.clone()),
            Field::Float(f) => T::Float(*f),
            Field::Text(s) => T::Str(s.clone()),
        }
    }
}

fn needs_quotes(s: &str, sep: char) -> bool {
    s.contains(sep) || s.contains('"') || s.contains('\n') || s.contains('\r')
}

fn render(case: &Case) -> String {
    let nl = if case.crlf { "\r\n" } else { "\n" };
    let mut out = String::new();
    let mut qi = 0usize;
    let mut lines: Vec<&Vec<Field>> = vec![];
    if let Some(h) = &case.header {
        lines.push(h);
    }
    lines.extend(case.rows.iter());
    for (li, line) in lines.iter().enumerate() {
        if li > 0 {
            out.push_str(nl);
        }
        for (fi, f) in line.iter().enumerate() {
            if fi > 0 {
                out.push(case.sep);
            }
            let c = f.content();
            let extra = !case.quote.is_empty() && case.quote[qi % case.quote.len()];
            qi += 1;
            // a record that is one empty field must be written `""` (a blank line is no record)
            let lone_empty = line.len() == 1 && c.is_empty();
            if needs_quotes(&c, case.sep) || extra || lone_empty {
                out.push('"');
                out.push_str(&c.replace('"', "\"\""));
                out.push('"');
            } else {
                out.push_str(&c);
            }
        }
    }
    if case.final_newline && !lines.is_empty() {
        out.push_str(nl);
    }
    out
}

// ---------------------------------------------------------------------------------------------
// Reference RFC 4180 parser: records of (content, quoted)

pub fn ref_parse(text: &str, sep: char) -> Result<Vec<Vec<(String, bool)>>, String> {
    let cs: Vec<char> = text.chars().collect();
    let mut i = 0;
    let mut recs = vec![];
    let mut rec: Vec<(String, bool)> = vec![];
    if cs.is_empty() {
        return Ok(recs);
    }
    loop {
        // one field
        let mut content = String::new();
        let mut quoted = false;
        if i < cs.len() && cs[i] == '"' {
            quoted = true;
            i += 1;
            loop {
                if i >= cs.len() {
                    return Err("unterminated quoted field".into());
                }
                if cs[i] == '"' {
                    if i + 1 < cs.len() && cs[i + 1] == '"' {
                        content.push('"');
                        i += 2;
                    } else {
                        i += 1;
                        break;
                    }
                } else {
                    content.push(cs[i]);
                    i += 1;
                }
            }
        } else {
            while i < cs.len() && cs[i] != sep && cs[i] != '\n' && cs[i] != '\r' {
                if cs[i] == '"' {
                    return Err("quote inside an unquoted field".into());
                }
                content.push(cs[i]);
                i += 1;
            }
        }
        rec.push((content, quoted));
        if i >= cs.len() {
            recs.push(std::mem::take(&mut rec));
            return Ok(recs);
        }
        if cs[i] == sep {
            i += 1;
            continue;
        }
        if cs[i] == '\r' && i + 1 < cs.len() && cs[i + 1] == '\n' {
            i += 2;
        } else if cs[i] == '\n' {
            i += 1;
        } else {
            return Err(format!("unexpected character {:?} after a field", cs[i]));
        }
        recs.push(std::mem::take(&mut rec));
        if i >= cs.len() {
            return Ok(recs); // final line break
        }
    }
}

#[derive(Debug, PartialEq)]
enum Kind {
    Empty,
    Int(IBig),
    Float(f64),
    /// cannot be a number in any syntax: no digit anywhere
    StrictText,
    /// has a digit but is not a canonical decimal literal: string or number, both accepted
    Ambiguous,
}

fn classify(s: &str) -> Kind {
    if s.is_empty() {
        return Kind::Empty;
    }
    if !s.chars().any(|c| c.is_numeric()) {
        return Kind::StrictText;
    }
    let body = s.strip_prefix('-').unwrap_or(s);
    let canon_int = |t: &str| !t.is_empty() && t.chars().all(|c| c.is_ascii_digit()) && (t == "0" || !t.starts_with('0'));
    if canon_int(body) {
        if s == "-0" {
            return Kind::Ambiguous;
        }
        return Kind::Int(s.parse().unwrap());
    }
    if let Some((a, b)) = body.split_once('.') {
        let sig = format!("{a}{b}").trim_start_matches('0').len();
        if canon_int(a) && !b.is_empty() && b.chars().all(|c| c.is_ascii_digit()) && sig <= 15 && sig > 0 {
            return Kind::Float(s.parse().unwrap());
        }
    }
    Kind::Ambiguous
}

/// Does the parsed field `t` agree with the documented typing of a field with this content?
fn field_ok(content: &str, quoted: bool, t: &T) -> Result<(), String> {
    let as_string = || chars_of(t).map(|g| g == content).unwrap_or(false);
    let ok = match (classify(content), quoted) {
        (Kind::Empty, _) => t.is_nil(),
        (Kind::StrictText, _) => as_string(),
        (Kind::Int(i), false) => matches!(t, T::Int(g) if *g == i),
        (Kind::Float(f), false) => matches!(t, T::Float(g) if g.to_bits() == f.to_bits()),
        // quoting says nothing about the type in RFC 4180 and the docs are silent: string or number
        (Kind::Int(i), true) => as_string() || matches!(t, T::Int(g) if *g == i),
        (Kind::Float(f), true) => as_string() || matches!(t, T::Float(g) if g.to_bits() == f.to_bits()),
        (Kind::Ambiguous, _) => as_string() || matches!(t, T::Int(_) | T::Float(_)),
    };
    if ok {
        Ok(())
    } else {
        Err(format!("field {}{} came as {}", short(content), if quoted { " (quoted)" } else { "" }, short(&t.text())))
    }
}

// ---------------------------------------------------------------------------------------------
// Generators

fn text_field(seps: bool) -> BoxedStrategy<String> {
    let mut palette: Vec<char> = "abcxyzABZ _-+.:!?#()é日😀'".chars().collect();
    let special: Vec<char> = ",;\t\"\n\r|".chars().collect();
    let digits: Vec<char> = "019e".chars().collect();
    if seps {
        palette.extend(special.iter());
    }
    let pal2 = palette.clone();
    prop_oneof![
        6 => proptest::collection::vec(any::<u16>(), 1..=8).prop_map(move |ks| ks.into_iter().map(|k| pick(&palette, k)).collect::<String>()),
        // with digits: ambiguous typing
        1 => proptest::collection::vec(any::<u16>(), 1..=6).prop_map(move |ks| ks.into_iter().map(|k| { let mut p = pal2.clone(); p.extend(digits.iter()); pick(&p, k) }).collect::<String>()),
        1 => any::<u16>().prop_map(|k| pick(&["1e5", "+1", " 2", "2 ", "0x10", "1.", ".5", "-0", "0'a", "1_000", "007", "1.50", "12abc", "1.0e10", "- 1", "1,5", "\"1\"", "0.1234567890123456789"], k).to_string()),
        1 => any::<u16>().prop_map(|k| pick(&["\"", "\"\"", "a\"b", "a,b", "a;b", "line1\nline2", "cr\r\nlf", "\r", "\n", " ", "  x  ", ",", "\"quoted\"", "a\tb"], k).to_string()),
    ]
    .boxed()
}

fn field(seps: bool) -> BoxedStrategy<Field> {
    prop_oneof![
        2 => Just(Field::Empty),
        3 => prop_oneof![(-1000i64..=1000).prop_map(IBig::from), int_strategy()].prop_map(Field::Int),
        2 => (-100_000i32..=100_000, 0u32..=6).prop_map(|(m, k)| Field::Float(m as f64 / (1u32 << k) as f64)),
        6 => text_field(seps).prop_map(Field::Text),
    ]
    .boxed()
}

fn numeric_field() -> BoxedStrategy<Field> {
    prop_oneof![
        2 => Just(Field::Empty),
        4 => prop_oneof![(-1000i64..=1000).prop_map(IBig::from), int_strategy()].prop_map(Field::Int),
        3 => (-100_000i32..=100_000, 0u32..=6).prop_map(|(m, k)| Field::Float(m as f64 / (1u32 << k) as f64)),
    ]
    .boxed()
}

fn table(cell: fn() -> BoxedStrategy<Field>, hdr: fn() -> BoxedStrategy<Field>) -> BoxedStrategy<(Option<Vec<Field>>, Vec<Vec<Field>>)> {
    (1usize..=5, 0usize..=6, proptest::bool::weighted(0.65)).prop_flat_map(move |(cols, nrows, with_header)| {
        let h = if with_header { proptest::collection::vec(hdr(), cols).prop_map(Some).boxed() } else { Just(None).boxed() };
        (h, proptest::collection::vec(proptest::collection::vec(cell(), cols), nrows))
    })
    .boxed()
}

fn sep_strategy() -> BoxedStrategy<char> {
    prop_oneof![5 => Just(','), 2 => Just(';'), 1 => Just('\t'), 1 => Just('|'), 1 => Just(':')].boxed()
}

pub fn case_strategy() -> BoxedStrategy<Case> {
    let quote = proptest::collection::vec(proptest::bool::weighted(0.3), 0..=5);
    let parse = (table(|| field(true), || prop_oneof![5 => text_field(true).prop_map(Field::Text), 1 => field(true)].boxed()), sep_strategy(), any::<bool>(), quote, any::<bool>(), any::<bool>())
        .prop_map(|((header, rows), sep, explicit_opts, quote, crlf, final_newline)| Case { header, rows, sep, explicit_opts, quote, crlf, final_newline, write: false, write_crlf: None, null_value: None });
    let wopts = (proptest::option::weighted(0.5, any::<bool>()), proptest::option::weighted(0.25, any::<u16>().prop_map(|k| pick(&["\\N", "NULL", "-", "n/a"], k).to_string())));
    // frames the documentation shows: strings, numbers, []
    let write_any = (table(|| field(true), || prop_oneof![5 => text_field(true).prop_map(Field::Text), 1 => field(true)].boxed()), sep_strategy(), any::<bool>(), wopts.clone())
        .prop_map(|((header, rows), sep, explicit_opts, (write_crlf, null_value))| Case { header, rows, sep, explicit_opts, quote: vec![], crlf: false, final_newline: false, write: true, write_crlf, null_value });
    // frames without strings (what works behind the open finding on string fields)
    let write_num = (table(numeric_field, || prop_oneof![(1i64..=99).prop_map(|i| Field::Int(IBig::from(i))), (-100i32..=100).prop_map(|m| Field::Float(m as f64 / 4.0))].boxed()), sep_strategy(), any::<bool>(), wopts)
        .prop_map(|((header, rows), sep, explicit_opts, (write_crlf, null_value))| Case { header, rows, sep, explicit_opts, quote: vec![], crlf: false, final_newline: false, write: true, write_crlf, null_value });
    prop_oneof![10 => parse, 3 => write_any, 4 => write_num].boxed()
}

// ---------------------------------------------------------------------------------------------
// Check

pub struct Env {
    pub s: Session,
    pub n: u64,
    pub dir: std::path::PathBuf,
}

pub fn mk_env() -> Env {
    let mut s = Session::new(&["csv", "dcgs", "lists"]);
    assert!(s.consult(C51_PL, "c51"), "c51.pl failed to load");
    let dir = std::env::temp_dir().join("vw-lib2-c51");
    let _ = std::fs::create_dir_all(&dir);
    Env { s, n: 0, dir }
}

enum Res {
    Ok(Option<T>),
    Failed,
    Ex(T),
}

fn run(env: &mut Env, goal: &str, what: &str) -> Result<Res, Verdict> {
    let o = env.s.ask_once(goal, "Rr");
    match &o {
        Outcome::Panic(m) => return Err(Verdict::fail(format!("panic:{}", m.split_whitespace().next().unwrap_or("?")), format!("{what}: {m}"))),
        Outcome::Harness(m) => return Err(Verdict::Discard(format!("harness:{}", m.chars().take(40).collect::<String>()))),
        _ => {}
    }
    match &o {
        Outcome::Sols(v) if v.len() == 1 => match &v[0] {
            T::Atom(a) if a == "failed" => Ok(Res::Failed),
            T::Atom(a) if a == "ok" => Ok(Res::Ok(None)),
            T::Cmp(n, a) if n == "ok" && a.len() == 1 => Ok(Res::Ok(Some(a[0].clone()))),
            T::Cmp(n, a) if n == "ex" && a.len() == 1 => Ok(Res::Ex(a[0].clone())),
            _ => Err(Verdict::Discard("harness:shape".into())),
        },
        other => Err(Verdict::Discard(format!("harness:{}", other.short().chars().take(60).collect::<String>()))),
    }
}

fn opts_term(case: &Case, parse_side: bool) -> (T, bool) {
    let mut opts = vec![];
    let with_header = case.header.is_some();
    let default_ok = with_header && case.sep == ',' && (parse_side || (case.write_crlf.is_none() && case.null_value.is_none()));
    if !with_header || case.explicit_opts {
        opts.push(term::cmp("with_header", vec![term::atom(if with_header { "true" } else { "false" })]));
    }
    if case.sep != ',' || case.explicit_opts {
        opts.push(term::cmp("token_separator", vec![T::Atom(case.sep.to_string())]));
    }
    if !parse_side {
        if let Some(c) = case.write_crlf {
            opts.push(term::cmp("line_separator", vec![T::Atom(if c { "\r\n" } else { "\n" }.to_string())]));
        }
        if let Some(n) = &case.null_value {
            opts.push(term::cmp("null_value", vec![T::Atom(n.clone())]));
        }
    }
    (term::list(opts), default_ok && !case.explicit_opts)
}

/// compare a parsed frame with the records the reference parser found
fn frame_matches(frame: &T, recs: &[Vec<(String, bool)>], with_header: bool) -> Result<(), String> {
    let (h, rows) = match frame {
        T::Cmp(n, a) if n == "frame" && a.len() == 2 => (&a[0], &a[1]),
        o => return Err(format!("not a frame/2 term: {}", short(&o.text()))),
    };
    let (hrec, drecs): (Option<&Vec<(String, bool)>>, &[Vec<(String, bool)>]) = if with_header {
        match recs.split_first() {
            Some((h, r)) => (Some(h), r),
            None => return Err("no header record".into()),
        }
    } else {
        (None, recs)
    };
    let hitems = items_of(h).ok_or("header is not a list")?;
    match hrec {
        None => {
            if !hitems.is_empty() {
                return Err(format!("with_header(false) but Header = {}", short(&h.text())));
            }
        }
        Some(hr) => {
            if hitems.len() != hr.len() {
                return Err(format!("header has {} fields, expected {}", hitems.len(), hr.len()));
            }
            for ((c, q), t) in hr.iter().zip(&hitems) {
                field_ok(c, *q, t).map_err(|e| format!("header: {e}"))?;
            }
        }
    }
    let ritems = items_of(rows).ok_or("rows is not a list")?;
    if ritems.len() != drecs.len() {
        return Err(format!("{} data rows, expected {}", ritems.len(), drecs.len()));
    }
    for (ri, (rec, row)) in drecs.iter().zip(&ritems).enumerate() {
        let fs = items_of(row).ok_or(format!("row {ri} is not a list"))?;
        if fs.len() != rec.len() {
            return Err(format!("row {ri} has {} fields, expected {}", fs.len(), rec.len()));
        }
        for ((c, q), t) in rec.iter().zip(&fs) {
            field_ok(c, *q, t).map_err(|e| format!("row {ri}: {e}"))?;
        }
    }
    Ok(())
}

fn case_classes(case: &Case, text: &str) -> (Vec<String>, bool) {
    let mut cl = vec![];
    let all: Vec<&Field> = case.header.iter().flatten().chain(case.rows.iter().flatten()).collect();
    let q = |f: &&Field| matches!(f, Field::Text(s) if needs_quotes(s, case.sep));
    let nontrivial = all.iter().any(q);
    if nontrivial {
        cl.push("quoted-special".to_string());
    }
    if all.iter().any(|f| matches!(f, Field::Text(s) if s.contains('"'))) {
        cl.push("embedded-quote".into());
    }
    if all.iter().any(|f| matches!(f, Field::Text(s) if s.contains('\n') || s.contains('\r'))) {
        cl.push("embedded-newline".into());
    }
    if all.iter().any(|f| matches!(f, Field::Text(s) if s.contains(case.sep))) {
        cl.push("embedded-separator".into());
    }
    if all.iter().any(|f| matches!(f, Field::Text(s) if classify(s) == Kind::Ambiguous)) {
        cl.push("ambiguous-typing".into());
    }
    if all.iter().any(|f| matches!(f, Field::Empty)) {
        cl.push("empty-field".into());
    }
    if all.iter().any(|f| matches!(f, Field::Float(_))) {
        cl.push("float".into());
    }
    if all.iter().any(|f| matches!(f, Field::Int(i) if bit_len(i) > 55)) {
        cl.push("bigint".into());
    }
    cl.push(if case.header.is_some() { "with-header" } else { "no-header" }.into());
    cl.push(format!("sep-{}", match case.sep {
        ',' => "comma",
        ';' => "semicolon",
        '\t' => "tab",
        '|' => "bar",
        _ => "colon",
    }));
    cl.push(format!("rows-{}", case.rows.len().min(3)));
    if text.contains("\r\n") && !case.write {
        cl.push("crlf".into());
    }
    (cl, nontrivial)
}

pub fn check(env: &mut Env, case: &Case) -> Verdict {
    let cols = case.header.as_ref().map(|h| h.len()).or(case.rows.first().map(|r| r.len())).unwrap_or(1);
    if case.rows.iter().any(|r| r.len() != cols) || cols == 0 {
        return Verdict::Discard("ragged-table".into());
    }
    // a record that is one empty field: on the parse side it is rendered as `""` (RFC 4180: one
    // escaped empty field); on the write side it would be a blank line, which is ambiguous
    if case.write && lone_empty_record(case) {
        return Verdict::Discard("single-empty-field-record".into());
    }
    if !case.write {
        check_parse(env, case)
    } else {
        check_write(env, case)
    }
}

fn lone_empty_record(case: &Case) -> bool {
    let e = |f: &Field| *f == Field::Empty || *f == Field::Text(String::new());
    case.rows.iter().any(|r| r.len() == 1 && e(&r[0])) || matches!(&case.header, Some(h) if h.len() == 1 && e(&h[0]))
}

fn check_parse(env: &mut Env, case: &Case) -> Verdict {
    let text = render(case);
    let recs = match ref_parse(&text, case.sep) {
        Ok(r) => r,
        Err(e) => panic!("harness: the renderer produced text the reference parser rejects: {e}: {text:?}"),
    };
    // self-check: the reference parser recovers the generated table
    let want: Vec<Vec<String>> = case.header.iter().chain(case.rows.iter()).map(|l| l.iter().map(|f| f.content()).collect()).collect();
    let got: Vec<Vec<String>> = recs.iter().map(|r| r.iter().map(|(c, _)| c.clone()).collect()).collect();
    assert_eq!(want, got, "harness: reference parser disagrees with the renderer on {text:?}");
    if case.header.is_some() && recs.is_empty() {
        return Verdict::Discard("no-records".into());
    }
    let (opts, default) = opts_term(case, true);
    let enc = term::list(vec![T::Str(text.clone()), opts.clone()]).enc_text();
    let show = format!("phrase(parse_csv(F{}), {})", if default { String::new() } else { format!(", {}", opts.text()) }, short(&text));
    let r = match run(env, &format!("vp_dec({enc}, [Cs, Os]), c51_parse(Cs, Os, {default}, Rr)"), &show) {
        Ok(r) => r,
        Err(v) => return v,
    };
    let (mut cl, nontrivial) = case_classes(case, &text);
    cl.push("parse".into());
    if default {
        cl.push("parse_csv//1".into());
    }
    // open finding: a record consisting of the single escaped empty field `""` ends the parse
    let lone_sig = "lone-quoted-empty-record";
    match r {
        Res::Ok(Some(frame)) => {
            if let Err(why) = frame_matches(&frame, &recs, case.header.is_some()) {
                if lone_empty_record(case) && why.contains("data rows, expected") {
                    if tolerated(lone_sig) {
                        return Verdict::pass(true, &["parse", "known:lone-quoted-empty-record"]);
                    }
                    return Verdict::fail(lone_sig, format!("{show} gave {}: {why}", short(&frame.text())));
                }
                return Verdict::fail("wrong-parse", format!("{show} gave {}: {why}", short(&frame.text())));
            }
        }
        Res::Failed if lone_empty_record(case) => {
            if tolerated(lone_sig) {
                return Verdict::pass(true, &["parse", "known:lone-quoted-empty-record"]);
            }
            return Verdict::fail(lone_sig, format!("{show} failed on an RFC 4180 document (a record that is the single escaped empty field)"));
        }
        Res::Failed => return Verdict::fail("rejected-valid", format!("{show} failed on an RFC 4180 document")),
        Res::Ex(b) => return Verdict::fail("parse-error", format!("{show} raised {}", b.text())),
        Res::Ok(None) => return Verdict::Discard("harness:shape".into()),
    }
    let c: Vec<&str> = cl.iter().map(|s| s.as_str()).collect();
    Verdict::pass(nontrivial, &c)
}

/// what write/1 prints for a list of characters in list notation, for plain characters
fn as_char_list(s: &str) -> String {
    format!("[{}]", s.chars().map(|c| c.to_string()).collect::<Vec<_>>().join(","))
}

fn check_write(env: &mut Env, case: &Case) -> Verdict {
    env.n += 1;
    let path = env.dir.join(format!("{}-{}.csv", std::process::id(), env.n));
    let _ = std::fs::remove_file(&path);
    let frame = term::cmp("frame", vec![term::list(case.header.iter().flatten().map(|f| f.term()).collect()), term::list(case.rows.iter().map(|r| term::list(r.iter().map(|f| f.term()).collect())).collect())]);
    let (opts, default) = opts_term(case, false);
    let enc = term::list(vec![T::Atom(path.to_string_lossy().to_string()), frame.clone(), opts.clone()]).enc_text();
    let show = format!("write_csv(File, {}{})", short(&frame.text()), if default { String::new() } else { format!(", {}", opts.text()) });
    let r = match run(env, &format!("vp_dec({enc}, [Fi, Fr, Os]), c51_write(Fi, Fr, Os, {default}, Rr)"), &show) {
        Ok(r) => r,
        Err(v) => return v,
    };
    let written = std::fs::read(&path).ok();
    let _ = std::fs::remove_file(&path);
    let (mut cl, nontrivial) = case_classes(case, "");
    cl.push("write".into());
    if default {
        cl.push("write_csv/2".into());
    }
    let written_fields: Vec<&Field> = case.header.iter().flatten().chain(case.rows.iter().flatten()).collect();
    let has_string = written_fields.iter().any(|f| matches!(f, Field::Text(s) if !s.is_empty()));
    match r {
        Res::Ok(_) => {}
        Res::Failed => {
            if case.rows.is_empty() {
                let sig = "write-zero-rows:fails";
                if tolerated(sig) {
                    return Verdict::pass(true, &["write", "known:write-zero-rows"]);
                }
                return Verdict::fail(sig, format!("{show} fails for a frame without data rows"));
            }
            return Verdict::fail("write-failed", format!("{show} failed"));
        }
        Res::Ex(b) => return Verdict::fail("write-error", format!("{show} raised {}", b.text())),
    }
    let Some(bytes) = written else { return Verdict::fail("write-no-file", format!("{show} succeeded but there is no file")) };
    let Ok(text) = String::from_utf8(bytes) else { return Verdict::fail("write-not-utf8", format!("{show} wrote bytes that are not UTF-8")) };

    // the file must be RFC 4180 text whose fields are the frame's fields
    let null = case.null_value.clone();
    let verdict: Result<(), String> = (|| {
        let recs = ref_parse(&text, case.sep).map_err(|e| format!("the file is not RFC 4180 text: {e}"))?;
        let lines: Vec<&Vec<Field>> = case.header.iter().chain(case.rows.iter()).collect();
        if recs.len() != lines.len() {
            return Err(format!("{} records in the file, expected {}", recs.len(), lines.len()));
        }
        for (li, (rec, line)) in recs.iter().zip(&lines).enumerate() {
            if rec.len() != line.len() {
                return Err(format!("record {li} has {} fields, expected {}", rec.len(), line.len()));
            }
            for ((c, _q), f) in rec.iter().zip(line.iter()) {
                let ok = match f {
                    Field::Empty => *c == null.clone().unwrap_or_default(),
                    Field::Text(s) if s.is_empty() => *c == null.clone().unwrap_or_default(),
                    Field::Int(i) => c.parse::<IBig>().map(|g| g == *i).unwrap_or(false),
                    Field::Float(x) => c.parse::<f64>().map(|g| g.to_bits() == x.to_bits()).unwrap_or(false),
                    Field::Text(s) => c == s,
                };
                if !ok {
                    return Err(format!("record {li}: field {} was written as {}", short(&f.content()), short(c)));
                }
            }
        }
        if let Some(want_crlf) = case.write_crlf {
            if lines.len() > 1 && (text.contains("\r\n") != want_crlf) {
                return Err("line_separator option not honoured".into());
            }
        }
        Ok(())
    })();
    if let Err(why) = verdict {
        // open finding: strings are written with write/1, i.e. as [c,o,l,1]
        let list_notation = written_fields.iter().any(|f| matches!(f, Field::Text(s) if !s.is_empty() && text.contains(&as_char_list(&s.replace('"', "\"\"")))));
        if has_string && list_notation {
            let sig = "write-string-as-char-list";
            if tolerated(sig) {
                return Verdict::pass(true, &["write", "known:write-string-as-char-list"]);
            }
            return Verdict::fail(sig, format!("{show} wrote {}: {why}", short(&text)));
        }
        return Verdict::fail("wrong-written", format!("{show} wrote {}: {why}", short(&text)));
    }

    // and parse_csv reads it back to the same frame (only meaningful with the default null value)
    if case.null_value.is_none() {
        let (popts, pdefault) = opts_term(case, true);
        let enc = term::list(vec![T::Str(text.clone()), popts.clone()]).enc_text();
        let r = match run(env, &format!("vp_dec({enc}, [Cs, Os]), c51_parse(Cs, Os, {pdefault}, Rr)"), "parse back") {
            Ok(r) => r,
            Err(v) => return v,
        };
        match r {
            Res::Ok(Some(back)) => {
                // strings that look like numbers legitimately come back as numbers (documented typing)
                let want = frame.norm();
                if !back.eq_struct(&want) {
                    let recs = ref_parse(&text, case.sep).unwrap_or_default();
                    if let Err(why) = frame_matches(&back, &recs, case.header.is_some()) {
                        return Verdict::fail("write-parse-differs", format!("{show} wrote {} which parse_csv reads as {}: {why}", short(&text), short(&back.text())));
                    }
                    cl.push("round-trip-retyped".into());
                } else {
                    cl.push("round-trip-identical".into());
                }
            }
            Res::Failed => return Verdict::fail("write-parse-rejected", format!("{show} wrote {} which parse_csv rejects", short(&text))),
            Res::Ex(b) => return Verdict::fail("write-parse-error", format!("{show} wrote {} whose parse raised {}", short(&text), b.text())),
            Res::Ok(None) => return Verdict::Discard("harness:shape".into()),
        }
    }
    let c: Vec<&str> = cl.iter().map(|s| s.as_str()).collect();
    Verdict::pass(nontrivial || case.rows.len() >= 2, &c)
}

pub struct C51;

impl Prop for C51 {
    fn id(&self) -> &'static str {
        "C51"
    }
    fn rule(&self) -> &'static str {
        "tables of 0-6 rows x 1-5 columns with optional header; fields: empty, integers (incl. bignums), plain-decimal floats, texts over letters, digits, spaces, non-ASCII, separators , ; tab |, quotes, CR/LF, and number look-alikes (1e5, +1, ' 2', 0x10, 007 ...); options with_header(Bool), token_separator(, ; tab | :), write-side line_separator and null_value; parse side: the table rendered as RFC 4180 text (needed and gratuitous quoting, doubled quotes, CRLF/LF, final newline present/absent) -> parse_csv//1,2 compared with the harness's RFC 4180 parser + documented typing; write side: write_csv/2,3 to a scratch file, file compared field by field through the harness parser, then read back with parse_csv; non-trivial = a field that must be quoted (separator, quote or line break inside), or (write side) >= 2 rows; distinct by case encoding"
    }
    fn assumptions(&self) -> Vec<String> {
        vec![
            "typing asserted strictly only where unambiguous: empty -> [], canonical decimal integers / decimals with <= 15 significant digits (unquoted) -> that number, text without any digit -> string; any other text with a digit may come back as a string or a number; a quoted canonical number may come back as string or number (RFC 4180 and the docs are silent)".into(),
            "records consisting of one empty field (indistinguishable from a blank line) and ragged tables are not generated; documents are RFC 4180 with LF accepted next to CRLF and any single-character separator".into(),
            "write side: frames as the docs show them (strings, integers, floats, []); the file is read back by the harness from a scratch directory under the system temp dir".into(),
            "terms reach Prolog through vp_dec/2 (code lists)".into(),
        ]
    }
    fn run_shard(&self, cfg: &ShardCfg) -> ShardResult {
        let mut d = Driver::new(cfg, "C51");
        let n = cfg.share(cfg.tier.pick(8_000, 400_000));
        tolerate_on(true);
        d.run("table", 0, n, 1000, case_strategy(), &mk_env, &check);
        tolerate_on(false);
        drain_tolerated(&mut d.res.excluded_known);
        d.finish()
    }
    fn replay(&self, _kind: &str, case: &Value) -> Verdict {
        replay_case::<Case, Env>(case, &mk_env, &check)
    }
}
