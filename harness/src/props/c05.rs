//! C05 — Equal integers behave identically regardless of how they were produced.
//!
//! Metamorphic: a value v is produced along a recipe (arithmetic through a bignum, parsed text,
//! length/2, succ/2, rounding a float, a rational n/1, a copy out of the database, ...) and then
//! handed to ~75 consuming contexts; every context must behave exactly as it does for the
//! literal v, and where the outcome for the literal is fixed by the semantics of the builtin
//! (X == v is true, compare gives =, the clause with key v is selected, ...) both must show it.
use crate::engine::*;
use crate::gen::*;
use crate::num::*;
use crate::session::{Outcome, Session};
use crate::term::{self, T};
use dashu::integer::IBig;
use proptest::prelude::*;
use serde::{Deserialize, Serialize};
use serde_json::Value;

const HELPER_PL: &str = include_str!("../../prolog/c05.pl");

#[derive(Clone, Debug, Serialize, Deserialize)]
pub struct Case {
    #[serde(with = "term::ibig_serde")]
    pub v: IBig,
    pub recipe: String,
    /// run only this context (used for contexts excluded from the default list because of a
    /// known crash, so that the crash stays witnessed)
    #[serde(default)]
    pub only: Option<String>,
}

const ALWAYS: &[&str] = &[
    "number_codes", "number_chars", "cloth", "muldiv", "addsub", "shift", "negneg", "min_big", "mul3div", "xor_twice", "gcd_abs", "truncate_rational", "rational_n_over_1", "rational_halves", "between_single", "findall_copy", "asserted", "bb", "sum_list", "format_read",
];
const FLOAT_EXACT: &[&str] = &["truncate_float", "floor_float", "round_float", "ceiling_float"];
const SMALL: &[&str] = &["length", "string_length", "atom_length", "between_last", "nth0_index", "sub_atom_before"];
/// recipes that yield a rational object with denominator 1 (passes integer/1)
const RATIONAL_RECIPES: &[&str] = &["rational_n_over_1", "rational_halves"];

pub fn applicable(v: &IBig) -> Vec<&'static str> {
    let mut out: Vec<&'static str> = ALWAYS.to_vec();
    if let Some(f) = ibig_to_f64(v) {
        if f64_to_ibig_exact(f).map(|i| i == *v).unwrap_or(false) {
            out.extend_from_slice(FLOAT_EXACT);
        }
    }
    if *v >= IBig::ONE {
        out.push("succ_of_pred");
    }
    if *v >= IBig::ZERO {
        out.push("pred_of_succ");
    }
    if *v >= IBig::ZERO && *v <= IBig::from(300) {
        out.extend_from_slice(SMALL);
    }
    if *v >= IBig::ZERO && *v <= IBig::from(100) {
        out.push("arity");
    }
    if let Ok(c) = u32::try_from(v) {
        if c >= 1 && char::from_u32(c).is_some() {
            out.push("char_code");
        }
    }
    out
}

/// outcome every context must show for the literal (and hence for every recipe); contexts not
/// listed are only compared between recipe and literal
fn expected(ctx: &str) -> Option<T> {
    let a = |s: &str| T::Atom(s.to_string());
    let pair = |x: &str, y: &str| term::cmp("-", vec![a(x), a(y)]);
    Some(match ctx {
        "unify" | "unify_struct" | "identical" | "identical_struct" | "sort_dedup" | "sort_neighbours" | "keysort_stable" | "keysort_order" | "ord_set" | "memberchk" | "member_rev" | "setof" | "type_integer" | "type_number" | "type_atomic" | "ground" | "is_plus0" | "is_idiv1" | "is_mod7" | "is_and255" | "is_shr1" | "is_neg" | "is_mul_big"
        | "is_max" | "is_abs" | "is_sign" | "is_pow" | "between_self" | "between_window" | "number_codes" | "number_chars" | "format_d" | "format_w" | "atom_from_number" | "univ" | "functor_name" | "copy_term" | "findall" | "bb" | "assert_then_literal" | "assert_literal_then_x" | "assoc_put" => a("t"),
        "not_identical" | "not_unifiable" | "dif" | "type_float" => a("f"),
        "compare" => a("="),
        "compare_struct" => pair("<", "<"),
        "order_lt" => pair("f", "f"),
        "order_gt" => pair("t", "f"),
        "order_le" => pair("t", "t"),
        "type_var" => pair("f", "f"),
        "eq_arith" => pair("t", "f"),
        "lt_succ" => pair("t", "t"),
        "retract_by_literal" | "retract_by_x" => pair("t", "f"),
        "clause_select" | "clause_select_rev" | "clause_select_big" | "clause_select_rev_big" => term::list(vec![a("hit")]),
        "assoc_get" => a("here"),
        _ => return None,
    })
}

fn same_term(a: &T, b: &T) -> bool {
    match (a, b) {
        (T::Float(x), T::Float(y)) => x.to_bits() == y.to_bits(),
        (T::Cmp(n, xs), T::Cmp(m, ys)) => n == m && xs.len() == ys.len() && xs.iter().zip(ys.iter()).all(|(x, y)| same_term(x, y)),
        (T::PList(xs, xt), T::PList(ys, yt)) => xs.len() == ys.len() && xs.iter().zip(ys.iter()).all(|(x, y)| same_term(x, y)) && same_term(xt, yt),
        _ => a.eq_struct(b),
    }
}

fn value_strategy() -> BoxedStrategy<IBig> {
    let edge = (any::<u16>(), -3i64..=3, any::<bool>()).prop_map(|(k, d, neg)| {
        let ks = [31u32, 32, 53, 54, 55, 55, 55, 56, 62, 63, 64, 70, 72, 80, 128];
        let v = ipow2(pick(&ks, k)) + IBig::from(d);
        if neg {
            -v
        } else {
            v
        }
    });
    let codepoints = any::<u16>().prop_map(|k| IBig::from(pick(&[1i64, 9, 10, 32, 39, 65, 97, 127, 128, 255, 256, 0x3b1, 0x7ff, 0x800, 0xd7ff, 0xd800, 0xdfff, 0xe000, 0xfffd, 0xffff, 0x10000, 0x1f600, 0x10ffff, 0x110000], k)));
    prop_oneof![
        4 => (0i64..=64).prop_map(IBig::from),
        1 => (-6i64..=-1).prop_map(IBig::from),
        1 => (65i64..=300).prop_map(IBig::from),
        1 => codepoints,
        5 => edge,
        3 => any::<i64>().prop_map(|v| IBig::from(v >> 8)),
        2 => int_strategy(),
    ]
    .boxed()
}

pub fn case_strategy() -> BoxedStrategy<Case> {
    (value_strategy(), any::<u16>())
        .prop_map(|(v, k)| {
            let rs = applicable(&v);
            let mut recipe = pick(&rs, k).to_string();
            // the rational recipes always meet the same known finding: three in four are re-drawn
            if RATIONAL_RECIPES.contains(&recipe.as_str()) && k % 4 != 0 {
                let others: Vec<&str> = rs.iter().cloned().filter(|r| !RATIONAL_RECIPES.contains(r)).collect();
                recipe = pick(&others, k.wrapping_mul(40503)).to_string();
            }
            // contexts excluded by construction because of a known defect stay in view through a
            // few single-context cases
            let big = v >= ipow2(55) || v < -ipow2(55);
            let only = if big && k % 25 == 3 {
                Some(if k % 2 == 0 { "clause_select_big" } else { "clause_select_rev_big" }.to_string())
            } else {
                None
            };
            Case { v, recipe, only }
        })
        .boxed()
}

pub struct Env {
    pub s: Session,
}

pub fn mk_env() -> Env {
    let mut s = Session::new(&["lists", "between", "assoc", "format", "iso_ext", "dif", "ordsets", "dcgs"]);
    s.machine.consult_module_string("user", HELPER_PL);
    let o = s.ask("c05_loaded", "[]");
    assert!(matches!(o, Outcome::Sols(ref v) if v.len() == 1), "c05.pl failed to load: {}", o.short());
    Env { s }
}

struct Made {
    x: T,
    ctxs: Vec<(String, T)>,
}

fn decode_case(o: &Outcome) -> Result<Result<Made, String>, Verdict> {
    match o {
        Outcome::Panic(m) => Err(Verdict::fail(format!("panic:{}", m.split_whitespace().next().unwrap_or("?")), m.clone())),
        Outcome::Harness(m) => Err(Verdict::Discard(format!("harness:{}", m.chars().take(50).collect::<String>()))),
        Outcome::Limit => Err(Verdict::Discard("limit".into())),
        Outcome::Ex(b) => Err(Verdict::fail("helper-raised", format!("c05_case raised {}", b.text()))),
        Outcome::Sols(v) => {
            if v.len() != 1 {
                return Err(Verdict::Discard("harness:c05_case-not-det".into()));
            }
            match &v[0] {
                T::Cmp(n, a) if n == "nomake" && a.len() == 1 => Ok(Err(a[0].text())),
                T::Cmp(n, a) if n == "made" && a.len() == 2 => {
                    let items: Vec<T> = match &a[1] {
                        T::PList(items, tail) if tail.is_nil() => items.clone(),
                        t if t.is_nil() => vec![],
                        other => return Err(Verdict::Discard(format!("harness:ctx-list {}", other.text().chars().take(40).collect::<String>()))),
                    };
                    let mut ctxs = vec![];
                    for it in items {
                        match it {
                            T::Cmp(d, kv) if d == "-" && kv.len() == 2 => match &kv[0] {
                                T::Atom(name) => ctxs.push((name.clone(), kv[1].clone())),
                                _ => return Err(Verdict::Discard("harness:ctx-name".into())),
                            },
                            _ => return Err(Verdict::Discard("harness:ctx-item".into())),
                        }
                    }
                    Ok(Ok(Made { x: a[0].clone(), ctxs }))
                }
                other => Err(Verdict::Discard(format!("harness:reply {}", other.text().chars().take(40).collect::<String>()))),
            }
        }
    }
}

fn size_class(v: &IBig) -> &'static str {
    let b = bit_len(v);
    if b <= 31 {
        "value:<2^31"
    } else if b <= 54 {
        "value:<2^54"
    } else if b <= 56 {
        "value:at-2^55"
    } else if b <= 64 {
        "value:<=2^64"
    } else {
        "value:bignum"
    }
}

pub fn check(env: &mut Env, c: &Case) -> Verdict {
    if !applicable(&c.v).contains(&c.recipe.as_str()) {
        return Verdict::Discard("recipe-not-applicable".into());
    }
    let vt = T::Int(c.v.clone()).text();
    let sel = match &c.only {
        None => "all".to_string(),
        Some(name) => {
            if !name.chars().all(|ch| ch.is_ascii_lowercase() || ch.is_ascii_digit() || ch == '_') || name.is_empty() {
                return Verdict::Discard("bad-context-name".into());
            }
            format!("[{name}]")
        }
    };
    let base = match decode_case(&env.s.ask(&format!("c05_case(literal, {vt}, {sel}, R)"), "R")) {
        Err(v) => return v,
        Ok(Err(why)) => return Verdict::fail("literal-not-made", format!("c05_make(literal, {vt}, X) did not succeed: {why}")),
        Ok(Ok(m)) => m,
    };
    let made = match decode_case(&env.s.ask(&format!("c05_case({}, {vt}, {sel}, R)", c.recipe), "R")) {
        Err(v) => return v,
        Ok(Err(why)) => return Verdict::fail(format!("recipe-failed:{}", c.recipe), format!("producing {vt} by recipe {} did not succeed: {why}", c.recipe)),
        Ok(Ok(m)) => m,
    };
    let rational = RATIONAL_RECIPES.contains(&c.recipe.as_str());
    let class = if rational { "integral-rational".to_string() } else { format!("recipe-{}", c.recipe) };

    // the literal itself must show the outcomes fixed by the builtins' semantics
    for (name, out) in &base.ctxs {
        if let Some(exp) = expected(name) {
            if !same_term(out, &exp) && !matches!(out, T::Atom(a) if a == "skipped") {
                return Verdict::fail(format!("literal-wrong:{name}"), format!("context {name} with X = V = {vt} (both the literal) gave {} ; expected {}", out.text(), exp.text()));
            }
        }
    }
    if base.ctxs.len() != made.ctxs.len() {
        return Verdict::Discard("harness:ctx-count".into());
    }
    // the produced number must be the integer v
    let is_int = matches!(&made.x, T::Int(i) if *i == c.v);
    // every context: same outcome as for the literal
    let mut diffs: Vec<String> = vec![];
    let mut first: Option<(String, String)> = None;
    for ((name, out), (bname, bout)) in made.ctxs.iter().zip(base.ctxs.iter()) {
        if name != bname {
            return Verdict::Discard("harness:ctx-order".into());
        }
        if !same_term(out, bout) {
            diffs.push(name.clone());
            if first.is_none() {
                first = Some((name.clone(), format!("{name}: with the produced number -> {} ; with the literal -> {}", out.text(), bout.text())));
            }
        }
    }
    if !diffs.is_empty() {
        let detail_of = |name: &str| -> String {
            made.ctxs.iter().zip(base.ctxs.iter()).find(|((n, _), _)| n == name).map(|((n, o), (_, bo))| format!("{n}: with the produced number -> {} ; with the literal -> {}", o.text(), bo.text())).unwrap_or_default()
        };
        let head = format!("v = {vt} produced by {} (X = {})", c.recipe, made.x.text());
        let all = diffs.join(",");
        if rational {
            // contexts that insist on an integer object: the known consequence of v rdiv 1 not
            // being turned into an integer although it passes integer/1
            const TYPE_SENSITIVE: &[&str] = &["is_idiv1", "is_mod7", "is_and255", "is_shr1", "is_pow", "is_max", "succ_up", "succ_down", "clause_select", "clause_select_rev", "clause_select_big", "clause_select_rev_big", "char_code_big", "arg_index", "functor_arity", "length_list", "length_check", "nth0", "nth1", "atom_length_check", "sub_atom_at", "char_code", "tab_format", /* float(X) goes through the misrounding rational->double conversion (C02 finding) */ "is_float"];
            return match diffs.iter().find(|d| !TYPE_SENSITIVE.contains(&d.as_str())) {
                None => Verdict::fail("integral-rational:not-an-integer-object", format!("{head}: {} ; all differing contexts: {all}", detail_of(&diffs[0]))),
                Some(d) => Verdict::fail(format!("integral-rational:{d}"), format!("{head}: {} ; all differing contexts: {all}", detail_of(d))),
            };
        }
        let d = &diffs[0];
        let big_ctx = c.only.as_deref().map(|o| o == "clause_select_big" || o == "clause_select_rev_big").unwrap_or(false);
        return if big_ctx {
            Verdict::fail("bignum-key:clause-selection", format!("{head}: {} ; all differing contexts: {all}", detail_of(d)))
        } else {
            Verdict::fail(format!("produced-differs:{d}:{}", c.recipe), format!("{head}: {} ; all differing contexts: {all}", detail_of(d)))
        };
    }
    let _ = &first;
    if !is_int {
        return Verdict::fail(format!("{class}:not-an-integer-object"), format!("v = {vt} produced by {} came back as {} although no context told it from the literal", c.recipe, made.x.text()));
    }
    let skipped = made.ctxs.iter().filter(|(_, o)| matches!(o, T::Atom(a) if a == "skipped")).count();
    let rc = format!("recipe:{}", c.recipe);
    let mut classes: Vec<&str> = vec![&rc, size_class(&c.v)];
    if skipped == 0 {
        classes.push("all-contexts-run");
    }
    if c.v < IBig::ZERO {
        classes.push("negative");
    }
    Verdict::pass(c.recipe != "min_big", &classes)
}

pub struct C05;

impl Prop for C05 {
    fn id(&self) -> &'static str {
        "C05"
    }
    fn rule(&self) -> &'static str {
        "integer values v (0..64 heavily; negatives; 2^k+-d for k in 31,32,53..56,62..64,70,72,80,128; code points; random up to 4096 bits) x production recipes {number_codes, number_chars, 2^70-2^70+v, v*2^64//2^64, (v+2^80)-2^80, (v<<70)>>70, -(-v), min/max against 2^90, (v*3^50) div 3^50, xor with 2^72 twice, gcd(v,0), truncate/floor/round/ceiling of float(v), truncate(v rdiv 1), v rdiv 1, (v rdiv 2)*2, length/2, length of a string, atom_length/2, succ/2 both ways, between/3, char_code/2, functor/3 arity, nth0/3 index, sub_atom/5 position, findall/3 copy, assertz+call, bb_put/bb_get, sum_list/2, format ~d + number_chars} x 75 consuming contexts (=, ==, \\==, \\=, compare/3, @</@>/@=<, sort/2, sort/4, keysort/2, ordsets, memberchk, dif/2, setof/3, type tests, =:=, + // mod /\\ >> - * float max abs sign ^, succ/2, between/3, number_codes/chars, format ~d ~w ~q, =.., functor/3, copy_term/2, findall/3, bb_put/bb_get, assertz then call by literal and the reverse, retract both ways, first-argument clause selection both ways, assoc get/put, arg/3 index, functor/3 arity, length/2, nth0/nth1, atom_length/2, sub_atom/5, char_code/2, between/3 bound, format column). Each context must give the same outcome as for the literal v, and the outcome the builtin's semantics fixes where there is one. non-trivial = every recipe except the one returning the literal itself; distinct by (v, recipe)"
    }
    fn assumptions(&self) -> Vec<String> {
        vec!["the reader parses decimal integer literals correctly (C16)".into(), "catch/3, findall/3 and if-then-else used by the reification helper behave (their own properties)".into()]
    }
    fn run_shard(&self, cfg: &ShardCfg) -> ShardResult {
        let mut d = Driver::new(cfg, "C05");
        let n = cfg.share(cfg.tier.pick(24_000, 1_000_000));
        d.run("case", 0, n, 1000, case_strategy(), &mk_env, &check);
        d.finish()
    }
    fn replay(&self, _kind: &str, case: &Value) -> Verdict {
        replay_case::<Case, Env>(case, &mk_env, &check)
    }
}
