//! C01 — Integer arithmetic is exact at every magnitude.
use crate::engine::*;
use crate::gen::*;
use crate::num::*;
use crate::session::{Outcome, Session};
use crate::term::{self, T};
use dashu::integer::IBig;
use proptest::prelude::*;
use serde::{Deserialize, Serialize};
use serde_json::Value;

#[derive(Clone, Debug, Serialize, Deserialize)]
pub enum E {
    /// literal
    Lit(#[serde(with = "term::ibig_serde")] IBig),
    /// the value held as the result of bignum arithmetic: 2^70 - 2^70 + v
    Cloth(#[serde(with = "term::ibig_serde")] IBig),
    Un(String, Box<E>),
    Bin(String, Box<E>, Box<E>),
}

pub const UN_OPS: &[&str] = &["-", "+", "abs", "sign", "\\"];
pub const BIN_OPS: &[&str] = &["+", "-", "*", "//", "div", "mod", "rem", "gcd", "min", "max", "^", "<<", ">>", "/\\", "\\/", "xor"];

impl E {
    pub fn text(&self) -> String {
        match self {
            E::Lit(v) => T::Int(v.clone()).text(),
            E::Cloth(v) => format!("'+'('-'(1180591620717411303424,1180591620717411303424),{})", T::Int(v.clone()).text()),
            E::Un(op, a) => format!("{}({})", term::quote_atom(op), a.text()),
            E::Bin(op, a, b) => format!("{}({},{})", term::quote_atom(op), a.text(), b.text()),
        }
    }
    pub fn ops(&self) -> usize {
        match self {
            E::Lit(_) | E::Cloth(_) => 0,
            E::Un(_, a) => 1 + a.ops(),
            E::Bin(_, a, b) => 1 + a.ops() + b.ops(),
        }
    }
}

#[derive(Clone, Debug, PartialEq)]
pub enum Err1 {
    ZeroDiv,
    Undefined,
    TypeFloat(IBig),
    /// the model refuses (result too large to be a sensible case)
    TooBig,
}

impl Err1 {
    pub fn formal(&self) -> T {
        match self {
            Err1::ZeroDiv => term::cmp("evaluation_error", vec![term::atom("zero_divisor")]),
            Err1::Undefined => term::cmp("evaluation_error", vec![term::atom("undefined")]),
            Err1::TypeFloat(v) => term::cmp("type_error", vec![term::atom("float"), T::Int(v.clone())]),
            Err1::TooBig => term::atom("$too_big"),
        }
    }
}

pub struct Flags {
    pub crossed: bool,
}

fn fix_min() -> IBig {
    -ipow2(55)
}
fn fix_max() -> IBig {
    ipow2(55) - IBig::ONE
}
fn is_fix(v: &IBig) -> bool {
    *v >= fix_min() && *v <= fix_max()
}

fn bitop(op: &str, a: &IBig, b: &IBig) -> IBig {
    let r = match op {
        "/\\" => a & b,
        "\\/" => a | b,
        _ => a ^ b,
    };
    // cross-check natively when everything fits
    if let (Ok(x), Ok(y)) = (i128::try_from(a), i128::try_from(b)) {
        let n = match op {
            "/\\" => x & y,
            "\\/" => x | y,
            _ => x ^ y,
        };
        assert_eq!(IBig::from(n), r, "oracle self-check bitop");
    }
    r
}

/// Exact evaluation. Returns the set of acceptable outcomes: Ok(value) or the errors that
/// some evaluation order can raise first.
pub fn eval(e: &E, fl: &mut Flags) -> Result<IBig, Vec<Err1>> {
    match e {
        E::Lit(v) => Ok(v.clone()),
        E::Cloth(v) => {
            fl.crossed = true;
            Ok(v.clone())
        }
        E::Un(op, a) => {
            let x = eval(a, fl)?;
            let r = match op.as_str() {
                "-" => -x.clone(),
                "+" => x.clone(),
                "abs" => iabs(&x),
                "sign" => isign(&x),
                "\\" => -x.clone() - IBig::ONE,
                _ => unreachable!(),
            };
            if is_fix(&x) != is_fix(&r) {
                fl.crossed = true;
            }
            Ok(r)
        }
        E::Bin(op, a, b) => {
            let (ra, rb) = (eval(a, fl), eval(b, fl));
            let (x, y) = match (ra, rb) {
                (Ok(x), Ok(y)) => (x, y),
                (Err(mut e1), Err(e2)) => {
                    e1.extend(e2);
                    return Err(e1);
                }
                (Err(e1), _) | (_, Err(e1)) => return Err(e1),
            };
            let r: IBig = match op.as_str() {
                "+" => &x + &y,
                "-" => &x - &y,
                "*" => {
                    if bit_len(&x) + bit_len(&y) > 40_000 {
                        return Err(vec![Err1::TooBig]);
                    }
                    &x * &y
                }
                "//" | "rem" | "div" | "mod" => {
                    if y == IBig::ZERO {
                        return Err(vec![Err1::ZeroDiv]);
                    }
                    let qt = &x / &y; // dashu truncates toward zero
                    let rt = &x - &qt * &y;
                    // defining identities (independent of how dashu rounds)
                    assert!(iabs(&rt) < iabs(&y), "oracle self-check |r|<|y|");
                    assert!(rt == IBig::ZERO || is_neg(&rt) == is_neg(&x), "oracle self-check sign(rem)=sign(x)");
                    match op.as_str() {
                        "//" => qt,
                        "rem" => rt,
                        "div" => {
                            let q = div_floor(&x, &y);
                            let m = &x - &q * &y;
                            assert!(m == IBig::ZERO || is_neg(&m) == is_neg(&y));
                            q
                        }
                        _ => {
                            let m = mod_floor(&x, &y);
                            assert!(iabs(&m) < iabs(&y) && (m == IBig::ZERO || is_neg(&m) == is_neg(&y)));
                            m
                        }
                    }
                }
                "gcd" => {
                    let g = igcd(&x, &y);
                    if g != IBig::ZERO {
                        assert!(&x % &g == IBig::ZERO && &y % &g == IBig::ZERO);
                    }
                    g
                }
                "min" => {
                    if x <= y {
                        x.clone()
                    } else {
                        y.clone()
                    }
                }
                "max" => {
                    if x >= y {
                        x.clone()
                    } else {
                        y.clone()
                    }
                }
                "^" => {
                    if x == IBig::ZERO && is_neg(&y) {
                        return Err(vec![Err1::Undefined]);
                    }
                    if x == IBig::ONE {
                        IBig::ONE
                    } else if x == IBig::NEG_ONE {
                        if &y % IBig::from(2) == IBig::ZERO {
                            IBig::ONE
                        } else {
                            IBig::NEG_ONE
                        }
                    } else if is_neg(&y) {
                        return Err(vec![Err1::TypeFloat(x.clone())]);
                    } else if x == IBig::ZERO {
                        if y == IBig::ZERO {
                            IBig::ONE
                        } else {
                            IBig::ZERO
                        }
                    } else {
                        let Ok(n) = u32::try_from(&y) else { return Err(vec![Err1::TooBig]) };
                        if (bit_len(&x) as u64) * (n as u64) > 20_000 {
                            return Err(vec![Err1::TooBig]);
                        }
                        let mut r = IBig::ONE;
                        for _ in 0..n {
                            r *= &x;
                        }
                        r
                    }
                }
                "<<" | ">>" => {
                    // a negative count shifts the other way
                    let left = (op == "<<") != is_neg(&y);
                    let cnt = iabs(&y);
                    if left {
                        if x == IBig::ZERO {
                            IBig::ZERO
                        } else {
                            let Ok(n) = u32::try_from(&cnt) else { return Err(vec![Err1::TooBig]) };
                            if n as usize + bit_len(&x) > 66_000 {
                                return Err(vec![Err1::TooBig]);
                            }
                            &x * ipow2(n)
                        }
                    } else {
                        match u32::try_from(&cnt) {
                            Ok(n) if (n as usize) < bit_len(&x) + 2 => div_floor(&x, &ipow2(n)),
                            _ => {
                                // shifted out completely: floor(x / 2^n) = 0 or -1
                                if is_neg(&x) {
                                    IBig::NEG_ONE
                                } else {
                                    IBig::ZERO
                                }
                            }
                        }
                    }
                }
                "/\\" | "\\/" | "xor" => bitop(op, &x, &y),
                _ => unreachable!(),
            };
            let in_fix = is_fix(&x) && is_fix(&y);
            if in_fix != is_fix(&r) || (!is_fix(&x) && is_fix(&r)) || (!is_fix(&y) && is_fix(&r)) || bit_len(&r) >= 63 && bit_len(&x) < 63 && bit_len(&y) < 63 {
                fl.crossed = true;
            }
            Ok(r)
        }
    }
}

fn leaf() -> BoxedStrategy<E> {
    prop_oneof![
        6 => int_strategy().prop_map(E::Lit),
        2 => int_strategy().prop_map(E::Cloth),
    ]
    .boxed()
}

fn shift_count() -> BoxedStrategy<E> {
    (any::<u16>(), any::<bool>(), any::<bool>())
        .prop_map(|(k, neg, cloth)| {
            let ks: [i64; 16] = [0, 1, 2, 7, 8, 53, 54, 55, 56, 57, 62, 63, 64, 65, 127, 128];
            let v = IBig::from(pick(&ks, k));
            let v = if neg { -v } else { v };
            if cloth {
                E::Cloth(v)
            } else {
                E::Lit(v)
            }
        })
        .boxed()
}

fn huge_count() -> BoxedStrategy<E> {
    prop_oneof![Just(E::Lit(ipow2(32))), Just(E::Lit(ipow2(64) + IBig::ONE)), Just(E::Lit(-ipow2(32))), Just(E::Lit(ipow2(63))), Just(E::Lit(ipow2(31))),].boxed()
}

fn small_exp() -> BoxedStrategy<E> {
    prop_oneof![
        6 => (-3i64..=40).prop_map(|v| E::Lit(IBig::from(v))),
        1 => (0i64..=300).prop_map(|v| E::Lit(IBig::from(v))),
        1 => int_strategy().prop_map(E::Lit),
    ]
    .boxed()
}

pub fn expr_strategy() -> BoxedStrategy<E> {
    let single = prop_oneof![
        2 => (any::<u16>(), leaf()).prop_map(|(k, a)| E::Un(pick(UN_OPS, k).to_string(), Box::new(a))),
        8 => (any::<u16>(), leaf(), leaf()).prop_map(|(k, a, b)| E::Bin(pick(BIN_OPS, k).to_string(), Box::new(a), Box::new(b))),
        3 => (any::<bool>(), leaf(), shift_count()).prop_map(|(l, a, b)| E::Bin(if l { "<<" } else { ">>" }.to_string(), Box::new(a), Box::new(b))),
        1 => (leaf(), huge_count()).prop_map(|(a, b)| E::Bin(">>".to_string(), Box::new(a), Box::new(b))),
        1 => (any::<bool>(), huge_count()).prop_map(|(l, b)| E::Bin(if l { "<<" } else { ">>" }.to_string(), Box::new(E::Lit(IBig::ZERO)), Box::new(b))),
        3 => (leaf(), small_exp()).prop_map(|(a, b)| E::Bin("^".to_string(), Box::new(a), Box::new(b))),
        1 => ((-1i64..=1), int_strategy()).prop_map(|(a, b)| E::Bin("^".to_string(), Box::new(E::Lit(IBig::from(a))), Box::new(E::Lit(b)))),
    ];
    let deep = leaf().prop_recursive(4, 16, 2, |inner| {
        prop_oneof![
            1 => (any::<u16>(), inner.clone()).prop_map(|(k, a)| E::Un(pick(UN_OPS, k).to_string(), Box::new(a))),
            5 => (any::<u16>(), inner.clone(), inner.clone()).prop_map(|(k, a, b)| {
                // keep ^ and shifts out of deep trees except with tame right operands (sizes explode)
                let ops: Vec<&str> = BIN_OPS.iter().cloned().filter(|o| !matches!(*o, "^" | "<<" | ">>")).collect();
                E::Bin(pick(&ops, k).to_string(), Box::new(a), Box::new(b))
            }),
            1 => (any::<bool>(), inner.clone(), shift_count()).prop_map(|(l, a, b)| E::Bin(if l { "<<" } else { ">>" }.to_string(), Box::new(a), Box::new(b))),
            1 => (inner.clone(), (0i64..=5)).prop_map(|(a, b)| E::Bin("^".to_string(), Box::new(a), Box::new(E::Lit(IBig::from(b))))),
        ]
    });
    prop_oneof![single, deep].boxed()
}

pub struct Env {
    pub s: Session,
}

pub fn mk_env() -> Env {
    Env { s: Session::new(&[]) }
}

fn judge(path: &str, e: &E, expected: &Result<IBig, Vec<Err1>>, got: &Outcome) -> Option<Verdict> {
    let root = match e {
        E::Un(op, _) | E::Bin(op, _, _) => op.clone(),
        _ => "leaf".to_string(),
    };
    match (expected, got) {
        (_, Outcome::Panic(m)) => Some(Verdict::fail(format!("panic:{}", m.split_whitespace().next().unwrap_or("?")), format!("{path}: X is {} panicked: {m}", e.text()))),
        (_, Outcome::Harness(m)) => Some(Verdict::Discard(format!("harness:{}", m.chars().take(40).collect::<String>()))),
        (Ok(v), Outcome::Sols(sols)) => {
            if sols.len() == 1 && sols[0].eq_struct(&T::Int(v.clone())) {
                None
            } else {
                Some(Verdict::fail(format!("wrong-value:{root}"), format!("{path}: X is {} gave {} expected {}", e.text(), got.short(), v)))
            }
        }
        (Ok(v), other) => Some(Verdict::fail(format!("unexpected-error:{root}"), format!("{path}: X is {} gave {} expected {}", e.text(), other.short(), v))),
        (Err(errs), o) => {
            let formal = o.formal();
            let ok = match &formal {
                Some(f) => errs.iter().any(|e1| e1.formal().eq_struct(f)),
                None => false,
            };
            if ok {
                None
            } else {
                Some(Verdict::fail(
                    format!("wrong-error:{root}"),
                    format!("{path}: X is {} gave {} expected one of {:?}", e.text(), o.short(), errs.iter().map(|x| x.formal().text()).collect::<Vec<_>>()),
                ))
            }
        }
    }
}

pub fn check(env: &mut Env, e: &E) -> Verdict {
    let mut fl = Flags { crossed: false };
    let expected = eval(e, &mut fl);
    if let Err(errs) = &expected {
        if errs.contains(&Err1::TooBig) {
            return Verdict::Discard("too-big".into());
        }
    }
    let txt = e.text();
    // path 1: expression built at run time and handed to is/2
    let o1 = env.s.ask(&format!("E = {txt}, X is E"), "X");
    if let Some(v) = judge("runtime", e, &expected, &o1) {
        return v;
    }
    // path 2: literal in a compiled clause body (assertz compiles the arithmetic)
    let o2 = env.s.ask(&format!("retractall(c01t(_)), assertz((c01t(X) :- X is {txt})), c01t(Y)"), "Y");
    if let Some(v) = judge("compiled", e, &expected, &o2) {
        return v;
    }
    let mut classes: Vec<&str> = vec![];
    if expected.is_err() {
        classes.push("error-expected");
    }
    if fl.crossed {
        classes.push("crosses-boundary");
    }
    if e.ops() > 1 {
        classes.push("nested");
    }
    if let Ok(v) = &expected {
        if !is_fix(v) {
            classes.push("bignum-result");
        }
    }
    Verdict::pass(fl.crossed || expected.is_err(), &classes)
}

pub struct C01;

impl Prop for C01 {
    fn id(&self) -> &'static str {
        "C01"
    }
    fn rule(&self) -> &'static str {
        "integer expression trees (depth<=4; half single-operator) over + - * // div mod rem gcd min max abs sign ^ << >> /\\ \\/ xor \\ unary-/+ with boundary-biased leaves (0,+-1,+-2^k+-d for k at 31/32/55/56/63/64/128, 64..4096-bit randoms, small values held as bignums), each evaluated by is/2 both from a run-time built term and from a literal in an assertz-compiled clause and compared with an exact model; non-trivial = an operand/result crosses the small-integer (2^55) or 2^63 boundary in either direction, a value is held in bignum clothing, or an error is expected; distinct by case encoding"
    }
    fn assumptions(&self) -> Vec<String> {
        vec!["dashu limb arithmetic (cross-checked by defining identities and native i128 where values fit)".into(), "the reader parses decimal integer literals and functional notation correctly (C16/C17 check that separately)".into()]
    }
    fn run_shard(&self, cfg: &ShardCfg) -> ShardResult {
        let mut d = Driver::new(cfg, "C01");
        let n = cfg.share(cfg.tier.pick(60_000, 3_000_000));
        d.run("expr", 0, n, 2000, expr_strategy(), &mk_env, &check);
        d.finish()
    }
    fn replay(&self, _kind: &str, case: &Value) -> Verdict {
        replay_case::<E, Env>(case, &mk_env, &check)
    }
}
