//! C22 — Atom and character builtins agree with their string semantics.
//!
//! One call of atom_length/2, atom_chars/2, atom_codes/2, char_code/2, atom_concat/3, sub_atom/5 or
//! char_type/2 (library(charsio)) in one instantiation pattern, with well-typed arguments (all
//! solutions compared, as a sequence, with Rust String/char operations on Unicode scalar values) or
//! with exactly one unbound/ill-typed argument (the ISO 8.16 Formal is compared; with a single
//! fault there is no freedom in which error is raised).
use crate::engine::*;
use crate::gen::pick;
use crate::session::{Outcome, Session};
use crate::term::{atom, cmp, int, list, nil, T};
use proptest::prelude::*;
use serde::{Deserialize, Serialize};
use serde_json::Value;

#[derive(Clone, Debug, Serialize, Deserialize)]
pub struct BCase {
    pub call: String,
    pub mode: u16,
    /// main atom text
    pub a: String,
    /// second text
    pub b: String,
    pub k: u16,
    pub k2: u16,
    /// selects the ill-typed term / perturbation
    pub bad: u16,
}

pub const CALLS: &[&str] = &["atom_length", "atom_chars", "atom_codes", "char_code", "atom_concat", "atom_concat", "sub_atom", "sub_atom", "sub_atom", "char_type"];

// ---------------------------------------------------------------------------------------------
// generators

fn text_char() -> BoxedStrategy<char> {
    prop_oneof![
        8 => (b'a'..=b'e').prop_map(|b| b as char),
        2 => any::<u16>().prop_map(|k| pick(&['A', 'Z', '0', '9', ' ', '_', '\'', '"', '\\', '\n', '.', '-', '+', '[', ',', '|'], k)),
        3 => any::<u16>().prop_map(|k| pick(&['é', 'ß', 'λ', 'я', '\u{80}', '\u{7ff}', '日', '語', '\u{800}', '\u{ffff}', '😀', '\u{10000}', '\u{10ffff}', '\u{301}', '\u{a0}'], k)),
        1 => Just('\0'),
    ]
    .boxed()
}

fn text() -> BoxedStrategy<String> {
    prop_oneof![
        6 => proptest::collection::vec(text_char(), 0..=12).prop_map(|v| v.into_iter().collect::<String>()),
        2 => crate::gen::atom_text_strategy().prop_map(|s| s.chars().take(12).collect::<String>()),
        1 => proptest::collection::vec((b'a'..=b'b').prop_map(|b| b as char), 0..=8).prop_map(|v| v.into_iter().collect::<String>()),
    ]
    .boxed()
}

/// characters for char_code/char_type
pub const CHAR_POOL: &[char] = &[
    'a', 'z', 'A', 'Z', 'm', '0', '9', ' ', '\t', '\n', '\r', '!', '_', '~', '\0', '\u{1}', '\u{7f}', '\u{80}', '\u{85}', '\u{a0}', '\u{ff}', '\u{100}', 'é', 'É', 'ß', 'ǅ', 'İ', 'ı', 'ŉ', 'ﬁ', 'λ', 'Σ', 'ς', 'я', 'Я', '٣', '²', '½', 'Ⅷ', 'ⅷ', 'ª', 'ǰ', '\u{2028}', '\u{3000}', '日', '😀', '\u{301}', '\u{d7ff}',
    '\u{e000}', '\u{ffff}', '\u{10000}', '\u{10ffff}', '\u{1f1}', 'ᾳ', 'ᾼ',
];

pub fn bcase_strategy() -> BoxedStrategy<BCase> {
    (any::<u16>(), any::<u16>(), text(), text(), any::<u16>(), any::<u16>(), any::<u16>(), any::<u16>())
        .prop_map(|(c, mode, a, b, k, k2, bad, chk)| {
            let call = pick(CALLS, c).to_string();
            let (a, b) = if call == "char_code" || call == "char_type" {
                // one-character subjects from the pool (or any scalar value)
                let ch = if chk % 4 == 0 { char::from_u32((k as u32) * 17 % 0xD800).unwrap_or('x') } else { pick(CHAR_POOL, chk) };
                (ch.to_string(), b)
            } else {
                (a, b)
            };
            avoid_findings(BCase { call, mode, a, b, k, k2, bad })
        })
        .boxed()
}

// ---------------------------------------------------------------------------------------------
// expectations

#[derive(Clone, Debug)]
enum Exp {
    /// exact sequence of solutions (instances of R)
    Seq(Vec<T>),
    /// error(Formal, _)
    Err(T),
}

fn yes() -> T {
    atom("yes")
}
fn yes_if(b: bool) -> Exp {
    Exp::Seq(if b { vec![yes()] } else { vec![] })
}
fn one(t: T) -> Exp {
    Exp::Seq(vec![t])
}
fn inst() -> Exp {
    Exp::Err(atom("instantiation_error"))
}
fn type_err(ty: &str, culprit: T) -> Exp {
    Exp::Err(cmp("type_error", vec![atom(ty), culprit]))
}
fn chars_t(s: &str) -> T {
    list(s.chars().map(|c| T::Atom(c.to_string())).collect())
}
fn codes_t(s: &str) -> T {
    list(s.chars().map(|c| int(c as u32 as i64)).collect())
}
fn sub(s: &str, b: usize, l: usize) -> String {
    s.chars().skip(b).take(l).collect()
}

/// nonvar terms that are not atoms
fn non_atom(k: u16) -> T {
    pick(&[int(7), T::Float(1.5), cmp("f", vec![atom("x")]), T::Str("ab".into()), list(vec![atom("a")]), int(0)], k)
}
/// nonvar terms that are not integers
fn non_integer(k: u16) -> T {
    pick(&[atom("foo"), T::Float(1.0), cmp("f", vec![atom("x")]), T::Str("1".into()), atom("")], k)
}
/// nonvar terms that are not one-character atoms
fn non_char(k: u16) -> T {
    pick(&[atom("ab"), atom(""), int(1), cmp("f", vec![atom("x")]), T::Float(0.5), atom("aé")], k)
}
/// integers that are not character codes
fn non_code(k: u16) -> T {
    pick(&[int(-1), int(0x110000), int(0xD800), int(0xDFFF), T::Int(crate::num::ipow2(40)), T::Int(-crate::num::ipow2(70))], k)
}

struct Spec {
    /// bindings written before the goal (besides At/Bt, the atoms with texts a and b)
    pre: String,
    goal: String,
    exp: Exp,
    class: String,
}

fn scale(n: u16, m: usize) -> usize {
    (n as usize * m) >> 16
}

const CHAR_CLASSES: &[&str] = &["upper", "lower", "alphabetic", "numeric", "decimal_digit", "whitespace", "ascii", "octet", "control"];

fn in_class(c: char, class: &str) -> bool {
    match class {
        "upper" => c.is_uppercase(),
        "lower" => c.is_lowercase(),
        "alphabetic" => c.is_alphabetic(),
        "numeric" => c.is_numeric(),
        "decimal_digit" => c.is_ascii_digit(),
        "whitespace" => c.is_whitespace(),
        "ascii" => c.is_ascii(),
        "octet" => (c as u32) <= 0xFF,
        "control" => c.is_control(),
        _ => unreachable!(),
    }
}

fn spec(c: &BCase) -> Spec {
    let a = &c.a;
    let b = &c.b;
    let n = a.chars().count();
    let m = c.mode;
    let mut pre = String::new();
    let goal: String;
    let exp: Exp;
    let class: String;
    match c.call.as_str() {
        "atom_length" => match m % 8 {
            0 | 1 => {
                goal = "atom_length(At, R)".into();
                exp = one(int(n as i64));
                class = "atom_length(+,-)".into();
            }
            2 | 3 => {
                let v = n as i64 + [0i64, 0, 1, -1][(c.k % 4) as usize];
                if v < 0 {
                    goal = "atom_length(At, -1), R = yes".into();
                    exp = Exp::Err(cmp("domain_error", vec![atom("not_less_than_zero"), int(-1)]));
                } else {
                    goal = format!("atom_length(At, {v}), R = yes");
                    exp = yes_if(v == n as i64);
                }
                class = "atom_length(+,+)".into();
            }
            4 => {
                goal = "atom_length(_, R)".into();
                exp = inst();
                class = "atom_length:inst".into();
            }
            5 => {
                let x = non_atom(c.bad);
                goal = format!("atom_length({}, R)", x.text());
                exp = type_err("atom", x);
                class = "atom_length:type(atom)".into();
            }
            6 => {
                let x = non_integer(c.bad);
                goal = format!("atom_length(At, {}), R = yes", x.text());
                exp = type_err("integer", x);
                class = "atom_length:type(integer)".into();
            }
            _ => {
                let v = -1 - (c.bad % 5) as i64;
                goal = format!("atom_length(At, {v}), R = yes");
                exp = Exp::Err(cmp("domain_error", vec![atom("not_less_than_zero"), int(v)]));
                class = "atom_length:domain".into();
            }
        },
        "atom_chars" | "atom_codes" => {
            let codes = c.call == "atom_codes";
            let p = c.call.as_str();
            let full = if codes { codes_t(a) } else { chars_t(a) };
            let other = if codes { codes_t(b) } else { chars_t(b) };
            match m % 10 {
                0 | 1 => {
                    goal = format!("{p}(At, R)");
                    exp = one(full);
                    class = format!("{p}(+,-)");
                }
                2 | 3 => {
                    goal = format!("{p}(R, {})", full.text());
                    exp = one(T::Atom(a.clone()));
                    class = format!("{p}(-,+)");
                }
                4 => {
                    let l = if c.k % 2 == 0 { full.clone() } else { other.clone() };
                    goal = format!("{p}(At, {}), R = yes", l.text());
                    exp = yes_if(l.norm().eq_struct(&full.norm()));
                    class = format!("{p}(+,+)");
                }
                5 => {
                    // list with unbound elements and possibly an open tail
                    let items: Vec<T> = match full.norm() {
                        T::PList(v, _) => v,
                        _ => vec![],
                    };
                    let keep = scale(c.k, items.len() + 1);
                    let mut v: Vec<T> = items.iter().enumerate().map(|(i, t)| if (c.k2 >> (i % 16)) & 1 == 1 { T::Var(10 + i as u32) } else { t.clone() }).collect();
                    let open = c.bad % 2 == 0;
                    if open {
                        v.truncate(keep);
                    }
                    let l = if v.is_empty() { if open { T::Var(9) } else { nil() } } else { T::PList(v, Box::new(if open { T::Var(9) } else { nil() })) };
                    goal = format!("L = {}, {p}(At, L), R = L", l.text());
                    exp = one(full);
                    class = format!("{p}(+,partial)");
                }
                6 => {
                    // unbound atom with a partial list / a list holding a variable
                    let items: Vec<T> = match full.norm() {
                        T::PList(v, _) => v,
                        _ => vec![],
                    };
                    let l = if c.k % 2 == 0 || items.is_empty() {
                        let keep = scale(c.k2, items.len() + 1);
                        if keep == 0 { T::Var(9) } else { T::PList(items[..keep].to_vec(), Box::new(T::Var(9))) }
                    } else {
                        let i = scale(c.k2, items.len());
                        let mut v = items.clone();
                        v[i] = T::Var(9);
                        list(v)
                    };
                    goal = format!("{p}(R, {})", l.text());
                    exp = inst();
                    class = format!("{p}:inst");
                }
                7 => {
                    let x = non_atom(c.bad);
                    // a list of characters/codes is fine as a *second* argument only
                    goal = format!("{p}({}, R)", x.text());
                    exp = type_err("atom", x);
                    class = format!("{p}:type(atom)");
                }
                8 => {
                    let l = pick(&[atom("foo"), int(3), T::PList(vec![if codes { int(97) } else { atom("a") }], Box::new(atom("foo"))), cmp("f", vec![atom("x")])], c.bad);
                    goal = format!("{p}(R, {})", l.text());
                    exp = type_err("list", l);
                    class = format!("{p}:type(list)");
                }
                _ => {
                    let items: Vec<T> = match full.norm() {
                        T::PList(v, _) => v,
                        _ => vec![],
                    };
                    let i = scale(c.k, items.len() + 1);
                    let mut v = items.clone();
                    if codes {
                        v.insert(i, non_code(c.bad));
                        exp = Exp::Err(cmp("representation_error", vec![atom("character_code")]));
                        class = format!("{p}:representation");
                    } else {
                        let x = non_char(c.bad);
                        v.insert(i, x.clone());
                        exp = type_err("character", x);
                        class = format!("{p}:type(character)");
                    }
                    goal = format!("{p}(R, {})", list(v).text());
                }
            }
        }
        "char_code" => {
            let ch = a.chars().next().unwrap_or('a');
            let code = ch as u32 as i64;
            let ct = T::Atom(ch.to_string());
            pre = format!("vp_dec({}, Ch), ", ct.enc_text());
            match m % 9 {
                0 | 1 => {
                    goal = "char_code(Ch, R)".into();
                    exp = one(int(code));
                    class = "char_code(+,-)".into();
                }
                2 | 3 => {
                    goal = format!("char_code(R, {code})");
                    exp = one(ct);
                    class = "char_code(-,+)".into();
                }
                4 => {
                    let mut other = code + [0i64, 0, 1, 32][(c.k % 4) as usize];
                    if char::from_u32(other as u32).is_none() {
                        other = code;
                    }
                    goal = format!("char_code(Ch, {other}), R = yes");
                    exp = yes_if(other == code);
                    class = "char_code(+,+)".into();
                }
                5 => {
                    goal = "char_code(_, _), R = yes".into();
                    exp = inst();
                    class = "char_code:inst".into();
                }
                6 => {
                    let x = non_char(c.bad);
                    goal = format!("char_code({}, R)", x.text());
                    exp = type_err("character", x);
                    class = "char_code:type(character)".into();
                }
                7 => {
                    let x = non_integer(c.bad);
                    let first = if c.k % 2 == 0 { "Ch" } else { "_" };
                    goal = format!("char_code({first}, {}), R = yes", x.text());
                    exp = type_err("integer", x);
                    class = "char_code:type(integer)".into();
                }
                _ => {
                    let x = non_code(c.bad);
                    goal = format!("char_code(R, {})", x.text());
                    exp = Exp::Err(cmp("representation_error", vec![atom("character_code")]));
                    class = "char_code:representation".into();
                }
            }
        }
        "atom_concat" => {
            let ab = format!("{a}{b}");
            let abt = T::Atom(ab.clone());
            pre = format!("vp_dec({}, ABt), ", abt.enc_text());
            match m % 10 {
                0 | 1 => {
                    goal = "atom_concat(At, Bt, R)".into();
                    exp = one(abt);
                    class = "atom_concat(+,+,-)".into();
                }
                2 => {
                    let third = if c.k % 2 == 0 { "ABt" } else { "At" };
                    goal = format!("atom_concat(At, Bt, {third}), R = yes");
                    exp = yes_if(c.k % 2 == 0 || ab == *a);
                    class = "atom_concat(+,+,+)".into();
                }
                3 | 4 => {
                    goal = "atom_concat(X, Y, At), R = X-Y".into();
                    exp = Exp::Seq((0..=n).map(|i| cmp("-", vec![T::Atom(sub(a, 0, i)), T::Atom(sub(a, i, n - i))])).collect());
                    class = "atom_concat(-,-,+)".into();
                }
                5 => {
                    // prefix given: At ++ R = ABt, or an unrelated whole
                    let whole = if c.k % 3 == 0 { "Bt" } else { "ABt" };
                    goal = format!("atom_concat(At, R, {whole})");
                    let w = if c.k % 3 == 0 { b.clone() } else { ab.clone() };
                    exp = match w.strip_prefix(a.as_str()) {
                        Some(rest) => one(T::Atom(rest.to_string())),
                        None => Exp::Seq(vec![]),
                    };
                    class = "atom_concat(+,-,+)".into();
                }
                6 => {
                    let whole = if c.k % 3 == 0 { "At" } else { "ABt" };
                    goal = format!("atom_concat(R, Bt, {whole})");
                    let w = if c.k % 3 == 0 { a.clone() } else { ab.clone() };
                    exp = match w.strip_suffix(b.as_str()) {
                        Some(rest) => one(T::Atom(rest.to_string())),
                        None => Exp::Seq(vec![]),
                    };
                    class = "atom_concat(-,+,+)".into();
                }
                7 => {
                    goal = pick(&["atom_concat(_, Bt, R)", "atom_concat(At, _, R)", "atom_concat(_, _, R)"], c.bad).to_string();
                    exp = inst();
                    class = "atom_concat:inst".into();
                }
                _ => {
                    let x = non_atom(c.bad);
                    let xt = x.text();
                    goal = match c.k % 3 {
                        0 => format!("atom_concat({xt}, Bt, R)"),
                        1 => format!("atom_concat(At, {xt}, R)"),
                        _ => format!("atom_concat(R, _, {xt})"),
                    };
                    exp = type_err("atom", x);
                    class = "atom_concat:type(atom)".into();
                }
            }
        }
        "sub_atom" => {
            // every (B, L, A, Sub) with B+L+A = n, ISO order: B ascending, then L ascending
            let all: Vec<(usize, usize, usize, String)> = (0..=n).flat_map(|bb| (0..=n - bb).map(move |l| (bb, l))).map(|(bb, l)| (bb, l, n - bb - l, sub(a, bb, l))).collect();
            if m % 8 == 7 {
                // error cases: exactly one fault
                match c.bad % 7 {
                    0 => {
                        goal = "sub_atom(_, B, L, A, S), R = t(B,L,A,S)".into();
                        exp = inst();
                        class = "sub_atom:inst".into();
                    }
                    1 => {
                        let x = non_atom(c.k);
                        goal = format!("sub_atom({}, B, L, A, S), R = t(B,L,A,S)", x.text());
                        exp = type_err("atom", x);
                        class = "sub_atom:type(atom)".into();
                    }
                    2 => {
                        let x = non_atom(c.k);
                        goal = format!("sub_atom(At, B, L, A, {}), R = t(B,L,A)", x.text());
                        exp = type_err("atom", x);
                        class = "sub_atom:type(atom)-sub".into();
                    }
                    3 | 4 => {
                        let x = non_integer(c.k);
                        let xt = x.text();
                        goal = match c.k2 % 3 {
                            0 => format!("sub_atom(At, {xt}, L, A, S), R = t(L,A,S)"),
                            1 => format!("sub_atom(At, B, {xt}, A, S), R = t(B,A,S)"),
                            _ => format!("sub_atom(At, B, L, {xt}, S), R = t(B,L,S)"),
                        };
                        exp = type_err("integer", x);
                        class = "sub_atom:type(integer)".into();
                    }
                    _ => {
                        let v = -1 - (c.k % 3) as i64;
                        goal = match c.k2 % 3 {
                            0 => format!("sub_atom(At, {v}, L, A, S), R = t(L,A,S)"),
                            1 => format!("sub_atom(At, B, {v}, A, S), R = t(B,A,S)"),
                            _ => format!("sub_atom(At, B, L, {v}, S), R = t(B,L,S)"),
                        };
                        exp = Exp::Err(cmp("domain_error", vec![atom("not_less_than_zero"), int(v)]));
                        class = "sub_atom:domain".into();
                    }
                }
            } else {
                // instantiation pattern from the mode bits; bound values from a hit tuple, possibly perturbed
                let bits = (m / 8) % 16;
                let hit = &all[scale(c.k, all.len())];
                let perturb = c.bad % 4 == 0;
                let mut bv = hit.0 as i64;
                let mut lv = hit.1 as i64;
                let mut av = hit.2 as i64;
                let mut sv = hit.3.clone();
                if perturb {
                    match c.k2 % 4 {
                        0 => bv += 1,
                        1 => lv += 1,
                        2 => av = (av + 1) % (n as i64 + 2),
                        _ => sv = b.clone(),
                    }
                }
                let (bb, lb, ab, sb) = (bits & 1 != 0, bits & 2 != 0, bits & 4 != 0, bits & 8 != 0);
                if bb {
                    pre.push_str(&format!("B = {bv}, "));
                }
                if lb {
                    pre.push_str(&format!("L = {lv}, "));
                }
                if ab {
                    pre.push_str(&format!("A = {av}, "));
                }
                if sb {
                    pre.push_str(&format!("vp_dec({}, S), ", T::Atom(sv.clone()).enc_text()));
                }
                goal = "sub_atom(At, B, L, A, S), R = t(B,L,A,S)".into();
                exp = Exp::Seq(
                    all.iter()
                        .filter(|t| (!bb || t.0 as i64 == bv) && (!lb || t.1 as i64 == lv) && (!ab || t.2 as i64 == av) && (!sb || t.3 == sv))
                        .map(|t| cmp("t", vec![int(t.0 as i64), int(t.1 as i64), int(t.2 as i64), T::Atom(t.3.clone())]))
                        .collect(),
                );
                class = format!("sub_atom({}{}{}{})", if bb { '+' } else { '-' }, if lb { '+' } else { '-' }, if ab { '+' } else { '-' }, if sb { '+' } else { '-' });
            }
        }
        _ => {
            // char_type
            let ch = a.chars().next().unwrap_or('a');
            let ct = T::Atom(ch.to_string());
            pre = format!("vp_dec({}, Ch), ", ct.enc_text());
            let up: String = ch.to_uppercase().collect();
            let lo: String = ch.to_lowercase().collect();
            match m % 6 {
                0 | 1 | 2 => {
                    let cl = pick(CHAR_CLASSES, c.k);
                    goal = format!("char_type(Ch, {cl}), R = yes");
                    exp = yes_if(in_class(ch, cl));
                    class = format!("char_type(+,{cl})");
                }
                3 => {
                    goal = "char_type(Ch, upper(R))".into();
                    exp = one(T::Str(up));
                    class = "char_type(+,upper(-))".into();
                }
                4 => {
                    goal = "char_type(Ch, lower(R))".into();
                    exp = one(T::Str(lo));
                    class = "char_type(+,lower(-))".into();
                }
                _ => {
                    let (f, right) = if c.k % 2 == 0 { ("upper", up.clone()) } else { ("lower", lo.clone()) };
                    let given = match c.k2 % 3 {
                        0 => right.clone(),
                        1 => ch.to_string(),
                        _ => b.chars().take(2).collect::<String>(),
                    };
                    goal = format!("char_type(Ch, {f}({})), R = yes", T::Str(given.clone()).text());
                    exp = yes_if(given == right);
                    class = format!("char_type(+,{f}(+))");
                }
            }
        }
    }
    Spec { pre, goal, exp, class }
}

// ---------------------------------------------------------------------------------------------
// open finding: char_type(C, lower(L)) answers the UPPERCASE mapping (system_calls.rs char_type, the
// lower/1 arm calls to_uppercase)
const LOWER_SIG: &str = "char_type:lower-gives-uppercase";

fn lower_finding(c: &BCase) -> bool {
    if c.call != "char_type" {
        return false;
    }
    let ch = c.a.chars().next().unwrap_or('a');
    let up: String = ch.to_uppercase().collect();
    let lo: String = ch.to_lowercase().collect();
    up != lo && (c.mode % 6 == 4 || (c.mode % 6 == 5 && c.k % 2 == 1))
}

/// open finding: char_code(C, N) with N a big integer outside the small-integer range panics
/// (system_calls.rs char_code: `(&*n).try_into().unwrap()`) instead of raising
/// representation_error(character_code); reached directly and through atom_codes/2 (codes_or_vars)
#[allow(dead_code)]
const BIGCODE_SIG: &str = "char_code:bigint-code-panics";

#[allow(dead_code)]
fn bigcode_finding(c: &BCase) -> bool {
    let is_big = matches!(non_code(c.bad), T::Int(ref v) if *v < -crate::num::ipow2(55) || *v >= crate::num::ipow2(55));
    is_big && ((c.call == "char_code" && c.mode % 9 == 8) || (c.call == "atom_codes" && c.mode % 10 == 9))
}

/// both findings of this property are fixed in the tree under test (a60600d, bd4a35a): their input
/// classes are generated without restriction; the stored witnesses are regression replays
fn avoid_findings(c: BCase) -> BCase {
    c
}

pub struct Env {
    pub s: Session,
}

pub fn mk_env() -> Env {
    Env { s: Session::new(&["lists", "charsio"]) }
}

fn canon(t: &T) -> T {
    t.norm().canon_vars()
}

pub fn check(env: &mut Env, c: &BCase) -> Verdict {
    let sp = spec(c);
    let q = format!("vp_decs([{}, {}], [At, Bt]), {}{}", T::Atom(c.a.clone()).enc_text(), T::Atom(c.b.clone()).enc_text(), sp.pre, sp.goal);
    let o = env.s.ask(&q, "R");
    let known = false;
    let _ = (lower_finding as fn(&BCase) -> bool, LOWER_SIG);
    let ok = match (&sp.exp, &o) {
        (_, Outcome::Panic(m)) => {
            return Verdict::fail(format!("panic:{}:{}", m.split_whitespace().next().unwrap_or("?"), sp.class), format!("{q} panicked: {m}"));
        }
        (_, Outcome::Harness(m)) => return Verdict::Discard(format!("harness:{}", m.chars().take(40).collect::<String>())),
        (Exp::Seq(w), Outcome::Sols(v)) => w.len() == v.len() && w.iter().zip(v).all(|(a, b)| canon(a).eq_struct(&canon(b))),
        (Exp::Err(f), o) => o.formal().map(|g| canon(f).eq_struct(&canon(&g))).unwrap_or(false),
        _ => false,
    };
    if !ok {
        let want = match &sp.exp {
            Exp::Seq(w) => format!("{} solution(s): {}", w.len(), w.iter().take(8).map(|t| t.text()).collect::<Vec<_>>().join(" ; ")),
            Exp::Err(f) => format!("error({}, _)", f.text()),
        };
        let kind = match (&sp.exp, &o) {
            (Exp::Err(_), Outcome::Ex(_)) => "wrong-error",
            (Exp::Err(_), _) => "missing-error",
            (Exp::Seq(_), Outcome::Ex(_)) => "unexpected-error",
            (Exp::Seq(w), Outcome::Sols(v)) if w.len() != v.len() => "wrong-solution-count",
            _ => "wrong-result",
        };
        let detail = format!("{q}\n  gave {}\n  expected {}", o.short().chars().take(600).collect::<String>(), want.chars().take(600).collect::<String>());
        if known {
            return Verdict::fail(LOWER_SIG, detail);
        }
        return Verdict::fail(format!("{kind}:{}", sp.class), detail);
    }
    let nsols = match &sp.exp {
        Exp::Seq(w) => w.len(),
        _ => 0,
    };
    let is_err = matches!(sp.exp, Exp::Err(_));
    let non_ascii = !c.a.is_ascii() || (c.call == "atom_concat" && !c.b.is_ascii());
    let mut classes: Vec<String> = vec![format!("call:{}", sp.class)];
    if is_err {
        classes.push("error-case".into());
    }
    if nsols > 3 {
        classes.push("enumeration>3".into());
    }
    if nsols == 0 && !is_err {
        classes.push("expected-failure".into());
    }
    if non_ascii {
        classes.push("non-ascii".into());
    }
    if c.a.contains('\0') {
        classes.push("has-NUL".into());
    }
    if c.a.is_empty() {
        classes.push("empty-atom".into());
    }
    let cl: Vec<&str> = classes.iter().map(|s| s.as_str()).collect();
    Verdict::pass(non_ascii || nsols > 3 || is_err, &cl)
}

pub struct C22;

impl Prop for C22 {
    fn id(&self) -> &'static str {
        "C22"
    }
    fn rule(&self) -> &'static str {
        "one call of atom_length/2, atom_chars/2, atom_codes/2, char_code/2, atom_concat/3, sub_atom/5 or char_type/2 in one instantiation pattern: atoms of 0..12 characters over ASCII, 2/3/4-byte characters, NUL and the tricky-atom vocabulary (built from code lists, never through the reader); atom_chars/atom_codes in modes (+,-), (-,+), (+,+), (+,list with unbound elements / open tail); atom_concat in (+,+,-), (+,+,+), (-,-,+) (all splits, prefix length ascending), (+,-,+), (-,+,+); sub_atom in all 16 bound/unbound patterns of Before/Length/After/Sub with consistent or perturbed bound values (all solutions, Before ascending then Length ascending, each once); char_code in 3 modes over a pool of 55 boundary characters plus random scalar values; char_type for upper, lower, alphabetic, numeric, decimal_digit, whitespace, ascii, octet, control and the string-valued upper(U)/lower(L) mappings; error cases with exactly one unbound or ill-typed argument compare the ISO 8.16 Formal (instantiation_error, type_error(atom|integer|character|list,Culprit), domain_error(not_less_than_zero,N), representation_error(character_code)); oracle: Rust String/char operations on Unicode scalar values; non-trivial = non-ASCII atom, or > 3 solutions, or an error case; distinct by case encoding"
    }
    fn assumptions(&self) -> Vec<String> {
        vec![
            "atoms reach the query through atom_codes/2 inside vp_dec (checked against the reader by C21)".into(),
            "Rust's char::is_* / to_uppercase / to_lowercase are the Unicode reference for char_type/2 (the same std functions scryer calls: the check is that the right function is applied to the right argument)".into(),
            "error cases contain a single fault, so the Formal is determined".into(),
        ]
    }
    fn run_shard(&self, cfg: &ShardCfg) -> ShardResult {
        let mut d = Driver::new(cfg, "C22");
        let n = cfg.share(cfg.tier.pick(60_000, 3_000_000));
        d.run("call", 0, n, 6000, bcase_strategy(), &mk_env, &check);
        d.finish()
    }
    fn replay(&self, _kind: &str, case: &Value) -> Verdict {
        replay_case::<BCase, Env>(case, &mk_env, &check)
    }
}
