//! C12 — Exceptions unwind precisely and leave the machine consistent.
//!
//! A case is one goal: a nesting (depth <= 5) of catch/3, throw/1, setup_call_cleanup/3,
//! call_cleanup/2, cut, disjunction, if-then-else, \+, once/1, call/1, findall/3, forall/2 over four
//! context variables V0..V3, with balls of many shapes (atoms, small and big integers, floats,
//! strings, lists, partial lists, compounds sharing context variables, error/2 terms, an unbound
//! ball), builtin-raised errors (type / instantiation / evaluation / existence), throws from inside
//! helper predicates (through several environment frames, with and without choice points in every
//! frame), nondeterministic goals that are exhausted, cut, or abandoned by an exception. Every
//! recovery, cleanup, setup and many ordinary positions log a token `vp_tok(K)` / `vp_tok(K, Term)`
//! (a copy of Term's current instantiation) to a bb_put log that backtracking and exceptions do
//! not undo.
//!
//! The goal is run twice on scryer: as a query (meta-call of the goal term) and as the body of a
//! consulted clause c12_m<N>(V0,V1,V2,V3) (compiled). The reference interpreter (shared::refint)
//! gives the expected ordered answers / uncaught ball and the expected token log.
//!
//! Oracle
//! * answers (order, multiplicity, each up to variable renaming) and the uncaught ball are compared
//!   exactly; of an error(Formal, Context) ball only the Formal (catchers never constrain Context);
//! * the log without cleanup tokens must be equal to the reference log without cleanup tokens
//!   (token and logged term, up to renaming / error context);
//! * every cleanup logs exactly one token; per cleanup site the number of logged tokens must equal the
//!   number of activations in the reference (exactly once per activation, never without a
//!   successful setup), and the i-th token of the site must lie in the window of the i-th activation:
//!   not before the goal's last exit (or the failure / exception that finished it), not after the
//!   failure / exception / cut that finished it; for a deterministic exit not after the moment the
//!   reference's choice stack drops below the activation (an implementation may keep choice points
//!   the reference does not have: *when* determinism is detected is not part of the statement).
//!   The logged term of a cleanup token is compared only when the whole log is equal.
//! * follow-up battery on the same machine after every case: catch/throw with a fresh ball,
//!   setup_call_cleanup over a nondeterministic goal with its log, findall/3, and the machine's
//!   bookkeeping (pending cleanup handlers, saved balls, catch block, inference-limit stack) is back
//!   at its value before the case.
use crate::engine::*;
use crate::props::c07::{compare, load, LoadErr};
use crate::session::{Outcome, Session};
use crate::shared::choice::{stream, Src};
use crate::shared::proggen::{clause_text, goal_text, sanitize};
use crate::shared::refint::{ball_matches, Clause, Interp, Limits, LogEntry, Pred, Program, RefOutcome, SccAct};
use crate::term::{atom, cmp, int, list, nil, T};
use dashu::integer::IBig;
use proptest::prelude::*;
use serde::{Deserialize, Serialize};
use serde_json::{json, Value};
use std::collections::{BTreeMap, BTreeSet};
use std::sync::atomic::{AtomicU64, Ordering};
use std::sync::OnceLock;

const C12_PL: &str = include_str!("../../prolog/c12.pl");

/// the helper predicates of prolog/c12.pl as the reference interpreter sees them
const HELPERS: &str = "
c12_n2(1). c12_n2(2).
c12_n3(a). c12_n3(b). c12_n3(c).
c12_thr(B) :- throw(B).
c12_nop.
c12_deep(N, B) :- ( N =< 0 -> throw(B) ; N1 is N - 1, c12_deep(N1, B), c12_nop ).
c12_deepc(N, B) :- ( N =< 0 -> throw(B) ; N1 is N - 1, c12_n2(_), c12_deepc(N1, B) ).
c12_id(X, X).
";

fn helpers() -> &'static Program {
    static P: OnceLock<Program> = OnceLock::new();
    P.get_or_init(|| Program::from_text(HELPERS).expect("C12 helper program"))
}

static STRICT_EQUAL: AtomicU64 = AtomicU64::new(0);
static LENIENT_ONLY: AtomicU64 = AtomicU64::new(0);
static TOKENS: AtomicU64 = AtomicU64::new(0);
static ACTIVATIONS: AtomicU64 = AtomicU64::new(0);

#[derive(Clone, Debug, PartialEq, Serialize, Deserialize)]
pub struct Case {
    /// context variables are Var(0..4), local variables Var(10..)
    pub goal: T,
}

pub const NCTX: u32 = 4;

pub fn template() -> T {
    list((0..NCTX).map(T::Var).collect())
}

// ---------------------------------------------------------------------------------------------
// generator

struct Gen<'a> {
    src: Src<'a>,
    next_tok: i64,
    next_local: u32,
}

impl<'a> Gen<'a> {
    fn ctx(&mut self) -> T {
        T::Var(self.src.n(NCTX as usize) as u32)
    }
    fn local(&mut self) -> T {
        self.next_local += 1;
        T::Var(self.next_local - 1)
    }
    fn tok(&mut self) -> T {
        self.next_tok += 1;
        let k = int(self.next_tok - 1);
        if self.src.chance(55) {
            cmp("vp_tok", vec![k, self.ctx()])
        } else {
            cmp("vp_tok", vec![k])
        }
    }
    fn tok_of(&mut self, v: T) -> T {
        self.next_tok += 1;
        cmp("vp_tok", vec![int(self.next_tok - 1), v])
    }

    fn small(&mut self) -> T {
        match self.src.weighted(&[30, 14, 10, 10, 8, 8, 6, 6, 4, 4]) {
            0 => atom(["a", "b", "c"][self.src.n(3)]),
            1 => int(self.src.n(3) as i64),
            2 => cmp("f", vec![self.ctx()]),
            3 => self.ctx(),
            4 => list(vec![self.ctx()]),
            5 => cmp("g", vec![atom("a"), self.ctx()]),
            6 => T::Str("ab".into()),
            7 => nil(),
            8 => T::Int(IBig::from(1) << 70),
            _ => T::Float(1.5),
        }
    }

    fn ball(&mut self) -> T {
        match self.src.weighted(&[16, 10, 12, 10, 6, 6, 6, 6, 6, 5, 5, 4, 4, 4]) {
            0 => atom(["a", "b", "hello world", "[]", "$x"][self.src.n(5)]),
            1 => int([0i64, 7, -1][self.src.n(3)]),
            2 => cmp("b", vec![self.ctx()]),
            3 => cmp("b", vec![self.ctx(), self.ctx()]),
            4 => cmp("b", vec![self.small()]),
            5 => T::Str(["abc", "a", "the quick brown fox"][self.src.n(3)].into()),
            6 => list(vec![int(1), self.small(), int(3)]),
            7 => T::PList(vec![atom("a"), self.small()], Box::new(self.ctx())),
            8 => cmp("error", vec![cmp("type_error", vec![atom("integer"), self.small()]), atom("ctx")]),
            9 => [T::Int(IBig::from(1) << 70), T::Int(-(IBig::from(1) << 64)), T::Int((IBig::from(1) << 55) - IBig::from(1))][self.src.n(3)].clone(),
            10 => cmp("f", vec![cmp("g", vec![self.ctx()]), T::PList(vec![self.ctx()], Box::new(self.ctx()))]),
            11 => T::Float([1.5f64, -2.5, 1e300][self.src.n(3)]),
            12 => cmp("f", vec![cmp("f", vec![cmp("f", vec![cmp("f", vec![self.small()])])])]),
            // an unbound ball: instantiation_error
            _ => self.local(),
        }
    }

    /// (catcher, term logged by the recovery)
    fn catcher(&mut self) -> (T, T) {
        match self.src.weighted(&[26, 12, 10, 8, 6, 6, 6, 6, 5, 5, 5, 5]) {
            0 => {
                let c = self.local();
                (c.clone(), c)
            }
            1 => {
                let c = self.ctx();
                (c.clone(), c)
            }
            2 => {
                let x = self.local();
                (cmp("b", vec![x.clone()]), x)
            }
            3 => {
                let x = self.local();
                (cmp("b", vec![x.clone(), x.clone()]), x)
            }
            4 => {
                let (x, y) = (self.ctx(), self.local());
                (cmp("b", vec![x.clone(), y.clone()]), cmp("-", vec![x, y]))
            }
            5 => (cmp("b", vec![atom("a")]), atom("m")),
            6 => {
                let e = self.local();
                (cmp("error", vec![e.clone(), self.local()]), e)
            }
            7 => {
                let (t, c) = (self.local(), self.local());
                (cmp("error", vec![cmp("type_error", vec![t.clone(), c.clone()]), self.local()]), cmp("-", vec![t, c]))
            }
            8 => {
                let (h, t) = (self.local(), self.local());
                (T::PList(vec![h.clone()], Box::new(t.clone())), cmp("-", vec![h, t]))
            }
            9 => (T::Str("abc".into()), atom("m")),
            10 => (atom(["a", "b", "[]"][self.src.n(3)]), atom("m")),
            _ => {
                let x = self.ctx();
                (cmp("b", vec![x.clone()]), x)
            }
        }
    }

    fn builtin_error(&mut self) -> T {
        let r = self.local();
        match self.src.n(9) {
            // (a literal `X is foo + 1` in a clause is rejected at load time: the atom arrives at run time)
            0 => {
                let l = self.local();
                cmp(",", vec![cmp("=", vec![l.clone(), atom("foo")]), cmp("is", vec![r, cmp("+", vec![l, int(1)])])])
            }
            1 => {
                let l = self.local();
                cmp(",", vec![cmp("=", vec![l.clone(), int(0)]), cmp("is", vec![r, cmp("//", vec![int(1), l])])])
            }
            2 => cmp("is", vec![r, cmp("+", vec![self.ctx(), int(1)])]),
            3 => T::Cmp("functor".into(), vec![r, self.local(), self.local()]),
            4 => T::Cmp("arg".into(), vec![atom("x"), cmp("f", vec![atom("a")]), r]),
            5 => {
                let l = self.local();
                cmp(",", vec![cmp("=", vec![l.clone(), int(1)]), cmp("call", vec![l])])
            }
            6 => atom("c12_undefined"),
            // (a literal ill-formed body in a goal argument is the known finding
            // `+ill-formed-goal-argument`: the body is built at run time instead)
            7 => {
                // (through a helper: the compiler also follows `L = Body, call(L)`)
                let l = self.local();
                cmp(",", vec![cmp("c12_id", vec![l.clone(), cmp(",", vec![atom("fail"), int(1)])]), cmp("call", vec![l])])
            }
            _ => cmp("=..", vec![r, T::PList(vec![atom("f")], Box::new(self.local()))]),
        }
    }

    fn thrower(&mut self) -> T {
        let b = self.ball();
        match self.src.weighted(&[45, 20, 20, 15]) {
            0 => cmp("throw", vec![b]),
            1 => cmp("c12_thr", vec![b]),
            2 => cmp("c12_deep", vec![int(self.src.range(1, 4) as i64), b]),
            _ => cmp("c12_deepc", vec![int(self.src.range(1, 3) as i64), b]),
        }
    }

    fn leaf(&mut self) -> T {
        match self.src.weighted(&[30, 16, 4, 7, 9, 9, 5, 10, 5, 5]) {
            0 => self.tok(),
            1 => cmp("=", vec![self.ctx(), self.small()]),
            2 => atom("true"),
            3 => atom("fail"),
            4 => atom("!"),
            5 => self.thrower(),
            6 => self.builtin_error(),
            7 => cmp("c12_n3", vec![self.ctx()]),
            8 => cmp("c12_n2", vec![self.local()]),
            _ => cmp("c12_n3", vec![atom(["a", "b", "c", "d"][self.src.n(4)])]),
        }
    }

    fn conj(&mut self, depth: u32) -> T {
        let n = self.src.weighted(&[35, 40, 25]) + 1;
        let goals: Vec<T> = (0..n).map(|_| self.goal(depth)).collect();
        crate::shared::proggen::conj_of(goals)
    }

    fn cleanup(&mut self) -> T {
        let t = self.tok();
        match self.src.weighted(&[40, 12, 12, 10, 8, 8, 10]) {
            0 => t,
            1 => cmp(",", vec![t, atom("fail")]),
            2 => cmp(",", vec![t, cmp("c12_n2", vec![self.local()])]),
            3 => cmp(",", vec![t, T::Cmp("catch".into(), vec![cmp("throw", vec![atom("in_cleanup")]), self.local(), atom("true")])]),
            4 => cmp(",", vec![t, atom("!")]),
            5 => {
                let l = self.local();
                cmp(",", vec![t, cmp(",", vec![cmp("c12_n2", vec![l.clone()]), cmp(">", vec![l, int(1)])])])
            }
            // a cleanup that raises: ignored while an exception is pending, otherwise it would
            // propagate -- kept inside its own catch so that both readings agree
            _ => T::Cmp("catch".into(), vec![cmp(",", vec![t, cmp("c12_thr", vec![atom("from_cleanup")])]), self.local(), atom("true")]),
        }
    }

    fn setup(&mut self) -> T {
        match self.src.weighted(&[46, 16, 10, 10, 6, 6, 6]) {
            0 => atom("true"),
            1 => self.tok(),
            2 => cmp("=", vec![self.ctx(), self.small()]),
            3 => cmp("c12_n3", vec![self.ctx()]),
            4 => atom("fail"),
            5 => self.thrower(),
            _ => cmp(",", vec![self.tok(), cmp("c12_n2", vec![self.local()])]),
        }
    }

    fn goal(&mut self, depth: u32) -> T {
        if depth == 0 {
            return self.leaf();
        }
        match self.src.weighted(&[26, 14, 8, 6, 3, 3, 3, 16, 14, 2, 3, 2]) {
            0 => self.leaf(),
            1 => self.conj(depth - 1),
            2 => cmp(";", vec![self.conj(depth - 1), self.conj(depth - 1)]),
            3 => {
                // the condition is never a bare cut (a cut in a condition is local: known finding of C07)
                let c = cmp("call", vec![self.conj(depth - 1)]);
                let t = self.conj(depth - 1);
                let e = self.conj(depth - 1);
                cmp(";", vec![cmp("->", vec![c, t]), e])
            }
            4 => {
                // (a cut that is transparent in a compiled \+ is the subject of an open C07 finding -- a
                // panic in CutPrev --, so the negated goal is always meta-called)
                let g = self.conj(depth - 1);
                cmp("\\+", vec![cmp("call", vec![g])])
            }
            5 => cmp("once", vec![self.conj(depth - 1)]),
            6 => cmp("call", vec![self.conj(depth - 1)]),
            7 => {
                let g = self.conj(depth - 1);
                let (c, logged) = self.catcher();
                let t = self.tok_of(logged);
                let rec = match self.src.weighted(&[50, 25, 10, 15]) {
                    0 => t,
                    1 => cmp(",", vec![t, self.goal(depth - 1)]),
                    2 => cmp(",", vec![t, cmp("throw", vec![c.clone()])]),
                    _ => atom("true"),
                };
                T::Cmp("catch".into(), vec![g, c, rec])
            }
            8 => {
                let s = self.setup();
                let g = self.conj(depth - 1);
                let c = self.cleanup();
                T::Cmp("setup_call_cleanup".into(), vec![s, g, c])
            }
            9 => {
                let g = self.conj(depth - 1);
                let c = self.cleanup();
                T::Cmp("call_cleanup".into(), vec![g, c])
            }
            10 => {
                let tpl = self.small();
                let g = self.conj(depth - 1);
                let l = if self.src.chance(70) { self.ctx() } else { self.local() };
                T::Cmp("findall".into(), vec![tpl, g, l])
            }
            _ => T::Cmp("forall".into(), vec![self.goal(depth - 1), self.goal(depth - 1)]),
        }
    }
}

pub fn build_case(stream: &[u16]) -> Case {
    let mut g = Gen { src: Src::new(stream), next_tok: 1, next_local: 10 };
    let depth = g.src.range(2, 5) as u32;
    let mut body = g.conj(depth);
    if g.src.chance(45) {
        // an outermost catcher so that fewer cases end with an uncaught ball
        let (c, logged) = g.catcher();
        let t = g.tok_of(logged);
        body = T::Cmp("catch".into(), vec![body, c, t]);
        if g.src.chance(50) {
            body = cmp(",", vec![body, g.goal(1)]);
        }
    }
    // the body is compiled as a clause body too: rewrite the clause shapes of the open C07
    // (compiler) findings out of it once, for both evaluation paths and the reference
    let head = T::Cmp("c12_m".into(), (0..NCTX).map(T::Var).collect());
    let p = Program { preds: vec![Pred { name: "c12_m".into(), arity: NCTX as usize, dynamic: false, clauses: vec![Clause { head, body }] }] };
    let p = sanitize(&p);
    Case { goal: p.preds[0].clauses[0].body.clone() }
}

pub fn case_strategy() -> BoxedStrategy<Case> {
    stream(400).prop_map(|s| build_case(&s)).boxed()
}

// ---------------------------------------------------------------------------------------------
// judge

fn walk(t: &T, f: &mut dyn FnMut(&T)) {
    f(t);
    match t {
        T::Cmp(_, a) => a.iter().for_each(|x| walk(x, f)),
        T::PList(i, tl) => {
            i.iter().for_each(|x| walk(x, f));
            walk(tl, f)
        }
        _ => {}
    }
}

fn tok_key(t: &T) -> Option<i64> {
    match t {
        T::Cmp(n, a) if n == "vp_tok" && (a.len() == 1 || a.len() == 2) => match &a[0] {
            T::Int(i) => i64::try_from(i).ok(),
            _ => None,
        },
        _ => None,
    }
}

/// token numbers that sit inside a cleanup argument
pub fn cleanup_sites(goal: &T) -> BTreeSet<i64> {
    let mut out = BTreeSet::new();
    walk(goal, &mut |t| {
        let c = match t {
            T::Cmp(n, a) if n == "setup_call_cleanup" && a.len() == 3 => Some(&a[2]),
            T::Cmp(n, a) if n == "call_cleanup" && a.len() == 2 => Some(&a[1]),
            _ => None,
        };
        if let Some(c) = c {
            walk(c, &mut |x| {
                if let Some(k) = tok_key(x) {
                    out.insert(k);
                }
            });
        }
    });
    out
}

/// Does some goal position of the goal (descending through control constructs and the goal
/// arguments of the meta-predicates used here) hold a term that is not callable? Goal expansion then
/// gives up on the *whole* enclosing goal (known finding `+ill-formed-goal-argument`).
pub fn ill_formed_goal_argument(t: &T) -> bool {
    match t {
        T::Var(_) | T::Atom(_) => false,
        T::Cmp(n, a) => {
            let idx: &[usize] = match (n.as_str(), a.len()) {
                (",", 2) | (";", 2) | ("->", 2) | ("forall", 2) => &[0, 1],
                ("\\+", 1) | ("once", 1) | ("call", 1) => &[0],
                ("findall", 3) => &[1],
                ("catch", 3) => &[0, 2],
                ("setup_call_cleanup", 3) => &[0, 1, 2],
                ("call_cleanup", 2) => &[0, 1],
                // the compiler follows Var = Body to a later call(Var)
                ("=", 2) => return a.iter().any(|x| matches!(x, T::Cmp(n, b) if b.len() == 2 && matches!(n.as_str(), "," | ";" | "->")) && ill_formed_goal_argument(x)),
                _ => &[],
            };
            idx.iter().any(|i| ill_formed_goal_argument(&a[*i]))
        }
        _ => true,
    }
}

#[derive(Clone, Debug)]
pub struct ObsEntry {
    pub k: i64,
    pub v: Option<T>,
}

fn decode_log(o: &Outcome) -> Result<Vec<ObsEntry>, String> {
    let Outcome::Sols(v) = o else { return Err(format!("log query gave {}", o.short())) };
    if v.len() != 1 {
        return Err(format!("log query gave {} answers", v.len()));
    }
    let items: Vec<T> = match &v[0] {
        T::PList(items, tl) if tl.is_nil() => items.clone(),
        x if x.is_nil() => vec![],
        other => return Err(format!("log is not a list: {}", other.text())),
    };
    let mut out = vec![];
    for it in items {
        match &it {
            T::Cmp(n, a) if n == "t" && (a.len() == 1 || a.len() == 2) => {
                let T::Int(k) = &a[0] else { return Err(format!("bad log entry {}", it.text())) };
                out.push(ObsEntry { k: i64::try_from(k).map_err(|_| "bad token")?, v: a.get(1).cloned() });
            }
            _ => return Err(format!("bad log entry {}", it.text())),
        }
    }
    Ok(out)
}

fn ref_key(e: &LogEntry) -> i64 {
    match &e.k {
        T::Int(i) => i64::try_from(i).unwrap_or(-1),
        _ => -1,
    }
}

fn val_eq(r: &Option<T>, o: &Option<T>) -> bool {
    match (r, o) {
        (None, None) => true,
        (Some(a), Some(b)) => a.eq_struct(b) || ball_matches(a, b),
        _ => false,
    }
}

fn show_ref(log: &[LogEntry]) -> String {
    log.iter()
        .map(|e| {
            let s = match &e.v {
                Some(v) => format!("{}={}", ref_key(e), v.text()),
                None => format!("{}", ref_key(e)),
            };
            if e.cleanup_of.is_some() {
                format!("[{s}]")
            } else {
                s
            }
        })
        .collect::<Vec<_>>()
        .join(" ")
}

fn show_obs(log: &[ObsEntry], sites: &BTreeSet<i64>) -> String {
    log.iter()
        .map(|e| {
            let s = match &e.v {
                Some(v) => format!("{}={}", e.k, v.text()),
                None => format!("{}", e.k),
            };
            if sites.contains(&e.k) {
                format!("[{s}]")
            } else {
                s
            }
        })
        .collect::<Vec<_>>()
        .join(" ")
}

pub enum LogVerdict {
    /// the whole log is equal, cleanup tokens included
    Equal,
    /// equal up to the permitted freedom in the moment a cleanup runs
    Lenient,
    Wrong(String, String),
}

pub fn judge_log(reference: &[LogEntry], acts: &[SccAct], observed: &[ObsEntry], sites: &BTreeSet<i64>) -> LogVerdict {
    // whole log equal?
    if reference.len() == observed.len() && reference.iter().zip(observed).all(|(r, o)| ref_key(r) == o.k && val_eq(&r.v, &o.v)) {
        return LogVerdict::Equal;
    }
    // 1. tokens outside cleanups: exact
    let rs: Vec<&LogEntry> = reference.iter().filter(|e| e.cleanup_of.is_none()).collect();
    let os: Vec<&ObsEntry> = observed.iter().filter(|e| !sites.contains(&e.k)).collect();
    for i in 0..rs.len().max(os.len()) {
        match (rs.get(i), os.get(i)) {
            (Some(r), Some(o)) => {
                if ref_key(r) != o.k {
                    return LogVerdict::Wrong("wrong-log:different-token".into(), format!("token {} of the log outside cleanups: expected {} got {}", i + 1, ref_key(r), o.k));
                }
                if !val_eq(&r.v, &o.v) {
                    return LogVerdict::Wrong(
                        "wrong-log:different-term".into(),
                        format!("token {} ({}) of the log outside cleanups: expected term {} got {}", i + 1, o.k, r.v.as_ref().map(|t| t.text()).unwrap_or_default(), o.v.as_ref().map(|t| t.text()).unwrap_or_default()),
                    );
                }
            }
            (Some(r), None) => return LogVerdict::Wrong("wrong-log:missing-token".into(), format!("the log outside cleanups ends after {} tokens, expected token {} next", os.len(), ref_key(r))),
            (None, Some(o)) => return LogVerdict::Wrong("wrong-log:extra-token".into(), format!("the log outside cleanups has an extra token {} after the expected {}", o.k, rs.len())),
            (None, None) => unreachable!(),
        }
    }
    // 2. cleanup tokens: exactly once per activation, inside the activation's window
    // reference: per site the activations in order (every cleanup logs exactly one token, first thing)
    let mut per_site: BTreeMap<i64, Vec<usize>> = BTreeMap::new();
    for e in reference {
        if let Some(a) = e.cleanup_of {
            per_site.entry(ref_key(e)).or_default().push(a);
        }
    }
    let mut obs_site: BTreeMap<i64, Vec<usize>> = BTreeMap::new(); // positions in tokens outside cleanups
    let mut p = 0usize;
    for e in observed {
        if sites.contains(&e.k) {
            obs_site.entry(e.k).or_default().push(p);
        } else {
            p += 1;
        }
    }
    for k in sites {
        let want = per_site.get(k).map(|v| v.len()).unwrap_or(0);
        let got = obs_site.get(k).map(|v| v.len()).unwrap_or(0);
        if got != want {
            let kind = if got > want { "more" } else { "fewer" };
            return LogVerdict::Wrong(format!("cleanup-count:{kind}"), format!("cleanup token {k} logged {got} times, the goal of this setup_call_cleanup was activated {want} times"));
        }
    }
    for (k, acts_of) in &per_site {
        for (i, a) in acts_of.iter().enumerate() {
            let pos = obs_site[k][i];
            let act = &acts[*a];
            if pos < act.lower {
                return LogVerdict::Wrong(format!("cleanup-early:{}", act.how), format!("cleanup token {k} (activation {}) logged after {pos} other tokens, its goal was not finished before {} ({})", i + 1, act.lower, act.how));
            }
            if let Some(u) = act.upper {
                if pos > u {
                    return LogVerdict::Wrong(format!("cleanup-late:{}", act.how), format!("cleanup token {k} (activation {}) logged after {pos} other tokens, its goal was finished by {} at {u}", i + 1, act.how));
                }
            }
        }
    }
    LogVerdict::Lenient
}

pub struct Env {
    pub s: Session,
    pub n: u64,
}

pub fn mk_env() -> Env {
    let mut s = Session::new(&[]);
    assert!(s.consult(C12_PL, "c12_helpers"), "c12.pl failed to load");
    Env { s, n: 0 }
}

pub fn ref_limits() -> Limits {
    Limits { max_steps: 40_000, max_solutions: 300, max_term_nodes: 2_000 }
}

fn panic_sig(m: &str) -> String {
    format!("panic:{}", m.split_whitespace().next().unwrap_or("?"))
}

struct Book {
    cont_pts: usize,
    ball_stack: usize,
    block: usize,
    cwil: usize,
    lifted: usize,
}

fn book(s: &Session) -> Book {
    let f = s.machine.verif_footprint();
    Book { cont_pts: f.cont_pts, ball_stack: f.ball_stack, block: f.block, cwil: f.cwil_depth, lifted: f.lifted_heap_cells }
}

fn run_and_judge(env: &mut Env, path: &str, goal: &str, tmpl: &str, expected: &RefOutcome, rlog: &[LogEntry], acts: &[SccAct], sites: &BTreeSet<i64>, lenient: &mut bool) -> Result<(), Verdict> {
    let o = env.s.ask_once("vp_log_reset", "[]");
    if !matches!(&o, Outcome::Sols(v) if v.len() == 1) {
        return Err(Verdict::Discard(format!("harness:log-reset {}", o.short().chars().take(40).collect::<String>())));
    }
    let got = env.s.ask(goal, tmpl);
    if let Outcome::Harness(m) = &got {
        return Err(Verdict::Discard(format!("harness:{}", m.chars().take(40).collect::<String>())));
    }
    if let Some((sig, detail)) = compare(expected, &got) {
        return Err(Verdict::fail(format!("{sig}@{path}"), format!("[{path}] ?- {goal}.\n{detail}\nreference: {}\nscryer:    {}\nreference log: {}", expected.short(), got.short(), show_ref(rlog))));
    }
    // (ask, not ask_once: the raw log must not stay bound to a query variable -- the public answer
    // conversion panics on some partial lists, which is C28's subject)
    let lo = env.s.ask("vp_log_get(L)", "L");
    if let Outcome::Panic(m) = &lo {
        return Err(Verdict::fail(panic_sig(m), format!("[{path}] reading the log after ?- {goal}. panicked: {m}")));
    }
    let obs = match decode_log(&lo) {
        Ok(v) => v,
        Err(e) => return Err(Verdict::fail(format!("log-unreadable:@{path}"), format!("[{path}] ?- {goal}.\n{e}"))),
    };
    match judge_log(rlog, acts, &obs, sites) {
        LogVerdict::Equal => Ok(()),
        LogVerdict::Lenient => {
            *lenient = true;
            Ok(())
        }
        LogVerdict::Wrong(sig, detail) => Err(Verdict::fail(
            format!("{sig}@{path}"),
            format!("[{path}] ?- {goal}.\n{detail}\nreference log: {}\nscryer log:    {}\nactivations: {}\nanswers: {}", show_ref(rlog), show_obs(&obs, sites), acts.iter().map(|a| format!("{}:{}..{}", a.how, a.lower, a.upper.map(|u| u.to_string()).unwrap_or("end".into()))).collect::<Vec<_>>().join(" "), got.short()),
        )),
    }
}

fn battery(env: &mut Env, before: &Book) -> Result<(), Verdict> {
    let fail = |what: &str, o: &Outcome| match o {
        Outcome::Panic(m) => Verdict::fail(panic_sig(m), format!("follow-up battery: {what} panicked: {m}")),
        Outcome::Harness(m) => Verdict::Discard(format!("harness:{}", m.chars().take(40).collect::<String>())),
        _ => Verdict::fail(format!("battery:{what}"), format!("follow-up battery on the same machine: {what} gave {}", o.short())),
    };
    let after = book(&env.s);
    if after.cont_pts != before.cont_pts || after.ball_stack != before.ball_stack || after.block != before.block || after.cwil != before.cwil || after.lifted != before.lifted {
        return Err(Verdict::fail(
            "bookkeeping:",
            format!(
                "machine bookkeeping after the case differs from before: pending cleanup handlers {} -> {}, saved balls {} -> {}, catch block {} -> {}, inference-limit stack {} -> {}, lifted heap cells {} -> {}",
                before.cont_pts, after.cont_pts, before.ball_stack, after.ball_stack, before.block, after.block, before.cwil, after.cwil, before.lifted, after.lifted
            ),
        ));
    }
    let o = env.s.ask("catch(throw(c12_b(X, Y, X)), c12_b(A, B, C), true)", "[X,Y,A,B,C]");
    let want = list(vec![T::Var(0), T::Var(1), T::Var(2), T::Var(3), T::Var(2)]);
    if !matches!(&o, Outcome::Sols(v) if v.len() == 1 && v[0].eq_struct(&want)) {
        return Err(fail("catch-throw", &o));
    }
    let o = env.s.ask("vp_log_reset, setup_call_cleanup(true, c12_n3(X), vp_tok(0)), vp_tok(1, X)", "X");
    if !matches!(&o, Outcome::Sols(v) if v.len() == 3 && v[0] == atom("a") && v[2] == atom("c")) {
        return Err(fail("setup_call_cleanup", &o));
    }
    let o = env.s.ask("vp_log_get(L)", "L");
    let ok = match decode_log(&o) {
        Ok(l) => {
            let ks: Vec<i64> = l.iter().map(|e| e.k).collect();
            // the cleanup runs once, not before the last solution has been delivered to the goal's exit
            ks.iter().filter(|k| **k == 0).count() == 1 && ks.iter().filter(|k| **k == 1).count() == 3 && ks.iter().position(|k| *k == 0).unwrap() >= 2
        }
        Err(_) => false,
    };
    if !ok {
        return Err(fail("setup_call_cleanup-log", &o));
    }
    let o = env.s.ask("findall(X-Y, (c12_n2(X), c12_n3(Y)), L)", "L");
    if !matches!(&o, Outcome::Sols(v) if v.len() == 1 && matches!(&v[0], T::PList(i, _) if i.len() == 6)) {
        return Err(fail("findall", &o));
    }
    Ok(())
}

fn nested_cleanups_with_cut(t: &T) -> bool {
    fn walk(t: &T, cleanups: &mut usize, cuts: &mut usize) {
        match t {
            T::Atom(a) if a == "!" => *cuts += 1,
            T::Cmp(n, args) => {
                match (n.as_str(), args.len()) {
                    ("setup_call_cleanup", 3) | ("call_cleanup", 2) => *cleanups += 1,
                    ("once", 1) | ("->", 2) | ("\\+", 1) | ("forall", 2) | ("findall", 3) => *cuts += 1,
                    _ => {}
                }
                for a in args {
                    walk(a, cleanups, cuts);
                }
            }
            T::PList(items, tail) => {
                for i in items {
                    walk(i, cleanups, cuts);
                }
                walk(tail, cleanups, cuts);
            }
            _ => {}
        }
    }
    let (mut c, mut k) = (0, 0);
    walk(t, &mut c, &mut k);
    c >= 2 && k >= 1
}

pub fn check(env: &mut Env, case: &Case) -> Verdict {
    let n = env.n;
    env.n += 1;
    let tmpl = template();
    let mut it = Interp::new(helpers());
    let expected = it.solve(&case.goal, &tmpl, &ref_limits());
    match &expected {
        RefOutcome::Limit => return Verdict::Discard("reference-limit".into()),
        RefOutcome::Unsupported(_) => return Verdict::Discard("reference-unsupported".into()),
        _ => {}
    }
    let rlog = it.log.clone();
    let acts = it.scc.clone();
    let sites = cleanup_sites(&case.goal);
    let before = book(&env.s);
    let mut lenient = false;

    // a goal with the shape of the open known finding gets a qualified signature (the generator
    // does not produce the shape; the witness replay has it)
    // ... and so does any goal in which two or more cleanup activations are nested around a construct
    // that cuts (once/1, ->, \+, !): the reference interpreter's flag only recognises the narrowest
    // form, but the outer cleanup is run early (and forgotten) in all of them -- same root cause
    // ('$get_scc_cleaner' popping the outer handler on the cut path)
    let shape_cut = it.cut_directly_above_mark || nested_cleanups_with_cut(&case.goal);
    let shape_failed = it.failed_cleanup_before_outer;
    let qualify = |v: Verdict| match v {
        // known finding: a failing cleanup ends the loop that runs the cleanups of one cut; the outer
        // handlers stay registered and run later with dangling references (any symptom, incl. panics)
        Verdict::Fail { signature, detail } if shape_failed => Verdict::fail("cleanup-loop-stopped:failing-cleanup-before-outer-cleanup", format!("({signature})\n{detail}")),
        // known finding: a cut that removes an inner activation directly above an outer activation's
        // choice point also runs (and forgets) the outer cleanup
        Verdict::Fail { signature, detail } if shape_cut && signature.starts_with("cleanup-") => Verdict::fail("cleanup-misplaced:cut-directly-above-outer-activation", format!("({signature})\n{detail}")),
        Verdict::Fail { signature, detail } if ill_formed_goal_argument(&case.goal) && !signature.starts_with("panic") => {
            let (a, b) = signature.split_once('@').map(|(a, b)| (a.to_string(), format!("@{b}"))).unwrap_or((signature.clone(), String::new()));
            Verdict::fail(format!("{a}+ill-formed-goal-argument{b}"), detail)
        }
        other => other,
    };
    // path 1: the goal term is meta-called
    let gt = goal_text(&case.goal);
    let tt = tmpl.text();
    if let Err(v) = run_and_judge(env, "query", &gt, &tt, &expected, &rlog, &acts, &sites, &mut lenient) {
        return qualify(v);
    }
    // path 2: the goal is the body of a consulted clause
    let name = format!("c12_m{n}");
    let head = T::Cmp(name.clone(), (0..NCTX).map(T::Var).collect());
    let text = clause_text(&Clause { head: head.clone(), body: case.goal.clone() });
    match load(&mut env.s, &text, &format!("c12_l{n}")) {
        Ok(()) => {}
        Err(LoadErr::Panic(m)) => return Verdict::fail(panic_sig(&m), format!("consult panicked: {m}\n{text}")),
        Err(LoadErr::Rejected(m)) => return Verdict::fail("load-rejected:", format!("valid program text was not loaded ({m})\n{text}")),
    }
    if let Err(v) = run_and_judge(env, "clause", &head.text(), &tt, &expected, &rlog, &acts, &sites, &mut lenient) {
        return qualify(match v {
            Verdict::Fail { signature, detail } => Verdict::fail(signature, format!("{detail}\nclause: {text}")),
            other => other,
        });
    }
    if let Err(v) = battery(env, &before) {
        return qualify(match v {
            Verdict::Fail { signature, detail } => Verdict::fail(signature, format!("{detail}\nafter ?- {gt}.")),
            other => other,
        });
    }

    // classes / non-trivial rule
    let mut classes: Vec<String> = vec![];
    match &expected {
        RefOutcome::Sols(v) => classes.push(match v.len() {
            0 => "outcome:fails".into(),
            1 => "outcome:1-answer".into(),
            _ => "outcome:>=2-answers".into(),
        }),
        RefOutcome::Ex(b) => classes.push(if matches!(b, T::Cmp(n, a) if n == "error" && a.len() == 2) { "outcome:uncaught-error-term".into() } else { "outcome:uncaught-ball".into() }),
        _ => {}
    }
    for a in &acts {
        let c = format!("cleanup-by:{}", a.how);
        if !classes.contains(&c) {
            classes.push(c);
        }
        if a.nondet_exit && !classes.contains(&"cleanup:goal-exited-nondeterministically".to_string()) {
            classes.push("cleanup:goal-exited-nondeterministically".into());
        }
    }
    if it.caught > 0 {
        classes.push("ball-caught".into());
    }
    if it.passed_catchers > 0 {
        classes.push("ball-passed-a-non-matching-catcher".into());
    }
    if it.max_unwound >= 2 {
        classes.push("exception-crossed>=2-choice-points".into());
    }
    classes.push(if lenient { "log:equal-up-to-cleanup-timing".into() } else { "log:equal".into() });
    classes.push(match rlog.len() {
        0 => "tokens:0".into(),
        1..=3 => "tokens:1-3".into(),
        4..=9 => "tokens:4-9".into(),
        _ => "tokens:>=10".into(),
    });
    if shape_cut {
        classes.push("shape:cut-directly-above-outer-activation".into());
    }
    if shape_failed {
        classes.push("shape:failing-cleanup-before-outer-cleanup".into());
    }
    if lenient {
        LENIENT_ONLY.fetch_add(1, Ordering::Relaxed);
    } else {
        STRICT_EQUAL.fetch_add(1, Ordering::Relaxed);
    }
    TOKENS.fetch_add(rlog.len() as u64, Ordering::Relaxed);
    ACTIVATIONS.fetch_add(acts.len() as u64, Ordering::Relaxed);
    let nontrivial = it.max_unwound >= 2 || acts.iter().any(|a| a.how == "cut" || a.how == "exception");
    let cl: Vec<&str> = classes.iter().map(|s| s.as_str()).collect();
    Verdict::pass(nontrivial, &cl)
}

pub struct C12;

impl Prop for C12 {
    fn id(&self) -> &'static str {
        "C12"
    }
    fn rule(&self) -> &'static str {
        "one goal per case: nesting (depth <= 5) of catch/3, throw/1, setup_call_cleanup/3, call_cleanup/2, cut, ;, ->, \\+, once/1, call/1, findall/3, forall/2 over 4 context variables; balls: atoms, small/big integers, floats, strings, lists, partial lists, compounds sharing context variables, error/2 terms, unbound; builtin errors (type, instantiation, evaluation, existence); throws from helper predicates through 1-4 frames with/without choice points; catchers that match, do not match, share variables with the context or bind them; every recovery / setup / cleanup logs a token (with a copy of a term) to a bb_put log; run as a meta-called query and as a consulted clause body, answers + uncaught ball + log compared with the reference interpreter (cleanup tokens: exactly once per activation, inside the activation's window), then a follow-up battery and machine bookkeeping check; non-trivial = an exception unwinds >= 2 choice points of the reference, or a cleanup is triggered by a cut or by an exception; distinct by case encoding"
    }
    fn assumptions(&self) -> Vec<String> {
        vec![
            "the reference interpreter shared/refint.rs incl. its setup_call_cleanup/3 model (unit-tested: refint_setup_call_cleanup, refint_catch_throw)".into(),
            "bb_put/bb_get keep the token log across backtracking and exceptions (the log transport); vp_enc transport of support.pl".into(),
            "the moment at which an implementation detects that a goal has exited deterministically is not specified: a cleanup may run anywhere between the goal's last exit and the point where every choice point above the activation is gone".into(),
        ]
    }
    fn run_shard(&self, cfg: &ShardCfg) -> ShardResult {
        let mut d = Driver::new(cfg, "C12");
        let n = cfg.share(cfg.tier.pick(15_000, 800_000));
        d.run("goal", 0, n, 150, case_strategy(), &mk_env, &check);
        d.res.extra.insert("cases_whole_log_equal".into(), json!(STRICT_EQUAL.load(Ordering::Relaxed)));
        d.res.extra.insert("cases_equal_up_to_cleanup_timing".into(), json!(LENIENT_ONLY.load(Ordering::Relaxed)));
        d.res.extra.insert("tokens_compared".into(), json!(TOKENS.load(Ordering::Relaxed)));
        d.res.extra.insert("cleanup_activations".into(), json!(ACTIVATIONS.load(Ordering::Relaxed)));
        d.finish()
    }
    fn replay(&self, _kind: &str, case: &Value) -> Verdict {
        replay_case::<Case, Env>(case, &mk_env, &check)
    }
    /// triage: `vcheck child C12 goal file.json` with {"goal": "text"} or a replay file prints both sides
    fn child(&self, mode: &str, input: &Value) -> i32 {
        if mode == "mkcase" {
            // {"goal": "text"} -> the replay-file JSON of that goal
            let goal = crate::shared::plparse::parse_term(input["goal"].as_str().unwrap_or("true")).expect("goal text");
            let case = Case { goal };
            let (sig, detail) = match check(&mut mk_env(), &case) {
                Verdict::Fail { signature, detail } => (signature, detail),
                Verdict::Pass { .. } => ("pass".into(), String::new()),
                Verdict::Discard(w) => (format!("discard {w}"), String::new()),
            };
            println!("{}", serde_json::to_string_pretty(&json!({"property": "C12", "kind": "goal", "signature": sig, "detail": detail, "case": case})).unwrap());
            return 0;
        }
        let goal: T = if let Some(g) = input.get("goal").and_then(|g| g.as_str()) {
            crate::shared::plparse::parse_term(g).expect("goal text")
        } else {
            let cv = if input.get("case").is_some() { input["case"].clone() } else { input.clone() };
            serde_json::from_value::<Case>(cv).expect("case").goal
        };
        let tmpl = template();
        let mut it = Interp::new(helpers());
        let expected = it.solve(&goal, &tmpl, &ref_limits());
        println!("?- {}.", goal_text(&goal));
        println!("reference: {}\n   log: {}\n   activations: {:?}", expected.short(), show_ref(&it.log), it.scc);
        let mut env = mk_env();
        let sites = cleanup_sites(&goal);
        env.s.ask_once("vp_log_reset", "[]");
        let got = env.s.ask(&goal_text(&goal), &tmpl.text());
        let lo = env.s.ask("vp_log_get(L)", "L");
        println!("scryer:    {}\n   log: {}", got.short(), decode_log(&lo).map(|l| show_obs(&l, &sites)).unwrap_or_else(|e| e));
        0
    }
}
