//! C09 — Dynamic predicates follow the logical update view.
use crate::engine::*;
use crate::gen::pick;
use crate::session::{Outcome, Session};
use crate::term::{atom, cmp, int, list, nil, T};
use proptest::prelude::*;
use serde::{Deserialize, Serialize};
use serde_json::Value;

pub const C09_PL: &str = include_str!("../../prolog/c09.pl");

/// key index into KEYS, or None = unbound (`_`)
pub type Key = Option<u8>;

#[derive(Clone, Debug, Serialize, Deserialize)]
pub enum Step {
    Az(Key),
    Aa(Key),
    /// retract first visible match
    Rt(Key),
    /// retract the n-th live clause (selected by its id, i.e. through the second argument):
    /// the way to remove a clause from the middle of an index bucket
    RtNth(u8),
    /// retractall
    Ra(Key),
    /// probe through a call / through clause/2
    Pr(Key),
    Prc(Key),
    /// open a cursor: kind 0 = call, 1 = clause/2, 2 = retract/1; after the i-th solution run subs[i-1]
    /// while the cursor's choice point is alive; after the last sub-history either cut or exhaust
    Cur { kind: u8, pat: Key, subs: Vec<Vec<Step>>, cut: bool },
}

fn keys() -> Vec<T> {
    vec![atom("a"), atom("b"), int(1), int(2), cmp("f", vec![atom("x")]), cmp("f", vec![atom("y")]), T::Str("ab".into()), list(vec![int(1)]), nil()]
}

fn key_text(k: &Key) -> String {
    match k {
        None => "_".into(),
        Some(i) => keys()[*i as usize % keys().len()].text(),
    }
}

fn key_term(k: &Key) -> Option<T> {
    k.map(|i| keys()[i as usize % keys().len()].norm())
}

fn matches(pat: &Key, key: &Key) -> bool {
    match (key_term(pat), key_term(key)) {
        (None, _) | (_, None) => true,
        (Some(a), Some(b)) => a.eq_struct(&b),
    }
}

/// Which features a history may use: bit 0 unbound clause keys, 1 asserta, 2 retract/1 cursors,
/// 3 clause/2 cursors. Chosen per history so that a large share of the histories stays inside the
/// core region (no defect family, see Model::family).
fn bound_key() -> BoxedStrategy<Key> {
    any::<u16>().prop_map(|r| Some(pick(&[0u8, 0, 0, 1, 1, 2, 2, 3, 4, 5, 6, 7, 8], r))).boxed()
}

fn clause_key_strategy(mask: u8) -> BoxedStrategy<Key> {
    if mask & 1 != 0 {
        key_strategy()
    } else {
        bound_key()
    }
}

fn key_strategy() -> BoxedStrategy<Key> {
    // few distinct keys so that patterns hit; unbound patterns are common
    prop_oneof![3 => Just(None), 8 => bound_key()].boxed()
}

fn simple_step(mask: u8) -> BoxedStrategy<Step> {
    let aa = mask & 2 != 0;
    prop_oneof![
        5 => clause_key_strategy(mask).prop_map(Step::Az),
        2 => clause_key_strategy(mask).prop_map(move |k| if aa { Step::Aa(k) } else { Step::Az(k) }),
        3 => key_strategy().prop_map(Step::Rt),
        2 => any::<u8>().prop_map(Step::RtNth),
        1 => key_strategy().prop_map(Step::Ra),
        2 => key_strategy().prop_map(Step::Pr),
        1 => key_strategy().prop_map(Step::Prc),
    ]
    .boxed()
}

fn steps_with(mask: u8) -> BoxedStrategy<Vec<Step>> {
    let leaf = simple_step(mask);
    let step = leaf.prop_recursive(3, 40, 6, move |inner| {
        prop_oneof![
            3 => simple_step(mask),
            2 => (0u8..3, key_strategy(), proptest::collection::vec(proptest::collection::vec(inner.clone(), 0..=3), 0..=3), any::<bool>())
                .prop_map(move |(kind, pat, subs, cut)| {
                    let kind = if kind == 2 && mask & 4 == 0 { 0 } else if kind == 1 && mask & 8 == 0 { 0 } else { kind };
                    Step::Cur { kind, pat, subs, cut }
                }),
        ]
    });
    // a prefix of asserts makes cursors non-empty
    (proptest::collection::vec(clause_key_strategy(mask).prop_map(Step::Az), 0..=5), proptest::collection::vec(step, 1..=10))
        .prop_map(|(mut pre, rest)| {
            pre.extend(rest);
            pre
        })
        .boxed()
}

fn steps_strategy() -> BoxedStrategy<Vec<Step>> {
    // per-history feature mask: ~45% of the histories use neither unbound keys nor clause/2 cursors
    (0u8..100)
        .prop_flat_map(|r| {
            let mask: u8 = match r {
                0..=34 => 4,        // call + retract cursors only
                35..=59 => 0,       // call cursors only
                60..=79 => 2 | 4,   // + asserta
                80..=87 => 8 | 4,   // + clause/2 cursors
                88..=94 => 1 | 4,   // + unbound keys
                _ => 15,            // everything
            };
            steps_with(mask)
        })
        .boxed()
}

// ---------------------------------------------------------------------------------------------
// rendering with static ids (pre-order numbering of assert steps and cursors)

struct Ids {
    next_clause: u32,
    next_cursor: u32,
}

fn render(steps: &[Step], ids: &mut Ids, out: &mut String) {
    out.push('[');
    for (i, s) in steps.iter().enumerate() {
        if i > 0 {
            out.push(',');
        }
        match s {
            Step::Az(k) => {
                out.push_str(&format!("az({},{})", key_text(k), ids.next_clause));
                ids.next_clause += 1;
            }
            Step::Aa(k) => {
                out.push_str(&format!("aa({},{})", key_text(k), ids.next_clause));
                ids.next_clause += 1;
            }
            Step::Rt(k) => out.push_str(&format!("rt({})", key_text(k))),
            Step::RtNth(n) => out.push_str(&format!("rtn({n})")),
            Step::Ra(k) => out.push_str(&format!("ra({})", key_text(k))),
            Step::Pr(k) => out.push_str(&format!("pr({})", key_text(k))),
            Step::Prc(k) => out.push_str(&format!("prc({})", key_text(k))),
            Step::Cur { kind, pat, subs, cut } => {
                let id = ids.next_cursor;
                ids.next_cursor += 1;
                let kn = ["call", "clause", "retract"][*kind as usize % 3];
                out.push_str(&format!("cur(c{id},{kn},{},[", key_text(pat)));
                for (j, h) in subs.iter().enumerate() {
                    if j > 0 {
                        out.push(',');
                    }
                    render(h, ids, out);
                }
                out.push_str(&format!("],{})", if *cut { "true" } else { "false" }));
            }
        }
    }
    out.push(']');
}

// ---------------------------------------------------------------------------------------------
// model

#[derive(Clone)]
struct Cl {
    key: Key,
    id: u32,
    alive: bool,
}

struct Model {
    db: Vec<Cl>,
    log: Vec<T>,
    ids: Ids,
    ambiguous: bool,
    // classification
    assert_under_cursor: bool,
    retract_under_cursor: bool,
    retract_of_pending: bool,
    open_snapshots: Vec<Vec<u32>>, // ids still to be delivered by each open cursor
    open_kinds: Vec<u8>,
    /// kinds of cursors that were open while an update happened (bit 0 call, 1 clause/2, 2 retract/1)
    kinds_mask: u8,
    /// asserta was used anywhere before / under a cursor
    used_asserta: bool,
    /// a clause with an unbound key was asserted
    used_var_key: bool,
    /// a clause was retracted while an earlier live clause had the same key
    middle_retract: bool,
    /// ... and a clause was asserted after that
    assert_after_middle_retract: bool,
}

fn ids_list(v: &[u32]) -> T {
    if v.is_empty() {
        nil()
    } else {
        list(v.iter().map(|i| int(*i as i64)).collect())
    }
}

impl Model {
    fn kill(&mut self, id: u32) {
        for c in self.db.iter_mut() {
            if c.id == id {
                c.alive = false;
            }
        }
        if !self.open_snapshots.is_empty() {
            for kd in &self.open_kinds {
                self.kinds_mask |= 1 << (kd % 3);
            }
            self.retract_under_cursor = true;
            if self.open_snapshots.iter().any(|s| s.contains(&id)) {
                self.retract_of_pending = true;
            }
        }
    }

    fn visible(&self, pat: &Key) -> Vec<u32> {
        self.db.iter().filter(|c| c.alive && matches(pat, &c.key)).map(|c| c.id).collect()
    }

    fn is_alive(&self, id: u32) -> bool {
        self.db.iter().any(|c| c.id == id && c.alive)
    }

    fn run(&mut self, steps: &[Step]) {
        for s in steps {
            match s {
                Step::Az(k) | Step::Aa(k) => {
                    let id = self.ids.next_clause;
                    self.ids.next_clause += 1;
                    let cl = Cl { key: *k, id, alive: true };
                    if matches!(s, Step::Aa(_)) {
                        self.db.insert(0, cl);
                    } else {
                        self.db.push(cl);
                    }
                    if matches!(s, Step::Aa(_)) {
                        self.used_asserta = true;
                    }
                    if k.is_none() {
                        self.used_var_key = true;
                    }
                    if self.middle_retract {
                        self.assert_after_middle_retract = true;
                    }
                    if !self.open_snapshots.is_empty() {
                        self.assert_under_cursor = true;
                        for kd in &self.open_kinds {
                            self.kinds_mask |= 1 << (kd % 3);
                        }
                    }
                }
                Step::RtNth(n) => {
                    let live: Vec<u32> = self.db.iter().filter(|c| c.alive).map(|c| c.id).collect();
                    if live.is_empty() {
                        self.log.push(cmp("rt", vec![atom("none")]));
                    } else {
                        let id = live[(*n as usize * live.len()) >> 8];
                        // is it in the middle of its index bucket (an earlier live clause has the same key)?
                        let key = self.db.iter().find(|c| c.id == id).map(|c| c.key).unwrap();
                        let pos = self.db.iter().position(|c| c.id == id).unwrap();
                        let same = |c: &Cl| c.alive && c.key.is_some() && c.key == key;
                        // not the first clause of its index bucket (with a successor the damage shows at
                        // once, without one after the next assertz of that key)
                        if self.db[..pos].iter().any(same) {
                            self.middle_retract = true;
                        }
                        self.kill(id);
                        self.log.push(cmp("rt", vec![int(id as i64)]));
                    }
                }
                Step::Rt(k) => match self.visible(k).first().cloned() {
                    Some(id) => {
                        self.kill(id);
                        self.log.push(cmp("rt", vec![int(id as i64)]));
                    }
                    None => self.log.push(cmp("rt", vec![atom("none")])),
                },
                Step::Ra(k) => {
                    for id in self.visible(k) {
                        self.kill(id);
                    }
                }
                Step::Pr(k) | Step::Prc(k) => {
                    let v = self.visible(k);
                    self.log.push(cmp("pr", vec![ids_list(&v)]));
                }
                Step::Cur { kind, pat, subs, cut } => {
                    let cid = self.ids.next_cursor;
                    self.ids.next_cursor += 1;
                    // ids of nested steps are numbered in pre-order of the *text*, whether executed or not:
                    // remember where the numbering stands after the whole cursor term
                    let mut after = Ids { next_clause: self.ids.next_clause, next_cursor: self.ids.next_cursor };
                    let mut sub_starts: Vec<(u32, u32)> = vec![];
                    for h in subs {
                        sub_starts.push((after.next_clause, after.next_cursor));
                        count_ids(h, &mut after);
                    }
                    let cname = atom(&format!("c{cid}"));
                    // the cursor sees exactly the clauses alive now, in order
                    let snapshot = self.visible(pat);
                    self.open_snapshots.push(snapshot.clone());
                    self.open_kinds.push(*kind);
                    let mut n = 0usize;
                    let mut was_cut = false;
                    for (pos, id) in snapshot.iter().enumerate() {
                        if let Some(top) = self.open_snapshots.last_mut() {
                            // clauses this cursor still depends on: the ones it has not delivered yet and,
                            // for call / clause cursors, the one it currently stands on (a retract/1
                            // cursor removes that one itself)
                            let from = if *kind % 3 == 2 { pos + 1 } else { pos };
                            *top = snapshot[from..].to_vec();
                        }
                        if *kind % 3 == 2 {
                            // retract/1 as a generator: a clause already removed by someone else is
                            // implementation dependent (ISO 8.9.3 does not say) -> case discarded
                            if !self.is_alive(*id) {
                                self.ambiguous = true;
                                break;
                            }
                            self.kill(*id);
                        }
                        n += 1;
                        self.log.push(cmp("sol", vec![cname.clone(), int(*id as i64)]));
                        if n <= subs.len() {
                            let (c0, k0) = sub_starts[n - 1];
                            let saved = Ids { next_clause: self.ids.next_clause, next_cursor: self.ids.next_cursor };
                            self.ids = Ids { next_clause: c0, next_cursor: k0 };
                            let h = subs[n - 1].clone();
                            self.run(&h);
                            self.ids = saved;
                            if self.ambiguous {
                                break;
                            }
                        }
                        if *cut && n >= subs.len() {
                            was_cut = true;
                            break;
                        }
                    }
                    self.open_snapshots.pop();
                    self.open_kinds.pop();
                    self.log.push(cmp(if was_cut { "cut" } else { "end" }, vec![cname]));
                    self.ids = after;
                }
            }
            if self.ambiguous {
                return;
            }
        }
    }
}

impl Model {
    /// context class of a history: which kinds of updates happened under which kinds of open cursors
    /// Failure family of a history. The four "defect families" are regions of the history space in
    /// which the current tree is known to violate the property (see known/C09.json); everything
    /// else is the core region, where any failure is a new violation.
    fn family(&self) -> String {
        let clause_cursor = self.kinds_mask & 2 != 0;
        if self.used_var_key {
            "family-unbound-key".into()
        } else if self.middle_retract {
            "family-retract-from-middle-of-bucket".into()
        } else if clause_cursor {
            "family-clause2-cursor".into()
        } else if self.retract_of_pending || self.retract_under_cursor {
            // any retract while a cursor on the predicate is open (a retract/1 cursor's own removals
            // included): pending or current clauses are lost, and even retracts of clauses no cursor
            // depends on have been seen to make later calls loop
            "family-retract-of-pending-clause".into()
        } else if self.used_asserta {
            // any asserta/1 on the indexed predicate
            "family-asserta".into()
        } else {
            format!("core-{}", self.ctx())
        }
    }

    /// Signature of a failure: inside a defect family the family alone (wrong log, panic, hang and
    /// crash are manifestations of the same broken index maintenance); in the core region the
    /// context plus the failure class.
    fn sig(&self, class: &str) -> String {
        let f = self.family();
        if f.starts_with("family-") {
            f
        } else {
            format!("{f}:{class}")
        }
    }

    fn ctx(&self) -> String {
        let base =if self.retract_of_pending { "retract-of-pending" } else if self.retract_under_cursor { "retract-under-cursor" } else if self.assert_under_cursor { "assert-under-cursor" } else { "no-open-cursor" };
        let mut s = base.to_string();
        if self.kinds_mask != 0 {
            s.push('@');
            let names = ["call", "clause", "retract"];
            let v: Vec<&str> = (0..3).filter(|i| self.kinds_mask & (1 << i) != 0).map(|i| names[i]).collect();
            s.push_str(&v.join("+"));
        }
        if self.used_asserta {
            s.push_str("+asserta");
        }
        if self.used_var_key {
            s.push_str("+varkey");
        }
        s
    }
}

fn count_ids(steps: &[Step], ids: &mut Ids) {
    for s in steps {
        match s {
            Step::Az(_) | Step::Aa(_) => ids.next_clause += 1,
            Step::Cur { subs, .. } => {
                ids.next_cursor += 1;
                for h in subs {
                    count_ids(h, ids);
                }
            }
            _ => {}
        }
    }
}

fn size(steps: &[Step]) -> usize {
    steps
        .iter()
        .map(|s| match s {
            Step::Cur { subs, .. } => 1 + subs.iter().map(|h| size(h)).sum::<usize>(),
            _ => 1,
        })
        .sum()
}

pub struct Env {
    pub s: Session,
}

pub fn mk_env() -> Env {
    let mut s = Session::new(&[]);
    if !s.consult(C09_PL, "c09") {
        panic!("c09.pl failed to load");
    }
    Env { s }
}

pub fn check(env: &mut Env, steps: &Vec<Step>) -> Verdict {
    if size(steps) > 60 {
        return Verdict::Discard("too-large".into());
    }
    let mut text = String::new();
    render(steps, &mut Ids { next_clause: 0, next_cursor: 0 }, &mut text);
    let mut m = Model { db: vec![], log: vec![], ids: Ids { next_clause: 0, next_cursor: 0 }, ambiguous: false, assert_under_cursor: false, retract_under_cursor: false, retract_of_pending: false, open_snapshots: vec![], open_kinds: vec![], kinds_mask: 0, used_asserta: false, used_var_key: false, middle_retract: false, assert_after_middle_retract: false };
    m.run(steps);
    if m.ambiguous {
        return Verdict::Discard("retract-cursor-meets-already-retracted-clause".into());
    }
    let fin: Vec<u32> = m.db.iter().filter(|c| c.alive).map(|c| c.id).collect();
    m.log.push(cmp("final", vec![ids_list(&fin)]));
    let expected = list(m.log.clone()).norm();
    // a history of <= 60 steps needs a few thousand inferences; 3 million is > 100x that
    let o = env.s.ask_lim(&format!("c09_run({text}, Log)"), "Log", 3_000_000);
    if matches!(o, Outcome::Limit) {
        return Verdict::fail(m.sig("hang"), format!("c09_run({text}, Log) exceeded 3000000 inferences (expected log {})", expected.text()));
    }
    let fam = m.family();
    let mut classes = vec![fam.as_str()];
    if m.assert_under_cursor {
        classes.push("assert-under-cursor");
    }
    if m.retract_under_cursor {
        classes.push("retract-under-cursor");
    }
    if m.retract_of_pending {
        classes.push("retract-of-pending-clause");
    }
    match &o {
        Outcome::Sols(v) if v.len() == 1 && v[0].eq_struct(&expected) => Verdict::pass(m.assert_under_cursor || m.retract_under_cursor, &classes),
        Outcome::Panic(p) => Verdict::fail(m.sig("panic"), format!("c09_run({text}) panicked: {p}")),
        Outcome::Harness(h) => Verdict::Discard(format!("harness:{}", h.chars().take(40).collect::<String>())),
        other => {
            // classify: the first differing log entry
            let got = match other {
                Outcome::Sols(v) if v.len() == 1 => match &v[0] {
                    T::PList(items, _) => items.clone(),
                    _ => vec![],
                },
                _ => vec![],
            };
            let mut sig = m.sig("wrong-log");
            for (i, e) in m.log.iter().enumerate() {
                let en = e.norm();
                match got.get(i) {
                    Some(g) if g.eq_struct(&en) => continue,
                    g => {
                        let ename = match &en {
                            T::Cmp(n, _) => n.clone(),
                            _ => "?".into(),
                        };
                        let gname = match g {
                            Some(T::Cmp(n, _)) => n.clone(),
                            Some(_) => "?".into(),
                            None => "missing".into(),
                        };
                        let _ = (&ename, &gname);
                        sig = m.sig("wrong-log");
                        break;
                    }
                }
            }
            Verdict::fail(sig, format!("c09_run({text}, Log) gave {} expected {}", other.short(), expected.text()))
        }
    }
}

pub struct C09;

impl Prop for C09 {
    fn id(&self) -> &'static str {
        "C09"
    }
    fn rule(&self) -> &'static str {
        "tree-shaped update histories (5-60 steps, nesting <= 3) over a dynamic predicate with an indexable first argument (atoms, integers, structures, strings, lists, [] and unbound keys): assertz, asserta, retract (first match), retractall, probes through call and clause/2, and cursors (call / clause/2 / retract/1 as generator) after whose i-th solution a sub-history runs while the choice point is alive, ended by cut or exhaustion; interpreted by a failure-driven Prolog loop and by a Rust model with call-time snapshots; the full event log (solutions delivered per cursor, clause removed per retract, probes, final scan) must be identical; non-trivial = an assert or retract happened while a cursor was open; distinct by case encoding"
    }
    fn assumptions(&self) -> Vec<String> {
        vec!["histories in which a retract/1 cursor reaches a clause that was already retracted meanwhile are discarded (ISO leaves that outcome open)".into(), "bb_put/bb_get counters and a separate dynamic log predicate are used by the interpreter".into()]
    }
    fn run_shard(&self, cfg: &ShardCfg) -> ShardResult {
        let mut d = Driver::new(cfg, "C09");
        let n = cfg.share(cfg.tier.pick(4_000, 400_000));
        d.run("history", 0, n, 1500, steps_strategy(), &mk_env, &check);
        d.finish()
    }
    fn replay(&self, _kind: &str, case: &Value) -> Verdict {
        replay_case::<Vec<Step>, Env>(case, &mk_env, &check)
    }
    fn case_timeout_s(&self, _tier: Tier) -> u64 {
        // a history takes milliseconds
        8
    }
    fn classify_stuck(&self, _kind: &str, case: &Value, base: &str) -> String {
        let Ok(steps) = serde_json::from_value::<Vec<Step>>(case.clone()) else { return base.to_string() };
        let mut m = Model { db: vec![], log: vec![], ids: Ids { next_clause: 0, next_cursor: 0 }, ambiguous: false, assert_under_cursor: false, retract_under_cursor: false, retract_of_pending: false, open_snapshots: vec![], open_kinds: vec![], kinds_mask: 0, used_asserta: false, used_var_key: false, middle_retract: false, assert_after_middle_retract: false };
        m.run(&steps);
        m.sig(if base == "hang" { "hang" } else { "crash" })
    }
}
