//! C14 — Sorting builtins and collection libraries match their models.
//!
//! Three case kinds:
//!  * `list`  — one call of one predicate of lists / pairs / ordsets (or sort/2, keysort/2) in one
//!              instantiation mode, compared with a plain Rust model (Vec operations under
//!              `term::std_cmp`);
//!  * `assoc` — a history of 5..60 operations on a library(assoc) AVL tree, observed after every
//!              step (result, tree term, is_assoc/1, assoc_to_list/keys/values) and compared with
//!              a sorted-Vec map; the returned tree term is checked independently for order and
//!              AVL balance.
//! Accepted freedom (where the documentation is silent): the order of solutions of append/3,
//! member/2, select/3, nth0/nth1, permutation/2 is not asserted (solutions are compared as
//! multisets); gen_assoc/3 is documented to enumerate in ascending key order (sequence).
//! The relative order of distinct variables is whatever compare/3 says (observed per case and
//! fed into the model); del_min/del_max on the empty assoc are not judged (doc and code differ).
use crate::engine::*;
use crate::gen::pick;
use crate::num::{ipow2, rat_norm};
use crate::session::{Outcome, Session};
use crate::term::{atom, cmp, int, list, nil, std_cmp, T};
use dashu::integer::IBig;
use proptest::prelude::*;
use serde::{Deserialize, Serialize};
use serde_json::Value;
use std::cmp::Ordering;

const C14_PL: &str = include_str!("../../prolog/c14.pl");
const NVARS: u32 = 3;

// ---------------------------------------------------------------------------------------------
// small helpers over T

fn teq(a: &T, b: &T) -> bool {
    std_cmp(a, b) == Ordering::Equal
}
fn pair(k: T, v: T) -> T {
    cmp("-", vec![k, v])
}
fn unpair(t: &T) -> Option<(T, T)> {
    match t {
        T::Cmp(n, a) if n == "-" && a.len() == 2 => Some((a[0].clone(), a[1].clone())),
        _ => None,
    }
}
fn yes() -> T {
    atom("yes")
}
fn items_of(t: &T) -> Option<Vec<T>> {
    match t.norm() {
        a if a.is_nil() => Some(vec![]),
        T::PList(items, tail) if tail.is_nil() => Some(items),
        _ => None,
    }
}
fn sort_dedup(v: &[T]) -> Vec<T> {
    let mut s = v.to_vec();
    s.sort_by(std_cmp);
    s.dedup_by(|a, b| teq(a, b));
    s
}
fn contains(v: &[T], e: &T) -> bool {
    v.iter().any(|x| teq(x, e))
}
fn leq(a: &[T], b: &[T]) -> bool {
    a.len() == b.len() && a.iter().zip(b).all(|(x, y)| teq(x, y))
}
fn map_vars(t: &T, f: &dyn Fn(u32) -> u32) -> T {
    match t {
        T::Var(v) => T::Var(f(*v)),
        T::PList(items, tail) => T::PList(items.iter().map(|x| map_vars(x, f)).collect(), Box::new(map_vars(tail, f))),
        T::Cmp(n, args) => T::Cmp(n.clone(), args.iter().map(|x| map_vars(x, f)).collect()),
        o => o.clone(),
    }
}
fn has_rat(t: &T) -> bool {
    match t {
        T::Rat(..) => true,
        T::PList(items, tail) => items.iter().any(has_rat) || has_rat(tail),
        T::Cmp(_, args) => args.iter().any(has_rat),
        _ => false,
    }
}
fn is_char_atom(t: &T) -> bool {
    matches!(t, T::Atom(a) if a.chars().count() == 1)
}
/// Does the reader store this list (given as query text) as a partial string followed by an
/// ordinary list tail? (`as_partial_string` in parser.rs: a run of one-character atoms followed by
/// a non-atom element.) Such lists hit the open finding `sort-rejects-list:char-prefix`.
fn reader_spine_bad(items: &[T]) -> bool {
    if items.is_empty() || !is_char_atom(&items[0]) {
        return false;
    }
    match items.iter().find(|t| !is_char_atom(t)) {
        None => false,
        Some(T::Atom(_)) => false,
        Some(_) => true,
    }
}
fn scale(n: u16, m: usize) -> usize {
    (n as usize * m) >> 16
}

// ---------------------------------------------------------------------------------------------
// list kind

#[derive(Clone, Debug, Serialize, Deserialize)]
pub struct LCase {
    pub op: String,
    pub xs: Vec<T>,
    pub ys: Vec<T>,
    pub e: T,
    pub n: u16,
    /// inputs built by vp_decs (strings as explicit char lists, atoms from code lists) instead of query text
    pub enc: bool,
}

#[derive(Clone, Copy, Debug, PartialEq)]
enum Cat {
    Mixed,
    MixedV,
    Pairs,
    PairsV,
    Nums,
    Matrix,
    Rows,
    Sets,
    SetsV,
    Perm,
}

const OPS: &[(&str, Cat)] = &[
    ("sort", Cat::MixedV),
    ("sort", Cat::Mixed),
    ("sort_chk", Cat::Mixed),
    ("sort_err", Cat::Mixed),
    ("keysort", Cat::PairsV),
    ("keysort", Cat::Pairs),
    ("keysort_chk", Cat::Pairs),
    ("keysort_err", Cat::Pairs),
    ("length", Cat::Mixed),
    ("length_chk", Cat::Mixed),
    ("length_bad", Cat::Mixed),
    ("length_gen", Cat::Mixed),
    ("length_partial", Cat::Mixed),
    ("append3", Cat::Mixed),
    ("append3_split", Cat::Mixed),
    ("append3_prefix", Cat::Mixed),
    ("append3_suffix", Cat::Mixed),
    ("append2", Cat::Rows),
    ("member_enum", Cat::Mixed),
    ("member_chk", Cat::Mixed),
    ("memberchk", Cat::Mixed),
    ("select_enum", Cat::Mixed),
    ("select_elem", Cat::Mixed),
    ("select_insert", Cat::Mixed),
    ("reverse", Cat::Mixed),
    ("reverse_back", Cat::Mixed),
    ("nth0", Cat::Mixed),
    ("nth1", Cat::Mixed),
    ("nth0_enum", Cat::Mixed),
    ("nth1_enum", Cat::Mixed),
    ("nth0_find", Cat::Mixed),
    ("nth1_find", Cat::Mixed),
    ("nth0_4", Cat::Mixed),
    ("nth1_4", Cat::Mixed),
    ("nth0_4_enum", Cat::Mixed),
    ("nth1_4_enum", Cat::Mixed),
    ("nth0_4_ins", Cat::Mixed),
    ("nth1_4_ins", Cat::Mixed),
    ("list_to_set", Cat::MixedV),
    ("same_length", Cat::Mixed),
    ("same_length_gen", Cat::Mixed),
    ("sum_list", Cat::Nums),
    ("list_max", Cat::Nums),
    ("list_min", Cat::Nums),
    ("transpose", Cat::Matrix),
    ("foldl4", Cat::Mixed),
    ("foldl5", Cat::Mixed),
    ("foldl6", Cat::Mixed),
    ("maplist2", Cat::Mixed),
    ("maplist3", Cat::Mixed),
    ("maplist3_back", Cat::Mixed),
    ("maplist4", Cat::Mixed),
    ("maplist5", Cat::Mixed),
    ("permutation", Cat::Perm),
    ("permutation_back", Cat::Perm),
    ("permutation_chk", Cat::Perm),
    ("pkv_split", Cat::Pairs),
    ("pkv_join", Cat::Mixed),
    ("pairs_keys", Cat::Pairs),
    ("pairs_values", Cat::Pairs),
    ("group_pairs", Cat::PairsV),
    ("group_sorted", Cat::PairsV),
    ("map_list_to_pairs", Cat::Mixed),
    ("ord_union", Cat::SetsV),
    ("ord_intersection", Cat::SetsV),
    ("ord_subtract", Cat::SetsV),
    ("ord_symdiff", Cat::SetsV),
    ("ord_add", Cat::SetsV),
    ("ord_del", Cat::SetsV),
    ("ord_memberchk", Cat::SetsV),
    ("ord_subset", Cat::SetsV),
    ("ord_union4", Cat::SetsV),
    ("ord_intersection4", Cat::SetsV),
    ("ord_union2", Cat::Rows),
    ("ord_intersection2", Cat::Rows),
    ("ord_disjoint", Cat::SetsV),
    ("ord_intersect", Cat::SetsV),
    ("ord_seteq", Cat::SetsV),
    ("ord_selectchk", Cat::Sets),
    ("ord_intersection_nil", Cat::SetsV),
    ("is_ordset", Cat::Mixed),
    ("list_to_ord_set", Cat::MixedV),
];

fn leaf_pool() -> Vec<T> {
    vec![
        int(0),
        int(1),
        int(2),
        int(-1),
        int(3),
        T::Int(ipow2(55)),
        T::Int(ipow2(55) - IBig::ONE),
        T::Int(ipow2(64)),
        T::Int(-ipow2(70)),
        T::Float(0.0),
        T::Float(1.0),
        T::Float(1.5),
        T::Float(-2.5),
        T::Float(1e10),
        T::Rat(IBig::from(1), IBig::from(2)),
        T::Rat(IBig::from(3), IBig::from(2)),
        T::Rat(IBig::from(-1), IBig::from(3)),
        atom("a"),
        atom("b"),
        atom("c"),
        atom("foo"),
        atom("B"),
        atom("é"),
        atom(""),
        atom("a b"),
        atom("ab"),
        atom("{}"),
        nil(),
        T::Str("ab".into()),
        T::Str("a".into()),
        T::Str("abc".into()),
        T::Str("é".into()),
    ]
}

fn elem(vars: bool) -> BoxedStrategy<T> {
    let leaf = any::<u16>().prop_map(|k| pick(&leaf_pool(), k));
    let leaf: BoxedStrategy<T> = if vars { prop_oneof![5 => leaf, 2 => (0u32..NVARS).prop_map(T::Var)].boxed() } else { leaf.boxed() };
    leaf.prop_recursive(2, 6, 3, |inner| {
        prop_oneof![
            4 => (any::<u16>(), proptest::collection::vec(inner.clone(), 1..=2)).prop_map(|(k, args)| T::Cmp(pick(&["f", "g", "-", "t"], k).to_string(), args)),
            2 => proptest::collection::vec(inner.clone(), 1..=3).prop_map(list),
            1 => (proptest::collection::vec(inner.clone(), 1..=2), inner.clone()).prop_map(|(items, tail)| T::PList(items, Box::new(tail)).norm()),
        ]
    })
    .boxed()
}

fn idx_vec(max_long: usize) -> BoxedStrategy<Vec<u16>> {
    prop_oneof![3 => proptest::collection::vec(any::<u16>(), 0..=8), 2 => proptest::collection::vec(any::<u16>(), 0..=max_long)].boxed()
}

fn from_base(base: &[T], idx: &[u16]) -> Vec<T> {
    idx.iter().map(|i| pick(base, *i)).collect()
}

fn mixed_data(vars: bool, base_max: usize, long: usize) -> BoxedStrategy<(Vec<T>, Vec<T>, T)> {
    (proptest::collection::vec(elem(vars), 1..=base_max), idx_vec(long), idx_vec(12), any::<u16>(), elem(false), any::<bool>())
        .prop_map(|(base, i1, i2, ek, fresh, use_fresh)| {
            let xs = from_base(&base, &i1);
            let ys = from_base(&base, &i2);
            let e = if use_fresh { fresh } else { pick(&base, ek) };
            (xs, ys, e)
        })
        .boxed()
}

fn value_strategy() -> BoxedStrategy<T> {
    prop_oneof![4 => (0i64..=3).prop_map(int), 1 => Just(atom("v")), 1 => Just(cmp("w", vec![int(1)])), 1 => Just(T::Str("ab".into()))].boxed()
}

fn pairs_data(vars: bool) -> BoxedStrategy<(Vec<T>, Vec<T>, T)> {
    (proptest::collection::vec(elem(vars), 1..=5), prop_oneof![proptest::collection::vec((any::<u16>(), value_strategy()), 0..=8), proptest::collection::vec((any::<u16>(), value_strategy()), 0..=50)], idx_vec(12), elem(false))
        .prop_map(|(keys, kvs, i2, e)| {
            let xs: Vec<T> = kvs.iter().map(|(k, v)| pair(pick(&keys, *k), v.clone())).collect();
            let ys = from_base(&keys, &i2);
            (xs, ys, e)
        })
        .boxed()
}

fn nums_data() -> BoxedStrategy<(Vec<T>, Vec<T>, T)> {
    let ints = proptest::collection::vec(crate::gen::int_strategy().prop_map(T::Int), 0..=20);
    let fl = prop_oneof![(-1000i32..=1000, 0u8..=8).prop_map(|(n, s)| (n as f64) / (1u32 << s) as f64), Just(0.1), Just(0.3), Just(1e10), Just(-1e-7), Just(2.5)].prop_map(|f: f64| if f == 0.0 { T::Float(0.0) } else { T::Float(f) });
    let floats = proptest::collection::vec(fl.clone(), 0..=20);
    let mixed = proptest::collection::vec(prop_oneof![(-1000i64..=1000).prop_map(int), fl], 0..=20);
    let rats = proptest::collection::vec(prop_oneof![(-50i64..=50).prop_map(int), (-50i64..=50, 2i64..=12).prop_map(|(n, d)| { let (n, d) = rat_norm(IBig::from(n), IBig::from(d)); if d == IBig::ONE { T::Int(n) } else { T::Rat(n, d) } })], 0..=12);
    prop_oneof![3 => ints, 3 => floats, 2 => mixed, 2 => rats].prop_map(|xs| (xs, vec![], nil())).boxed()
}

fn matrix_data() -> BoxedStrategy<(Vec<T>, Vec<T>, T)> {
    (0usize..=5, 0usize..=5)
        .prop_flat_map(|(r, c)| proptest::collection::vec(proptest::collection::vec(elem(false), c..=c), r..=r))
        .prop_map(|rows| (rows.into_iter().map(list).collect(), vec![], nil()))
        .boxed()
}

fn rows_data() -> BoxedStrategy<(Vec<T>, Vec<T>, T)> {
    (proptest::collection::vec(elem(false), 1..=8), proptest::collection::vec(idx_vec(10), 0..=6))
        .prop_map(|(base, rows)| (rows.iter().map(|r| list(from_base(&base, r))).collect(), vec![], nil()))
        .boxed()
}

fn perm_data() -> BoxedStrategy<(Vec<T>, Vec<T>, T)> {
    (proptest::collection::vec(elem(false), 1..=4), proptest::collection::vec((any::<u16>(), any::<u16>()), 0..=5), any::<u8>())
        .prop_map(|(base, iv, perturb)| {
            let xs: Vec<T> = iv.iter().map(|(i, _)| pick(&base, *i)).collect();
            // ys: xs reordered by the random keys, sometimes perturbed
            let mut order: Vec<usize> = (0..xs.len()).collect();
            order.sort_by_key(|i| iv[*i].1);
            let mut ys: Vec<T> = order.iter().map(|i| xs[*i].clone()).collect();
            if perturb % 4 == 0 && !ys.is_empty() {
                ys[0] = pick(&base, perturb as u16 * 256);
            }
            if perturb % 16 == 5 {
                ys.pop();
            }
            (xs, ys, nil())
        })
        .boxed()
}

fn data_for(cat: Cat) -> BoxedStrategy<(Vec<T>, Vec<T>, T)> {
    match cat {
        Cat::Mixed => mixed_data(false, 8, 60),
        Cat::MixedV => mixed_data(true, 8, 60),
        Cat::Pairs => pairs_data(false),
        Cat::PairsV => pairs_data(true),
        Cat::Nums => nums_data(),
        Cat::Matrix => matrix_data(),
        Cat::Rows => rows_data(),
        Cat::Sets => mixed_data(false, 10, 16),
        Cat::SetsV => mixed_data(true, 10, 16),
        Cat::Perm => perm_data(),
    }
}

pub fn lcase_strategy() -> BoxedStrategy<LCase> {
    (any::<u16>(), any::<u16>(), any::<bool>())
        .prop_flat_map(|(k, n, enc)| {
            let (name, cat) = pick(OPS, k);
            data_for(cat).prop_map(move |(xs, ys, e)| {
                let mut c = LCase { op: name.to_string(), xs, ys, e, n, enc };
                // open finding sort-rejects-list:char-prefix is excluded by construction (inputs go
                // through vp_dec, which builds plain list cells) except for a few witnesses
                if !c.enc {
                    if let Some(sp) = spec(&c) {
                        let witness = matches!(c.op.as_str(), "sort" | "ord_union" | "list_to_ord_set") && c.n % 8 == 0;
                        if !bad_spine_lists(&c, &sp).is_empty() && !witness {
                            c.enc = true;
                        }
                    }
                }
                c
            })
        })
        .boxed()
}

/// Expected solutions of the goal (instances of R): exact sequence, or multiset where the
/// documentation does not fix the order of solutions.
#[derive(Clone, Debug)]
enum Exp {
    Seq(Vec<T>),
    Bag(Vec<T>),
}

fn one(t: T) -> Exp {
    Exp::Seq(vec![t])
}
fn yes_if(b: bool) -> Exp {
    Exp::Seq(if b { vec![yes()] } else { vec![] })
}
fn fails() -> Exp {
    Exp::Seq(vec![])
}

struct Spec {
    zs: Vec<T>,
    nv: i64,
    goal: String,
    exp: Exp,
}

fn fresh(n: usize) -> T {
    list((0..n).map(|i| T::Var(100 + i as u32)).collect())
}

fn fit_len(src: &[T], filler: &T, n: usize) -> Vec<T> {
    (0..n).map(|i| if src.is_empty() { filler.clone() } else { src[i % src.len()].clone() }).collect()
}

fn stable_keysort(xs: &[T]) -> Option<Vec<T>> {
    let mut kv: Vec<(T, T)> = vec![];
    for x in xs {
        kv.push((unpair(x)?.0, x.clone()));
    }
    kv.sort_by(|a, b| std_cmp(&a.0, &b.0)); // Vec::sort_by is stable
    Some(kv.into_iter().map(|p| p.1).collect())
}

fn group_pairs(xs: &[T]) -> Option<Vec<T>> {
    let mut out: Vec<(T, Vec<T>)> = vec![];
    for x in xs {
        let (k, v) = unpair(x)?;
        match out.last_mut() {
            Some((k0, vs)) if teq(k0, &k) => vs.push(v),
            _ => out.push((k, vec![v])),
        }
    }
    Some(out.into_iter().map(|(k, vs)| pair(k, list(vs))).collect())
}

fn permutations(xs: &[T]) -> Vec<Vec<T>> {
    if xs.is_empty() {
        return vec![vec![]];
    }
    let mut out = vec![];
    for i in 0..xs.len() {
        let mut rest = xs.to_vec();
        let x = rest.remove(i);
        for mut p in permutations(&rest) {
            p.insert(0, x.clone());
            out.push(p);
        }
    }
    out
}

#[derive(Clone, Debug)]
enum Num {
    I(IBig),
    R(IBig, IBig),
    F(f64),
}

fn to_num(t: &T) -> Option<Num> {
    match t {
        T::Int(i) => Some(Num::I(i.clone())),
        T::Rat(n, d) => Some(Num::R(n.clone(), d.clone())),
        T::Float(f) => Some(Num::F(*f)),
        _ => None,
    }
}

fn small_to_f64(i: &IBig) -> Option<f64> {
    let v = i64::try_from(i).ok()?;
    if v.abs() < (1i64 << 53) {
        Some(v as f64)
    } else {
        None
    }
}

fn num_add(a: &Num, b: &Num) -> Option<Num> {
    Some(match (a, b) {
        (Num::I(x), Num::I(y)) => Num::I(x + y),
        (Num::F(x), Num::F(y)) => Num::F(x + y),
        (Num::I(x), Num::F(y)) => Num::F(small_to_f64(x)? + y),
        (Num::F(x), Num::I(y)) => Num::F(x + small_to_f64(y)?),
        (Num::R(..), Num::F(_)) | (Num::F(_), Num::R(..)) => return None,
        (x, y) => {
            let (xn, xd) = match x {
                Num::I(i) => (i.clone(), IBig::ONE),
                Num::R(n, d) => (n.clone(), d.clone()),
                _ => unreachable!(),
            };
            let (yn, yd) = match y {
                Num::I(i) => (i.clone(), IBig::ONE),
                Num::R(n, d) => (n.clone(), d.clone()),
                _ => unreachable!(),
            };
            let (n, d) = rat_norm(&xn * &yd + &yn * &xd, &xd * &yd);
            if d == IBig::ONE {
                Num::I(n)
            } else {
                Num::R(n, d)
            }
        }
    })
}

fn num_t(n: &Num) -> T {
    match n {
        Num::I(i) => T::Int(i.clone()),
        Num::R(n, d) => T::Rat(n.clone(), d.clone()),
        Num::F(f) => T::Float(*f),
    }
}

/// The goal text (over Xs, Ys, Zs, E, N, result R) and the model's expectation for one case.
/// `None`: the op is not applicable to this data (the case is discarded).
fn spec(c: &LCase) -> Option<Spec> {
    let xs = &c.xs;
    let ys = &c.ys;
    let e = &c.e;
    let len = xs.len();
    let even = c.n & 1 == 0;
    let mut zs: Vec<T> = vec![];
    let mut nv: i64 = scale(c.n, len + 2) as i64;
    let goal: &str;
    let exp: Exp;
    let sets = || (sort_dedup(xs), sort_dedup(ys));
    const AB: &str = "sort(Xs, A), sort(Ys, B), ";
    let mut goal_owned: Option<String> = None;
    match c.op.as_str() {
        "sort" => {
            goal = "sort(Xs, R)";
            exp = one(list(sort_dedup(xs)));
        }
        "list_to_ord_set" => {
            goal = "list_to_ord_set(Xs, R)";
            exp = one(list(sort_dedup(xs)));
        }
        "sort_chk" => {
            zs = if even { sort_dedup(xs) } else { xs.clone() };
            goal = "sort(Xs, Zs), R = yes";
            exp = yes_if(leq(&zs, &sort_dedup(xs)));
        }
        "sort_err" => match c.n % 3 {
            0 => {
                goal = "append(Xs, _, P), c14_outcome(sort(P, _), R)";
                exp = one(atom("inst"));
            }
            1 => {
                goal = "append(Xs, E, P), c14_outcome(sort(P, _), R)";
                exp = match items_of(e) {
                    Some(_) => one(atom("ok")),
                    None => one(cmp("ex", vec![cmp("type_error", vec![atom("list"), T::PList(xs.clone(), Box::new(e.clone())).norm()])])),
                };
            }
            _ => {
                goal = "c14_outcome(sort(Xs, E), R)";
                exp = match items_of(e) {
                    Some(l) => one(atom(if leq(&l, &sort_dedup(xs)) { "ok" } else { "failed" })),
                    None => one(cmp("ex", vec![cmp("type_error", vec![atom("list"), e.clone()])])),
                };
            }
        },
        "keysort" => {
            goal = "keysort(Xs, R)";
            exp = one(list(stable_keysort(xs)?));
        }
        "keysort_chk" => {
            let sorted = stable_keysort(xs)?;
            zs = if even { sorted.clone() } else { xs.clone() };
            goal = "keysort(Xs, Zs), R = yes";
            exp = yes_if(leq(&zs, &sorted));
        }
        "keysort_err" => {
            stable_keysort(xs)?;
            let k = scale(c.n, len + 1);
            match c.n % 4 {
                0 => {
                    goal = "append(Xs, _, P), c14_outcome(keysort(P, _), R)";
                    exp = one(atom("inst"));
                }
                1 => {
                    zs = xs.clone();
                    zs.insert(k, T::Var(7));
                    goal = "c14_outcome(keysort(Zs, _), R)";
                    exp = one(atom("inst"));
                }
                2 => {
                    let e2 = e.clone();
                    zs = xs.clone();
                    zs.insert(k, e2.clone());
                    goal = "c14_outcome(keysort(Zs, _), R)";
                    exp = match unpair(&e2) {
                        Some(_) => one(atom("ok")),
                        None => one(cmp("ex", vec![cmp("type_error", vec![atom("pair"), e2.clone()])])),
                    };
                }
                _ => {
                    if items_of(e).is_some() {
                        return None;
                    }
                    goal = "c14_outcome(keysort(Xs, E), R)";
                    exp = one(cmp("ex", vec![cmp("type_error", vec![atom("list"), e.clone()])]));
                }
            }
        }
        "length" => {
            goal = "length(Xs, R)";
            exp = one(int(len as i64));
        }
        "length_chk" => {
            goal = "length(Xs, N), R = yes";
            exp = yes_if(nv == len as i64);
        }
        "length_bad" => {
            // the two error clauses of lists:length/2
            if even {
                nv = -1 - scale(c.n, 5) as i64;
                goal = "c14_outcome(length(Xs, N), R)";
                exp = one(cmp("ex", vec![cmp("domain_error", vec![atom("not_less_than_zero"), int(nv)])]));
            } else {
                if matches!(e, T::Int(_)) {
                    return None;
                }
                goal = "c14_outcome(length(Xs, E), R)";
                exp = one(cmp("ex", vec![cmp("type_error", vec![atom("integer"), e.clone()])]));
            }
        }
        "length_gen" => {
            nv = scale(c.n, 8) as i64;
            goal = "length(R, N)";
            exp = one(fresh(nv as usize));
        }
        "length_partial" => {
            nv = scale(c.n, len + 4) as i64;
            goal = "append(Xs, T, P), length(P, N), R = T";
            exp = if nv as usize >= len { one(fresh(nv as usize - len)) } else { fails() };
        }
        "append3" => {
            goal = "append(Xs, Ys, R)";
            exp = one(list([xs.clone(), ys.clone()].concat()));
        }
        "append3_split" => {
            goal = "append(A, B, Xs), R = A-B";
            exp = Exp::Bag((0..=len).map(|i| pair(list(xs[..i].to_vec()), list(xs[i..].to_vec()))).collect());
        }
        "append3_prefix" => {
            zs = if even { [xs.clone(), ys.clone()].concat() } else { ys.clone() };
            goal = "append(Xs, R, Zs)";
            exp = if zs.len() >= len && leq(&zs[..len], xs) { one(list(zs[len..].to_vec())) } else { fails() };
        }
        "append3_suffix" => {
            zs = if even { [xs.clone(), ys.clone()].concat() } else { xs.clone() };
            goal = "append(R, Ys, Zs)";
            exp = if zs.len() >= ys.len() && leq(&zs[zs.len() - ys.len()..], ys) { Exp::Bag(vec![list(zs[..zs.len() - ys.len()].to_vec())]) } else { fails() };
        }
        "append2" => {
            let mut all = vec![];
            for r in xs {
                all.extend(items_of(r)?);
            }
            goal = "append(Xs, R)";
            exp = one(list(all));
        }
        "member_enum" => {
            goal = "member(R, Xs)";
            exp = Exp::Bag(xs.clone());
        }
        "member_chk" => {
            goal = "member(E, Xs), R = yes";
            exp = Exp::Bag(xs.iter().filter(|x| teq(x, e)).map(|_| yes()).collect());
        }
        "memberchk" => {
            goal = "memberchk(E, Xs), R = yes";
            exp = yes_if(contains(xs, e));
        }
        "select_enum" => {
            goal = "select(X, Xs, Rest), R = X-Rest";
            exp = Exp::Bag(
                (0..len)
                    .map(|i| {
                        let mut r = xs.clone();
                        let x = r.remove(i);
                        pair(x, list(r))
                    })
                    .collect(),
            );
        }
        "select_elem" => {
            goal = "select(E, Xs, R)";
            exp = Exp::Bag(
                (0..len)
                    .filter(|i| teq(&xs[*i], e))
                    .map(|i| {
                        let mut r = xs.clone();
                        r.remove(i);
                        list(r)
                    })
                    .collect(),
            );
        }
        "select_insert" => {
            goal = "select(E, R, Xs)";
            exp = Exp::Bag(
                (0..=len)
                    .map(|i| {
                        let mut r = xs.clone();
                        r.insert(i, e.clone());
                        list(r)
                    })
                    .collect(),
            );
        }
        "reverse" => {
            goal = "reverse(Xs, R)";
            exp = one(list(xs.iter().rev().cloned().collect()));
        }
        "reverse_back" => {
            goal = "reverse(R, Xs)";
            exp = one(list(xs.iter().rev().cloned().collect()));
        }
        "nth0" | "nth1" => {
            let base = if c.op == "nth0" { 0 } else { 1 };
            goal = if base == 0 { "nth0(N, Xs, R)" } else { "nth1(N, Xs, R)" };
            let i = nv - base;
            exp = if i >= 0 && (i as usize) < len { one(xs[i as usize].clone()) } else { fails() };
        }
        "nth0_enum" | "nth1_enum" => {
            let base = if c.op == "nth0_enum" { 0 } else { 1 };
            goal = if base == 0 { "nth0(I, Xs, X), R = I-X" } else { "nth1(I, Xs, X), R = I-X" };
            exp = Exp::Bag((0..len).map(|i| pair(int(i as i64 + base), xs[i].clone())).collect());
        }
        "nth0_find" | "nth1_find" => {
            let base = if c.op == "nth0_find" { 0 } else { 1 };
            goal = if base == 0 { "nth0(R, Xs, E)" } else { "nth1(R, Xs, E)" };
            exp = Exp::Bag((0..len).filter(|i| teq(&xs[*i], e)).map(|i| int(i as i64 + base)).collect());
        }
        "nth0_4" | "nth1_4" => {
            let base = if c.op == "nth0_4" { 0 } else { 1 };
            goal = if base == 0 { "nth0(N, Xs, X, Rest), R = X-Rest" } else { "nth1(N, Xs, X, Rest), R = X-Rest" };
            let i = nv - base;
            exp = if i >= 0 && (i as usize) < len {
                let mut r = xs.clone();
                let x = r.remove(i as usize);
                one(pair(x, list(r)))
            } else {
                fails()
            };
        }
        "nth0_4_enum" | "nth1_4_enum" => {
            let base = if c.op == "nth0_4_enum" { 0 } else { 1 };
            goal = if base == 0 { "nth0(I, Xs, X, Rest), R = t(I,X,Rest)" } else { "nth1(I, Xs, X, Rest), R = t(I,X,Rest)" };
            exp = Exp::Bag(
                (0..len)
                    .map(|i| {
                        let mut r = xs.clone();
                        let x = r.remove(i);
                        cmp("t", vec![int(i as i64 + base), x, list(r)])
                    })
                    .collect(),
            );
        }
        "nth0_4_ins" | "nth1_4_ins" => {
            let base = if c.op == "nth0_4_ins" { 0 } else { 1 };
            nv = scale(c.n, len + 3) as i64;
            goal = if base == 0 { "nth0(N, R, E, Xs)" } else { "nth1(N, R, E, Xs)" };
            let i = nv - base;
            exp = if i >= 0 && (i as usize) <= len {
                let mut r = xs.clone();
                r.insert(i as usize, e.clone());
                one(list(r))
            } else {
                fails()
            };
        }
        "list_to_set" => {
            let mut out: Vec<T> = vec![];
            for x in xs {
                if !contains(&out, x) {
                    out.push(x.clone());
                }
            }
            goal = "list_to_set(Xs, R)";
            exp = one(list(out));
        }
        "same_length" => {
            zs = if even { fit_len(ys, e, len) } else { ys.clone() };
            goal = "same_length(Xs, Zs), R = yes";
            exp = yes_if(zs.len() == len);
        }
        "same_length_gen" => {
            goal = "same_length(Xs, R)";
            exp = one(fresh(len));
        }
        "sum_list" => {
            let mut acc = Num::I(IBig::ZERO);
            for x in xs {
                acc = num_add(&acc, &to_num(x)?)?;
            }
            goal = "sum_list(Xs, R)";
            exp = one(num_t(&acc));
        }
        "list_max" | "list_min" => {
            // same-class lists only (max/min across integer and float is not what C14 is about)
            let all_int = xs.iter().all(|x| matches!(x, T::Int(_) | T::Rat(..)));
            let all_float = xs.iter().all(|x| matches!(x, T::Float(_)));
            if !(all_int || all_float) {
                return None;
            }
            let is_max = c.op == "list_max";
            goal = if is_max { "list_max(Xs, R)" } else { "list_min(Xs, R)" };
            let best = xs.iter().cloned().reduce(|a, b| {
                let o = std_cmp(&b, &a);
                if (is_max && o == Ordering::Greater) || (!is_max && o == Ordering::Less) {
                    b
                } else {
                    a
                }
            });
            exp = match best {
                Some(b) => one(b),
                None => fails(),
            };
        }
        "transpose" => {
            let rows: Vec<Vec<T>> = xs.iter().map(items_of).collect::<Option<Vec<_>>>()?;
            let cols = rows.first().map(|r| r.len()).unwrap_or(0);
            if rows.iter().any(|r| r.len() != cols) {
                return None;
            }
            let t: Vec<T> = (0..cols).map(|j| list(rows.iter().map(|r| r[j].clone()).collect())).collect();
            goal = "transpose(Xs, R)";
            exp = one(list(t));
        }
        "foldl4" => {
            goal = "foldl(c14_snoc, Xs, [], R)";
            exp = one(list(xs.iter().rev().cloned().collect()));
        }
        "foldl5" | "maplist4" => {
            zs = if even { fit_len(ys, e, len) } else { ys.clone() };
            let zipped: Vec<T> = xs.iter().zip(&zs).map(|(x, y)| pair(x.clone(), y.clone())).collect();
            if c.op == "foldl5" {
                goal = "foldl(c14_zip3, Xs, Zs, [], R)";
                exp = if zs.len() == len { one(list(zipped.into_iter().rev().collect())) } else { fails() };
            } else {
                goal = "maplist(c14_pair, Xs, Zs, R)";
                exp = if zs.len() == len { one(list(zipped)) } else { fails() };
            }
        }
        "foldl6" | "maplist5" => {
            zs = if even { fit_len(ys, e, len) } else { ys.clone() };
            let zipped: Vec<T> = xs.iter().zip(&zs).map(|(x, y)| cmp("t", vec![x.clone(), y.clone(), x.clone()])).collect();
            if c.op == "foldl6" {
                goal = "foldl(c14_zip4, Xs, Zs, Xs, [], R)";
                exp = if zs.len() == len { one(list(zipped.into_iter().rev().collect())) } else { fails() };
            } else {
                goal = "maplist(c14_t3, Xs, Zs, Xs, R)";
                exp = if zs.len() == len { one(list(zipped)) } else { fails() };
            }
        }
        "maplist2" => {
            goal = "maplist(=(E), Xs), R = yes";
            exp = yes_if(xs.iter().all(|x| teq(x, e)));
        }
        "maplist3" | "map_list_to_pairs" => {
            if c.op == "maplist3" {
                goal = "maplist(c14_wrap, Xs, R)";
                exp = one(list(xs.iter().map(|x| cmp("w", vec![x.clone()])).collect()));
            } else {
                goal = "map_list_to_pairs(c14_wrap, Xs, R)";
                exp = one(list(xs.iter().map(|x| pair(cmp("w", vec![x.clone()]), x.clone())).collect()));
            }
        }
        "maplist3_back" => {
            zs = xs.iter().map(|x| cmp("w", vec![x.clone()])).collect();
            goal = "maplist(c14_wrap, R, Zs)";
            exp = one(list(xs.clone()));
        }
        "permutation" | "permutation_back" => {
            if len > 5 {
                return None;
            }
            goal = if c.op == "permutation" { "permutation(Xs, R)" } else { "permutation(R, Xs)" };
            exp = Exp::Bag(permutations(xs).into_iter().map(list).collect());
        }
        "permutation_chk" => {
            if len > 5 {
                return None;
            }
            goal = "permutation(Xs, Ys), R = yes";
            exp = Exp::Bag(permutations(xs).into_iter().filter(|p| leq(p, ys)).map(|_| yes()).collect());
        }
        "pkv_split" | "pairs_keys" | "pairs_values" => {
            let kv: Vec<(T, T)> = xs.iter().map(unpair).collect::<Option<Vec<_>>>()?;
            let ks = list(kv.iter().map(|p| p.0.clone()).collect());
            let vs = list(kv.iter().map(|p| p.1.clone()).collect());
            match c.op.as_str() {
                "pkv_split" => {
                    goal = "pairs_keys_values(Xs, Ks, Vals), R = Ks-Vals";
                    exp = one(pair(ks, vs));
                }
                "pairs_keys" => {
                    goal = "pairs_keys(Xs, R)";
                    exp = one(ks);
                }
                _ => {
                    goal = "pairs_values(Xs, R)";
                    exp = one(vs);
                }
            }
        }
        "pkv_join" => {
            zs = if even { fit_len(ys, e, len) } else { ys.clone() };
            goal = "pairs_keys_values(R, Xs, Zs)";
            exp = if zs.len() == len { one(list(xs.iter().zip(&zs).map(|(x, y)| pair(x.clone(), y.clone())).collect())) } else { fails() };
        }
        "group_pairs" => {
            goal = "group_pairs_by_key(Xs, R)";
            exp = one(list(group_pairs(xs)?));
        }
        "group_sorted" => {
            goal = "keysort(Xs, S), group_pairs_by_key(S, R)";
            exp = one(list(group_pairs(&stable_keysort(xs)?)?));
        }
        "ord_union" => {
            let (a, b) = sets();
            goal_owned = Some(format!("{AB}ord_union(A, B, R)"));
            goal = "";
            exp = one(list(sort_dedup(&[a, b].concat())));
        }
        "ord_intersection" => {
            let (a, b) = sets();
            goal_owned = Some(format!("{AB}ord_intersection(A, B, R)"));
            goal = "";
            exp = one(list(a.into_iter().filter(|x| contains(&b, x)).collect()));
        }
        "ord_intersection_nil" => {
            let (a, b) = sets();
            goal_owned = Some(format!("{AB}ord_intersection(A, B, []), R = yes"));
            goal = "";
            exp = yes_if(!a.iter().any(|x| contains(&b, x)));
        }
        "ord_subtract" => {
            let (a, b) = sets();
            goal_owned = Some(format!("{AB}ord_subtract(A, B, R)"));
            goal = "";
            exp = one(list(a.into_iter().filter(|x| !contains(&b, x)).collect()));
        }
        "ord_symdiff" => {
            let (a, b) = sets();
            goal_owned = Some(format!("{AB}ord_symdiff(A, B, R)"));
            goal = "";
            let mut d: Vec<T> = a.iter().filter(|x| !contains(&b, x)).cloned().collect();
            d.extend(b.iter().filter(|x| !contains(&a, x)).cloned());
            exp = one(list(sort_dedup(&d)));
        }
        "ord_add" => {
            let (a, _) = sets();
            goal = "sort(Xs, A), ord_add_element(A, E, R)";
            let mut v = a;
            v.push(e.clone());
            exp = one(list(sort_dedup(&v)));
        }
        "ord_del" => {
            let (a, _) = sets();
            goal = "sort(Xs, A), ord_del_element(A, E, R)";
            exp = one(list(a.into_iter().filter(|x| !teq(x, e)).collect()));
        }
        "ord_memberchk" => {
            goal = "sort(Xs, A), ord_memberchk(E, A), R = yes";
            exp = yes_if(contains(xs, e));
        }
        "ord_selectchk" => {
            let (a, _) = sets();
            goal = "sort(Xs, A), ord_selectchk(E, A, R)";
            exp = if contains(&a, e) { one(list(a.into_iter().filter(|x| !teq(x, e)).collect())) } else { fails() };
        }
        "ord_subset" => {
            zs = if even { xs.iter().filter(|x| contains(ys, x)).cloned().collect() } else { xs.clone() };
            goal = "sort(Zs, A), sort(Ys, B), ord_subset(A, B), R = yes";
            exp = yes_if(zs.iter().all(|x| contains(ys, x)));
        }
        "ord_seteq" => {
            zs = if even { xs.iter().rev().cloned().collect() } else { ys.clone() };
            goal = "sort(Xs, A), sort(Zs, B), ord_seteq(A, B), R = yes";
            exp = yes_if(xs.iter().all(|x| contains(&zs, x)) && zs.iter().all(|x| contains(xs, x)));
        }
        "ord_union4" => {
            let (a, b) = sets();
            goal_owned = Some(format!("{AB}ord_union(A, B, U, New), R = U-New"));
            goal = "";
            let new: Vec<T> = b.iter().filter(|x| !contains(&a, x)).cloned().collect();
            exp = one(pair(list(sort_dedup(&[a, b].concat())), list(new)));
        }
        "ord_intersection4" => {
            let (a, b) = sets();
            goal_owned = Some(format!("{AB}ord_intersection(A, B, I, D), R = I-D"));
            goal = "";
            let i: Vec<T> = a.iter().filter(|x| contains(&b, x)).cloned().collect();
            let d: Vec<T> = b.iter().filter(|x| !contains(&a, x)).cloned().collect();
            exp = one(pair(list(i), list(d)));
        }
        "ord_disjoint" | "ord_intersect" => {
            let (a, b) = sets();
            let meet = a.iter().any(|x| contains(&b, x));
            if c.op == "ord_disjoint" {
                goal_owned = Some(format!("{AB}ord_disjoint(A, B), R = yes"));
                exp = yes_if(!meet);
            } else {
                goal_owned = Some(format!("{AB}ord_intersect(A, B), R = yes"));
                exp = yes_if(meet);
            }
            goal = "";
        }
        "ord_union2" | "ord_intersection2" => {
            let rows: Vec<Vec<T>> = xs.iter().map(items_of).collect::<Option<Vec<_>>>()?;
            if c.op == "ord_union2" || rows.is_empty() {
                goal = "c14_sorts(Xs, Ss), ord_union(Ss, R)";
                exp = one(list(sort_dedup(&rows.concat())));
            } else {
                goal = "c14_sorts(Xs, Ss), ord_intersection(Ss, R)";
                let first = sort_dedup(&rows[0]);
                exp = one(list(first.into_iter().filter(|x| rows.iter().all(|r| contains(r, x))).collect()));
            }
        }
        "is_ordset" => {
            zs = if even { sort_dedup(xs) } else { xs.clone() };
            goal = "is_ordset(Zs), R = yes";
            exp = yes_if(zs.windows(2).all(|w| std_cmp(&w[0], &w[1]) == Ordering::Less));
        }
        _ => return None,
    }
    let goal = goal_owned.unwrap_or_else(|| goal.to_string());
    Some(Spec { zs, nv, goal, exp })
}

fn var_list() -> T {
    list((0..NVARS).map(T::Var).collect())
}

fn uses_vars(c: &LCase) -> bool {
    let mut v = vec![];
    for t in c.xs.iter().chain(c.ys.iter()) {
        t.vars(&mut v);
    }
    c.e.vars(&mut v);
    !v.is_empty()
}

fn rank_case(c: &LCase, f: &dyn Fn(u32) -> u32) -> LCase {
    LCase { op: c.op.clone(), xs: c.xs.iter().map(|t| map_vars(t, f)).collect(), ys: c.ys.iter().map(|t| map_vars(t, f)).collect(), e: map_vars(&c.e, f), n: c.n, enc: c.enc }
}

/// rank[i] = position of Vi in the order compare/3 reports (pairwise observations, row-major i<j)
fn ranks_from(os: &T) -> Result<Vec<u32>, String> {
    let items = items_of(os).ok_or("order observations are not a list")?;
    let n = NVARS as usize;
    if items.len() != n * (n - 1) / 2 {
        return Err(format!("expected {} order observations, got {}", n * (n - 1) / 2, items.len()));
    }
    let mut less = vec![vec![false; n]; n];
    let mut k = 0;
    for i in 0..n {
        for j in i + 1..n {
            match &items[k] {
                T::Atom(a) if a == "<" => less[i][j] = true,
                T::Atom(a) if a == ">" => less[j][i] = true,
                other => return Err(format!("compare/3 of two distinct variables gave {}", other.text())),
            }
            k += 1;
        }
    }
    let rank: Vec<u32> = (0..n).map(|i| (0..n).filter(|j| less[*j][i]).count() as u32).collect();
    let mut seen = rank.clone();
    seen.sort();
    if seen != (0..n as u32).collect::<Vec<_>>() {
        return Err(format!("compare/3 on variables is not a total order: ranks {rank:?}"));
    }
    Ok(rank)
}

fn canon(t: &T) -> T {
    t.norm().canon_vars()
}

pub struct Env {
    pub s: Session,
}

pub fn mk_env() -> Env {
    let mut s = Session::new(&["lists", "pairs", "ordsets", "assoc"]);
    assert!(s.consult(C14_PL, "c14"), "c14.pl failed to load");
    Env { s }
}

fn text_list(v: &[T]) -> String {
    list(v.to_vec()).text()
}

fn effective_enc(c: &LCase, sp: &Spec) -> bool {
    c.enc || c.xs.iter().chain(c.ys.iter()).chain(sp.zs.iter()).any(has_rat) || has_rat(&c.e)
}

/// the reader-built lists of this case that are stored as partial string + list tail
fn bad_spine_lists(c: &LCase, sp: &Spec) -> Vec<T> {
    if effective_enc(c, sp) {
        return vec![];
    }
    let mut out = vec![];
    let mut cands: Vec<Vec<T>> = vec![c.xs.clone(), c.ys.clone(), sp.zs.clone()];
    for x in c.xs.iter().chain(std::iter::once(&c.e)) {
        if let Some(items) = items_of(x) {
            cands.push(items);
        }
    }
    for l in cands {
        if reader_spine_bad(&l) {
            out.push(list(l));
        }
    }
    out
}

fn is_known_spine_defect(formal: &T, bad: &[T]) -> bool {
    match formal {
        T::Cmp(n, a) if n == "type_error" && a.len() == 2 => a[0].eq_struct(&atom("list")) && bad.iter().any(|b| canon(b).eq_struct(&canon(&a[1]))),
        _ => false,
    }
}

const SPINE_SIG: &str = "sort-rejects-list:char-prefix";

fn prefix(c: &LCase, sp: &Spec) -> String {
    let enc = effective_enc(c, sp);
    if enc {
        format!(
            "vp_decs([{},{},{},{},{}], [Vs,Xs,Ys,Zs,E]), N = {}, c14_ord(Vs, Os), ",
            var_list().enc_text(),
            list(c.xs.clone()).enc_text(),
            list(c.ys.clone()).enc_text(),
            list(sp.zs.clone()).enc_text(),
            c.e.enc_text(),
            sp.nv
        )
    } else {
        format!("Vs = {}, Xs = {}, Ys = {}, Zs = {}, E = {}, N = {}, c14_ord(Vs, Os), ", var_list().text(), text_list(&c.xs), text_list(&c.ys), text_list(&sp.zs), c.e.text(), sp.nv)
    }
}

pub fn check_list(env: &mut Env, c: &LCase) -> Verdict {
    let Some(sp0) = spec(c) else { return Verdict::Discard(format!("inapplicable:{}", c.op)) };
    let q = format!("{}{}", prefix(c, &sp0), sp0.goal);
    let got = env.s.ask(&q, "t(Vs, Os, R)");
    let bad = bad_spine_lists(c, &sp0);
    if !bad.is_empty() {
        if let Some(f) = got.formal() {
            if is_known_spine_defect(&f, &bad) {
                return Verdict::fail(SPINE_SIG, format!("{q} gave {} (a list read as one-char atoms followed by a non-atom is stored as partial string + list tail; try_from_partial_string rejects it)", got.short()));
            }
        }
        if let Outcome::Sols(v) = &got {
            if let [T::Cmp(_, a)] = v.as_slice() {
                if let Some(T::Cmp(n, e)) = a.get(2) {
                    if n == "ex" && e.len() == 1 && is_known_spine_defect(&e[0], &bad) {
                        return Verdict::fail(SPINE_SIG, format!("{q} gave {}", got.short()));
                    }
                }
            }
        }
    }
    let sols = match &got {
        Outcome::Sols(v) => v.clone(),
        Outcome::Panic(m) => {
            let loc = m.split_whitespace().next().unwrap_or("?");
            return Verdict::fail(format!("panic:{}:{}", loc, c.op), format!("{q} panicked: {m}"));
        }
        Outcome::Harness(m) => return Verdict::Discard(format!("harness:{}", m.chars().take(40).collect::<String>())),
        other => return Verdict::fail(format!("unexpected-error:{}", c.op), format!("{q} gave {}", other.short())),
    };
    // split the solutions t(Vs, Os, R)
    let mut got_r: Vec<T> = vec![];
    let mut os: Option<T> = None;
    for s in &sols {
        match s {
            T::Cmp(n, a) if n == "t" && a.len() == 3 => {
                os = Some(a[1].clone());
                got_r.push(cmp("t", vec![a[0].clone(), a[2].clone()]));
            }
            other => return Verdict::Discard(format!("harness:bad solution shape {}", other.text().chars().take(30).collect::<String>())),
        }
    }
    // the model, under the variable order the machine reports
    let with_vars = uses_vars(c);
    let exp = if with_vars && os.is_some() {
        let rank = match ranks_from(os.as_ref().unwrap()) {
            Ok(r) => r,
            Err(m) => return Verdict::fail("var-order:inconsistent", format!("{q}: {m}")),
        };
        let fwd = |v: u32| if v < NVARS { rank[v as usize] } else { v };
        let inv = |v: u32| if v < NVARS { rank.iter().position(|r| *r == v).unwrap() as u32 } else { v };
        let Some(sp1) = spec(&rank_case(c, &fwd)) else { return Verdict::Discard("inapplicable-after-ranking".into()) };
        match sp1.exp {
            Exp::Seq(v) => Exp::Seq(v.iter().map(|t| map_vars(t, &inv)).collect()),
            Exp::Bag(v) => Exp::Bag(v.iter().map(|t| map_vars(t, &inv)).collect()),
        }
    } else {
        sp0.exp.clone()
    };
    let wrap = |t: &T| canon(&cmp("t", vec![var_list(), t.clone()]));
    let (mut want, is_bag): (Vec<T>, bool) = match &exp {
        Exp::Seq(v) => (v.iter().map(wrap).collect(), false),
        Exp::Bag(v) => (v.iter().map(wrap).collect(), true),
    };
    let mut have: Vec<T> = got_r.iter().map(canon).collect();
    if is_bag {
        want.sort_by(std_cmp);
        have.sort_by(std_cmp);
    }
    let same = want.len() == have.len() && want.iter().zip(&have).all(|(a, b)| a.eq_struct(b));
    if !same {
        let show = |v: &[T]| v.iter().take(6).map(|t| match t { T::Cmp(_, a) => a[1].text(), o => o.text() }).collect::<Vec<_>>().join(" ; ");
        let sig = if want.len() != have.len() { "wrong-solution-count" } else { "wrong-result" };
        return Verdict::fail(format!("{sig}:{}", c.op), format!("{q}\n  got {} solution(s): {}\n  expected {}{}: {}", have.len(), show(&have), want.len(), if is_bag { " (any order)" } else { "" }, show(&want)));
    }
    // classes / non-trivial rule
    let keys: Vec<T> = c.xs.iter().map(|x| unpair(x).map(|p| p.0).unwrap_or_else(|| x.clone())).collect();
    let dup_keys = sort_dedup(&keys).len() < keys.len();
    let dups = sort_dedup(&c.xs).len() < c.xs.len();
    let mut classes: Vec<String> = vec![format!("op:{}", c.op)];
    if dups {
        classes.push("has-identical-elements".into());
    }
    if dup_keys && !dups {
        classes.push("equal-keys-only".into());
    }
    if with_vars {
        classes.push("with-variables".into());
    }
    if c.enc {
        classes.push("inputs-via-vp_dec".into());
    }
    if c.xs.len() > 16 {
        classes.push("len>16".into());
    }
    if have.len() > 1 {
        classes.push("multi-solution".into());
    }
    if have.is_empty() {
        classes.push("expected-failure".into());
    }
    let cl: Vec<&str> = classes.iter().map(|s| s.as_str()).collect();
    Verdict::pass(dups || dup_keys, &cl)
}

// ---------------------------------------------------------------------------------------------
// assoc kind

#[derive(Clone, Debug, Serialize, Deserialize)]
pub enum AOp {
    Put(T, T),
    Get(T),
    Del(T),
    DelMin,
    DelMax,
    Max,
    Min,
    FromList(Vec<(T, T)>),
    /// (pairs, raw): raw = as generated (possibly unordered / duplicate keys); otherwise sorted by the model
    FromOrdList(Vec<(T, T)>, bool),
    Gen,
    GenKey(T),
    Upd(T, T),
    Map,
    MapChk,
}

#[derive(Clone, Debug, Serialize, Deserialize)]
pub struct ACase {
    pub ops: Vec<AOp>,
    pub enc: bool,
}

fn key_pool() -> Vec<T> {
    let mut v: Vec<T> = (-10i64..=70).map(int).collect();
    v.extend(["aa", "ab", "b c", "zz", "Key", "x1", "x2", "x3", "x4", "x5", "x6", "x7", "x8"].iter().map(|a| atom(a)));
    v.extend((0..12).map(|i| cmp("h", vec![int(i), atom("a")])));
    v.extend([
        T::Float(0.5),
        T::Float(1.0),
        T::Float(-3.0),
        atom("a"),
        atom("b"),
        atom("k"),
        atom("é"),
        atom(""),
        nil(),
        T::Str("ab".into()),
        T::Str("b".into()),
        cmp("f", vec![int(1)]),
        cmp("f", vec![int(2)]),
        cmp("f", vec![atom("a")]),
        cmp("g", vec![int(1), int(2)]),
        pair(atom("a"), int(1)),
        T::Int(ipow2(64)),
        T::Int(-ipow2(64)),
        list(vec![int(1), int(2)]),
    ]);
    v
}

#[derive(Clone, Debug)]
enum RawOp {
    Put(u16, T),
    Get(u16),
    Del(u16),
    DelMin,
    DelMax,
    Max,
    Min,
    FromList(Vec<(u16, T)>),
    FromOrdList(Vec<(u16, T)>, bool),
    Gen,
    GenKey(u16),
    Upd(u16, T),
    Map,
    MapChk,
}

fn raw_op() -> BoxedStrategy<RawOp> {
    let kv = || proptest::collection::vec((any::<u16>(), value_strategy()), 0..=30);
    prop_oneof![
        56 => (any::<u16>(), value_strategy()).prop_map(|(k, v)| RawOp::Put(k, v)),
        8 => any::<u16>().prop_map(RawOp::Get),
        14 => any::<u16>().prop_map(RawOp::Del),
        4 => Just(RawOp::DelMin),
        4 => Just(RawOp::DelMax),
        2 => Just(RawOp::Max),
        2 => Just(RawOp::Min),
        2 => kv().prop_map(RawOp::FromList),
        2 => (kv(), (0u8..20).prop_map(|r| r == 0)).prop_map(|(l, raw)| RawOp::FromOrdList(l, raw)),
        2 => Just(RawOp::Gen),
        2 => any::<u16>().prop_map(RawOp::GenKey),
        4 => (any::<u16>(), value_strategy()).prop_map(|(k, v)| RawOp::Upd(k, v)),
        1 => Just(RawOp::Map),
        1 => Just(RawOp::MapChk),
    ]
    .boxed()
}

pub fn acase_strategy() -> BoxedStrategy<ACase> {
    (prop_oneof![proptest::collection::vec(any::<u16>(), 4..=12), proptest::collection::vec(any::<u16>(), 12..=80)], proptest::collection::vec(raw_op(), 5..=60), any::<bool>())
        .prop_map(|(pool_idx, raw, enc)| {
            let all = key_pool();
            let pool: Vec<T> = pool_idx.iter().map(|i| pick(&all, *i)).collect();
            let k = |i: &u16| pick(&pool, *i);
            let ops = raw
                .iter()
                .map(|r| match r {
                    RawOp::Put(i, v) => AOp::Put(k(i), v.clone()),
                    RawOp::Get(i) => AOp::Get(k(i)),
                    RawOp::Del(i) => AOp::Del(k(i)),
                    RawOp::DelMin => AOp::DelMin,
                    RawOp::DelMax => AOp::DelMax,
                    RawOp::Max => AOp::Max,
                    RawOp::Min => AOp::Min,
                    RawOp::FromList(l) => AOp::FromList(l.iter().map(|(i, v)| (k(i), v.clone())).collect()),
                    RawOp::FromOrdList(l, raw) => AOp::FromOrdList(l.iter().map(|(i, v)| (k(i), v.clone())).collect(), *raw),
                    RawOp::Gen => AOp::Gen,
                    RawOp::GenKey(i) => AOp::GenKey(k(i)),
                    RawOp::Upd(i, v) => AOp::Upd(k(i), v.clone()),
                    RawOp::Map => AOp::Map,
                    RawOp::MapChk => AOp::MapChk,
                })
                .collect();
            ACase { ops, enc }
        })
        .boxed()
}

fn pairs_term(l: &[(T, T)]) -> T {
    list(l.iter().map(|(k, v)| pair(k.clone(), v.clone())).collect())
}

fn ord_pairs_of(l: &[(T, T)], raw: bool) -> Vec<(T, T)> {
    if raw {
        return l.to_vec();
    }
    let mut v = l.to_vec();
    v.sort_by(|a, b| std_cmp(&a.0, &b.0));
    v.dedup_by(|a, b| teq(&a.0, &b.0));
    v
}

fn aop_term(op: &AOp) -> T {
    match op {
        AOp::Put(k, v) => cmp("put", vec![k.clone(), v.clone()]),
        AOp::Get(k) => cmp("get", vec![k.clone()]),
        AOp::Del(k) => cmp("del", vec![k.clone()]),
        AOp::DelMin => atom("del_min"),
        AOp::DelMax => atom("del_max"),
        AOp::Max => atom("max"),
        AOp::Min => atom("min"),
        AOp::FromList(l) => cmp("from_list", vec![pairs_term(l)]),
        AOp::FromOrdList(l, raw) => cmp("from_ord_list", vec![pairs_term(&ord_pairs_of(l, *raw))]),
        AOp::Gen => atom("gen"),
        AOp::GenKey(k) => cmp("gen", vec![k.clone()]),
        AOp::Upd(k, v) => cmp("upd", vec![k.clone(), v.clone()]),
        AOp::Map => atom("map"),
        AOp::MapChk => atom("mapchk"),
    }
}

fn aop_name(op: &AOp) -> &'static str {
    match op {
        AOp::Put(..) => "put_assoc",
        AOp::Get(_) => "get_assoc",
        AOp::Del(_) => "del_assoc",
        AOp::DelMin => "del_min_assoc",
        AOp::DelMax => "del_max_assoc",
        AOp::Max => "max_assoc",
        AOp::Min => "min_assoc",
        AOp::FromList(_) => "list_to_assoc",
        AOp::FromOrdList(..) => "ord_list_to_assoc",
        AOp::Gen => "gen_assoc",
        AOp::GenKey(_) => "gen_assoc_key",
        AOp::Upd(..) => "get_assoc5",
        AOp::Map => "map_assoc3",
        AOp::MapChk => "map_assoc2",
    }
}

/// sorted-Vec map (keys strictly ascending under std_cmp)
#[derive(Clone, Debug, Default)]
struct Map(Vec<(T, T)>);

impl Map {
    fn find(&self, k: &T) -> Result<usize, usize> {
        self.0.binary_search_by(|p| std_cmp(&p.0, k))
    }
    fn put(&mut self, k: &T, v: &T) {
        match self.find(k) {
            Ok(i) => self.0[i].1 = v.clone(),
            Err(i) => self.0.insert(i, (k.clone(), v.clone())),
        }
    }
}

fn yes1(t: T) -> T {
    cmp("yes", vec![t])
}

/// model step: expected observation (None = not judged) and the new map
fn model_step(m: &mut Map, op: &AOp) -> Option<T> {
    match op {
        AOp::Put(k, v) => {
            m.put(k, v);
            Some(atom("ok"))
        }
        AOp::Get(k) => Some(match m.find(k) {
            Ok(i) => yes1(m.0[i].1.clone()),
            Err(_) => atom("no"),
        }),
        AOp::Del(k) => Some(match m.find(k) {
            Ok(i) => yes1(m.0.remove(i).1),
            Err(_) => atom("no"),
        }),
        AOp::DelMin | AOp::DelMax => {
            if m.0.is_empty() {
                return None;
            }
            let (k, v) = if matches!(op, AOp::DelMin) { m.0.remove(0) } else { m.0.pop().unwrap() };
            Some(yes1(pair(k, v)))
        }
        AOp::Max | AOp::Min => Some(match if matches!(op, AOp::Min) { m.0.first() } else { m.0.last() } {
            Some((k, v)) => yes1(pair(k.clone(), v.clone())),
            None => atom("no"),
        }),
        AOp::FromList(l) => {
            let mut n = Map::default();
            for (k, v) in l {
                if n.find(k).is_ok() {
                    return Some(cmp("ex", vec![cmp("domain_error", vec![atom("unique_key_pairs"), pairs_term(l)])]));
                }
                n.put(k, v);
            }
            *m = n;
            Some(atom("ok"))
        }
        AOp::FromOrdList(l, raw) => {
            let l = ord_pairs_of(l, *raw);
            if !l.windows(2).all(|w| std_cmp(&w[0].0, &w[1].0) == Ordering::Less) {
                return Some(cmp("ex", vec![cmp("domain_error", vec![atom("key_ordered_pairs"), pairs_term(&l)])]));
            }
            *m = Map(l);
            Some(atom("ok"))
        }
        AOp::Gen => Some(cmp("all", vec![pairs_term(&m.0)])),
        AOp::GenKey(k) => Some(cmp("all", vec![list(m.find(k).ok().map(|i| m.0[i].1.clone()).into_iter().collect())])),
        AOp::Upd(k, nv) => Some(match m.find(k) {
            Ok(i) => {
                let old = std::mem::replace(&mut m.0[i].1, nv.clone());
                yes1(old)
            }
            Err(_) => atom("no"),
        }),
        AOp::Map => {
            for p in m.0.iter_mut() {
                p.1 = cmp("w", vec![p.1.clone()]);
            }
            Some(atom("ok"))
        }
        AOp::MapChk => Some(atom(if m.0.iter().all(|p| matches!(p.1, T::Int(_))) { "yes" } else { "no" })),
    }
}

/// Independent validity check of a library(assoc) tree term: t | t(K,V,Balance,L,R); returns the
/// height and appends the in-order pairs. Balance: '<' left deeper, '-' equal, '>' right deeper.
fn avl_walk(t: &T, out: &mut Vec<(T, T)>) -> Result<i32, String> {
    match t {
        T::Atom(a) if a == "t" => Ok(0),
        T::Cmp(n, a) if n == "t" && a.len() == 5 => {
            let hl = avl_walk(&a[3], out)?;
            out.push((a[0].clone(), a[1].clone()));
            let hr = avl_walk(&a[4], out)?;
            let want = match hr - hl {
                0 => "-",
                1 => ">",
                -1 => "<",
                d => return Err(format!("subtree heights differ by {d} at key {}", a[0].text())),
            };
            match &a[2] {
                T::Atom(b) if b == want => {}
                other => return Err(format!("balance mark {} at key {} but subtree heights are {hl}/{hr}", other.text(), a[0].text())),
            }
            Ok(1 + hl.max(hr))
        }
        other => Err(format!("not an assoc node: {}", other.text().chars().take(60).collect::<String>())),
    }
}

pub fn check_assoc(env: &mut Env, c: &ACase) -> Verdict {
    let ops_t = list(c.ops.iter().map(aop_term).collect());
    let q = if c.enc { format!("vp_dec({}, Ops), c14_assoc(Ops, R)", ops_t.enc_text()) } else { format!("Ops = {}, c14_assoc(Ops, R)", ops_t.text()) };
    let got = env.s.ask(&q, "R");
    let obs = match &got {
        Outcome::Sols(v) if v.len() == 1 => match items_of(&v[0]) {
            Some(o) => o,
            None => return Verdict::Discard("harness:observations not a list".into()),
        },
        Outcome::Panic(m) => return Verdict::fail(format!("panic:{}:assoc", m.split_whitespace().next().unwrap_or("?")), format!("{q} panicked: {m}")),
        Outcome::Harness(m) => return Verdict::Discard(format!("harness:{}", m.chars().take(40).collect::<String>())),
        other => return Verdict::fail("assoc-history-error:run", format!("{q} gave {}", other.short())),
    };
    if obs.len() != c.ops.len() {
        return Verdict::fail("assoc-history-error:length", format!("{q}: {} observations for {} steps", obs.len(), c.ops.len()));
    }
    let mut m = Map::default();
    let mut rebalancing_delete = false;
    let mut max_size = 0;
    let mut classes: Vec<String> = vec![];
    for (i, (op, ob)) in c.ops.iter().zip(&obs).enumerate() {
        let size_before = m.0.len();
        let want = model_step(&mut m, op);
        let name = aop_name(op);
        let ctx = |what: String| format!("step {i} ({}) of {q}\n  {what}", aop_term(op).text());
        let a = match ob {
            T::Cmp(n, a) if n == "o" && a.len() == 6 => a,
            other => return Verdict::Discard(format!("harness:bad observation {}", other.text().chars().take(30).collect::<String>())),
        };
        if let Some(w) = &want {
            if !canon(w).eq_struct(&canon(&a[0])) {
                return Verdict::fail(format!("assoc-wrong-result:{name}"), ctx(format!("observed {} expected {}", a[0].text(), w.text())));
            }
        }
        // the tree term itself: in-order contents = model, AVL balance
        let mut inorder = vec![];
        if let Err(e) = avl_walk(&a[1], &mut inorder) {
            return Verdict::fail(format!("assoc-invalid-tree:{name}"), ctx(e));
        }
        let same = inorder.len() == m.0.len() && inorder.iter().zip(&m.0).all(|(x, y)| teq(&x.0, &y.0) && canon(&x.1).eq_struct(&canon(&y.1)));
        if !same {
            return Verdict::fail(format!("assoc-wrong-contents:{name}"), ctx(format!("tree holds {} expected {}", pairs_term(&inorder).text(), pairs_term(&m.0).text())));
        }
        if !matches!(&a[2], T::Atom(b) if b == "true") {
            return Verdict::fail(format!("assoc-is_assoc-false:{name}"), ctx(format!("is_assoc/1 fails on {}", a[1].text())));
        }
        let (l, ks, vs) = (pairs_term(&m.0), list(m.0.iter().map(|p| p.0.clone()).collect()), list(m.0.iter().map(|p| p.1.clone()).collect()));
        for (what, w, g) in [("assoc_to_list", &l, &a[3]), ("assoc_to_keys", &ks, &a[4]), ("assoc_to_values", &vs, &a[5])] {
            if !canon(w).eq_struct(&canon(g)) {
                return Verdict::fail(format!("assoc-wrong-listing:{what}"), ctx(format!("{what} gave {} expected {}", g.text(), w.text())));
            }
        }
        if matches!(op, AOp::Del(_) | AOp::DelMin | AOp::DelMax) && m.0.len() < size_before && size_before >= 8 {
            rebalancing_delete = true;
        }
        max_size = max_size.max(m.0.len());
        let cl = format!("assoc-op:{name}");
        if !classes.contains(&cl) {
            classes.push(cl);
        }
        if matches!(&want, Some(T::Cmp(n, _)) if n == "ex") && !classes.contains(&"assoc:error-step".to_string()) {
            classes.push("assoc:error-step".into());
        }
    }
    if rebalancing_delete {
        classes.push("assoc:deletion-at-size>=8".into());
    }
    if max_size >= 16 {
        classes.push("assoc:size>=16".into());
    }
    if c.enc {
        classes.push("inputs-via-vp_dec".into());
    }
    let cl: Vec<&str> = classes.iter().map(|s| s.as_str()).collect();
    Verdict::pass(rebalancing_delete, &cl)
}

pub struct C14;

impl Prop for C14 {
    fn id(&self) -> &'static str {
        "C14"
    }
    fn rule(&self) -> &'static str {
        "kind list: one call of one exported predicate of sort/2, keysort/2, library(lists), library(pairs), library(ordsets) in one instantiation mode (81 op/mode variants incl. splitting append/3, enumerating nth0/nth1/select/member/permutation, insertion modes, ISO error cases of sort/keysort/length) on lists of 0..60 mixed terms drawn with repetition from a per-case base of 1..8 terms (integers incl. 2^55/2^64 boundaries, floats, rationals, atoms, strings, compounds, partial lists, up to 3 shared variables for the ==-based predicates), inputs built either as query text or through vp_dec; result compared with a Vec model under the standard order (variable order observed through compare/3); kind assoc: histories of 5..60 put/get/del/del_min/del_max/min/max/list_to_assoc/ord_list_to_assoc/gen/get_assoc5/map operations over a per-case pool of 4..80 ground keys, observed after EVERY step (result, tree term, is_assoc, assoc_to_list/keys/values) against a sorted-Vec map plus an independent AVL order/balance check of the tree term; non-trivial = list with >=2 identical elements or equal keys / history with a successful deletion at size >= 8; distinct by case encoding"
    }
    fn assumptions(&self) -> Vec<String> {
        vec![
            "term::std_cmp is the standard order (checked against compare/3 by C13)".into(),
            "the reader parses the canonical functional notation / vp_dec builds the inputs correctly".into(),
            "order of solutions of append/3, member/2, select/3, nth0/nth1, permutation/2 is not asserted (multiset comparison)".into(),
            "ordset inputs are produced by sort/2 inside the same query (sort/2 itself is checked by the sort op)".into(),
        ]
    }
    fn run_shard(&self, cfg: &ShardCfg) -> ShardResult {
        let mut d = Driver::new(cfg, "C14");
        let n_list = cfg.share(cfg.tier.pick(80_000, 4_000_000));
        let n_assoc = cfg.share(cfg.tier.pick(6_000, 300_000));
        d.run("list", 0, n_list, 6000, lcase_strategy(), &mk_env, &check_list);
        d.run("assoc", 1, n_assoc, 3000, acase_strategy(), &mk_env, &check_assoc);
        d.finish()
    }
    fn replay(&self, kind: &str, case: &Value) -> Verdict {
        match kind {
            "assoc" => replay_case::<ACase, Env>(case, &mk_env, &check_assoc),
            _ => replay_case::<LCase, Env>(case, &mk_env, &check_list),
        }
    }
}
