//! C39 — DCG translation preserves grammar semantics.
//!
//! Random grammars (AST in `shared::dcgref`) are rendered as `-->` rules, consulted, and every
//! `phrase/2,3` query is compared with the reference interpreter's ordered answer list.
use crate::engine::*;
use crate::session::{Outcome, Session};
use crate::shared::dcgref::*;
use crate::term::{atom, cmp, int, list, nil, T};
use proptest::prelude::*;
use serde::{Deserialize, Serialize};
use serde_json::Value;

/// one input list: tokens 0..=2 are the atoms a, b, c; 3 is a distinct unbound variable
#[derive(Clone, Debug, Serialize, Deserialize, PartialEq)]
pub struct Input {
    pub toks: Vec<u8>,
    pub as_string: bool,
}

#[derive(Clone, Debug, Serialize, Deserialize)]
pub struct Case {
    pub g: Grammar,
    /// bodies used as first argument of phrase/2,3 (query variables V0..V4)
    pub tops: Vec<Body>,
    /// all strings over {a,b,c} up to this length are used as input
    pub exh: u8,
    pub extra: Vec<Input>,
}

const ALPHA: [&str; 3] = ["a", "b", "c"];
pub const REST_VAR: u32 = 90;
pub const INPUT_VAR0: u32 = 100;
const MAX_STEPS: u64 = 60_000;
const MAX_SOLS: usize = 600;

// ---------------------------------------------------------------------------------------------
// Generators (raw trees, then a context-sensitive fix-up that makes them valid and terminating)

fn tok() -> BoxedStrategy<T> {
    prop_oneof![
        // biased towards the first letter so that random grammars accept more of the inputs
        5 => Just(atom("a")),
        2 => Just(atom("b")),
        1 => Just(atom("c")),
        2 => (0u32..5).prop_map(T::Var),
    ]
    .boxed()
}

fn arg_term() -> BoxedStrategy<T> {
    let leaf = prop_oneof![
        9 => (0u32..5).prop_map(T::Var),
        3 => (0usize..3).prop_map(|i| atom(ALPHA[i])),
        2 => (0i64..4).prop_map(int),
    ];
    leaf.prop_recursive(2, 6, 2, |inner| {
        prop_oneof![
            2 => inner.clone().prop_map(|x| cmp("f", vec![x])),
            1 => (inner.clone(), inner.clone()).prop_map(|(x, y)| cmp("g", vec![x, y])),
            1 => proptest::collection::vec(inner.clone(), 0..=2).prop_map(list),
        ]
    })
    .boxed()
}

fn num_term() -> BoxedStrategy<T> {
    prop_oneof![3 => (0u32..5).prop_map(T::Var), 2 => (0i64..4).prop_map(int)].boxed()
}

fn arith() -> BoxedStrategy<Arith> {
    prop_oneof![2 => num_term().prop_map(Arith::Val), 2 => (num_term(), num_term()).prop_map(|(a, b)| Arith::Plus(a, b))].boxed()
}

fn goal() -> BoxedStrategy<Goal> {
    prop_oneof![
        6 => ((0u32..5).prop_map(T::Var), arg_term()).prop_map(|(a, b)| Goal::Unify(a, b)),
        1 => (arg_term(), arg_term()).prop_map(|(a, b)| Goal::Unify(a, b)),
        1 => (arg_term(), arg_term()).prop_map(|(a, b)| Goal::Eq(a, b)),
        2 => (arg_term(), arg_term()).prop_map(|(a, b)| Goal::Neq(a, b)),
        2 => (num_term(), arith()).prop_map(|(a, b)| Goal::Is(a, b)),
        // no compound expression inside a comparison: the clause compiler lets the inlined evaluation of e.g.
        // `0 < 0+1` overwrite an argument register that is still live (m(S0,S) :- 0 < 0+1, S0 = S. binds S to 1):
        // a code generation defect outside the DCG translation, reported separately
        1 => (num_term(), num_term()).prop_map(|(a, b)| Goal::Less(Arith::Val(a), Arith::Val(b))),
        1 => Just(Goal::Cut),
        1 => Just(Goal::True),
        1 => Just(Goal::Fail),
    ]
    .boxed()
}

fn how() -> BoxedStrategy<How> {
    prop_oneof![
        8 => Just(How::Plain),
        2 => (0u8..=2).prop_map(How::CallN),
        2 => (0u8..=2).prop_map(How::PhraseN),
        1 => Just(How::ViaVar(0)),
    ]
    .boxed()
}

fn seq_arg() -> BoxedStrategy<T> {
    prop_oneof![
        3 => (0u32..5).prop_map(T::Var),
        2 => proptest::collection::vec(tok(), 0..=2).prop_map(list),
        1 => (proptest::collection::vec(tok(), 1..=2), (0u32..5)).prop_map(|(v, t)| T::PList(v, Box::new(T::Var(t)))),
    ]
    .boxed()
}

fn raw_body() -> BoxedStrategy<Body> {
    let leaf = prop_oneof![
        7 => (proptest::collection::vec(tok(), 0..=3), any::<bool>()).prop_map(|(v, s)| Body::Lit(v, s)),
        6 => (any::<u16>(), proptest::collection::vec(arg_term(), 0..=2), how()).prop_map(|(nt, args, how)| Body::Call { nt: nt as usize, args, how }),
        2 => Just(Body::Cut),
        3 => proptest::collection::vec(goal(), 1..=2).prop_map(Body::Goal),
        1 => seq_arg().prop_map(Body::SeqLib),
        1 => Just(Body::Dots),
    ];
    leaf.prop_recursive(3, 12, 4, |inner| {
        prop_oneof![
            5 => proptest::collection::vec(inner.clone(), 2..=4).prop_map(Body::Seq),
            2 => (inner.clone(), inner.clone(), any::<bool>()).prop_map(|(a, b, bar)| Body::Alt(Box::new(a), Box::new(b), bar)),
            2 => (inner.clone(), inner.clone(), inner.clone()).prop_map(|(c, t, e)| Body::Ite(Box::new(c), Box::new(t), Box::new(e))),
            1 => inner.clone().prop_map(|b| Body::Phrase(Box::new(b))),
        ]
    })
    .boxed()
}

#[derive(Clone, Debug)]
struct RawRule {
    head: Vec<T>,
    pushback: Option<(Vec<T>, bool)>,
    pre: Vec<T>,
    body: Body,
}

fn raw_rule() -> BoxedStrategy<RawRule> {
    (
        proptest::collection::vec(arg_term(), 2),
        proptest::option::weighted(0.18, (proptest::collection::vec(tok(), 1..=2), any::<bool>())),
        proptest::collection::vec(tok(), 2),
        raw_body(),
    )
        .prop_map(|(head, pushback, pre, body)| RawRule { head, pushback, pre, body })
        .boxed()
}

struct Fix<'a> {
    arity: &'a [u8],
    /// index of the non-terminal whose rule is being fixed; -1 for a top-level body
    cur: i64,
    via: u32,
}

impl<'a> Fix<'a> {
    /// returns the valid body and whether every path through it has consumed a terminal
    fn fix(&mut self, b: Body, consumed: bool) -> (Body, bool) {
        match b {
            Body::Lit(ts, s) => {
                let c = consumed || !ts.is_empty();
                (Body::Lit(ts, s), c)
            }
            Body::Call { nt, mut args, how } => {
                let k = self.arity.len() as i64;
                let lo = if consumed { 0 } else { self.cur + 1 };
                if lo >= k {
                    return (Body::Lit(vec![atom("a")], false), true);
                }
                let span = (k - lo) as usize;
                let idx = lo as usize + ((nt & 0xffff) * span >> 16);
                let ar = self.arity[idx] as usize;
                args.truncate(ar);
                while args.len() < ar {
                    args.push(T::Var(args.len() as u32 + 2));
                }
                let how = match how {
                    How::Plain => How::Plain,
                    How::CallN(k) => How::CallN(k.min(ar as u8)),
                    How::PhraseN(k) => How::PhraseN(k.min(ar as u8)),
                    How::ViaVar(_) => {
                        self.via += 1;
                        How::ViaVar(39 + self.via)
                    }
                };
                (Body::Call { nt: idx, args, how }, consumed)
            }
            Body::Seq(v) => {
                let mut c = consumed;
                let mut out = vec![];
                for x in v {
                    let (y, c2) = self.fix(x, c);
                    c = c2;
                    out.push(y);
                }
                match out.len() {
                    0 => (Body::Lit(vec![], false), c),
                    1 => (out.pop().unwrap(), c),
                    _ => (Body::Seq(out), c),
                }
            }
            Body::Alt(a, b, bar) => {
                let (a2, ca) = self.fix(*a, consumed);
                let (b2, cb) = self.fix(*b, consumed);
                (Body::Alt(Box::new(a2), Box::new(b2), bar), ca && cb)
            }
            Body::Ite(c, t, e) => {
                // no cut inside a condition: scryer's (C -> T ; E) is transparent to a cut in C
                // (deviation from ISO 7.8.8 in the core, not in the DCG translation; reported separately)
                let (c2, cc) = self.fix(strip_cuts(*c), consumed);
                let (t2, ct) = self.fix(*t, cc);
                let (e2, ce) = self.fix(*e, consumed);
                (Body::Ite(Box::new(c2), Box::new(t2), Box::new(e2)), ct && ce)
            }
            Body::Phrase(b) => {
                let (b2, c) = self.fix(*b, consumed);
                (Body::Phrase(Box::new(b2)), c)
            }
            other => (other, consumed),
        }
    }
}

fn strip_cuts(b: Body) -> Body {
    match b {
        Body::Cut => Body::Lit(vec![], false),
        Body::Goal(gs) => Body::Goal(gs.into_iter().map(|g| if matches!(g, Goal::Cut) { Goal::True } else { g }).collect()),
        Body::Seq(v) => Body::Seq(v.into_iter().map(strip_cuts).collect()),
        Body::Alt(a, b, bar) => Body::Alt(Box::new(strip_cuts(*a)), Box::new(strip_cuts(*b)), bar),
        Body::Ite(c, t, e) => Body::Ite(Box::new(strip_cuts(*c)), Box::new(strip_cuts(*t)), Box::new(strip_cuts(*e))),
        Body::Phrase(b) => Body::Phrase(Box::new(strip_cuts(*b))),
        other => other,
    }
}

fn input_strategy() -> BoxedStrategy<Input> {
    prop_oneof![
        4 => (proptest::collection::vec(0u8..3, 4..=7), any::<bool>()).prop_map(|(toks, as_string)| Input { toks, as_string }),
        2 => proptest::collection::vec(prop_oneof![3 => 0u8..3, 2 => Just(3u8)], 1..=4).prop_map(|toks| Input { toks, as_string: false }),
    ]
    .boxed()
}

pub fn case_strategy() -> BoxedStrategy<Case> {
    (
        1usize..=5,
        proptest::collection::vec(0u8..=2, 5),
        proptest::collection::vec(proptest::collection::vec(raw_rule(), 1..=3), 5),
        proptest::collection::vec((proptest::option::weighted(0.3, raw_body()), any::<u16>(), proptest::collection::vec(arg_term(), 2)), 1..=2),
        prop_oneof![1 => Just(1u8), 3 => Just(2u8), 3 => Just(3u8)],
        proptest::collection::vec(input_strategy(), 0..=4),
    )
        .prop_map(|(k, arity, rules, tops, exh, extra)| {
            let arity: Vec<u8> = arity[..k].to_vec();
            let mut out_rules = vec![];
            for (i, rs) in rules.into_iter().take(k).enumerate() {
                for r in rs {
                    let mut head = r.head;
                    head.truncate(arity[i] as usize);
                    let body = match &r.pushback {
                        Some((pb, _)) => {
                            // the rule must consume at least as many tokens as it pushes back
                            let pre: Vec<T> = r.pre.iter().take(pb.len()).cloned().collect();
                            Body::Seq(vec![Body::Lit(pre, false), r.body])
                        }
                        None => r.body,
                    };
                    let mut f = Fix { arity: &arity, cur: i as i64, via: 0 };
                    let (body, _) = f.fix(body, false);
                    out_rules.push(Rule { nt: i, head, pushback: r.pushback, body });
                }
            }
            let mut out_tops = vec![];
            for (tb, nt, args) in tops {
                let raw = match tb {
                    Some(b) => b,
                    None => Body::Call { nt: nt as usize, args, how: How::Plain },
                };
                let mut f = Fix { arity: &arity, cur: -1, via: 0 };
                let (b, _) = f.fix(raw, true);
                out_tops.push(b);
            }
            Case { g: Grammar { arity, rules: out_rules }, tops: out_tops, exh, extra }
        })
        .boxed()
}

// ---------------------------------------------------------------------------------------------
// Check

pub struct Env {
    pub s: Session,
    pub counter: u64,
}

pub fn mk_env() -> Env {
    Env { s: Session::new(&["dcgs", "lists"]), counter: 0 }
}

fn all_inputs(c: &Case) -> Vec<Input> {
    let mut v = vec![];
    let mut level: Vec<Vec<u8>> = vec![vec![]];
    let mut n = 0usize;
    for len in 0..=c.exh {
        for toks in &level {
            v.push(Input { toks: toks.clone(), as_string: n % 2 == 1 });
            n += 1;
        }
        if len < c.exh {
            let mut next = vec![];
            for toks in &level {
                for t in 0..3u8 {
                    let mut x = toks.clone();
                    x.push(t);
                    next.push(x);
                }
            }
            level = next;
        }
    }
    v.extend(c.extra.iter().cloned());
    v
}

fn input_term(i: &Input) -> T {
    let items: Vec<T> = i.toks.iter().enumerate().map(|(k, t)| if *t < 3 { atom(ALPHA[*t as usize]) } else { T::Var(INPUT_VAR0 + k as u32) }).collect();
    if i.as_string && !items.is_empty() && i.toks.iter().all(|t| *t < 3) {
        T::Str(i.toks.iter().map(|t| ALPHA[*t as usize]).collect::<String>())
    } else {
        list(items)
    }
}

fn body_vars(b: &Body, out: &mut Vec<u32>) {
    match b {
        Body::Lit(ts, _) => ts.iter().for_each(|t| t.vars(out)),
        Body::Call { args, .. } => args.iter().for_each(|t| t.vars(out)),
        Body::Seq(v) => v.iter().for_each(|x| body_vars(x, out)),
        Body::Alt(a, b, _) => {
            body_vars(a, out);
            body_vars(b, out)
        }
        Body::Ite(c, t, e) => {
            body_vars(c, out);
            body_vars(t, out);
            body_vars(e, out)
        }
        Body::Goal(gs) => {
            for g in gs {
                match g {
                    Goal::Unify(a, b) | Goal::Eq(a, b) | Goal::Neq(a, b) => {
                        a.vars(out);
                        b.vars(out)
                    }
                    Goal::Is(x, e) => {
                        x.vars(out);
                        arith_vars(e, out)
                    }
                    Goal::Less(a, b) => {
                        arith_vars(a, out);
                        arith_vars(b, out)
                    }
                    _ => {}
                }
            }
        }
        Body::Phrase(b) => body_vars(b, out),
        Body::SeqLib(t) => t.vars(out),
        Body::Cut | Body::Dots => {}
    }
}

fn arith_vars(a: &Arith, out: &mut Vec<u32>) {
    match a {
        Arith::Val(t) => t.vars(out),
        Arith::Plus(x, y) => {
            x.vars(out);
            y.vars(out)
        }
    }
}

fn fail_panic(o: &Outcome, what: &str) -> Option<Verdict> {
    if let Outcome::Panic(m) = o {
        return Some(Verdict::fail(format!("panic:{}", m.split_whitespace().next().unwrap_or("?")), format!("{what} panicked: {m}")));
    }
    None
}

fn sols_match(exp: &[T], got: &[T]) -> bool {
    exp.len() == got.len() && exp.iter().zip(got).all(|(e, g)| e.variant(g))
}

fn show(v: &[T]) -> String {
    format!("[{}]", v.iter().map(|t| t.norm().text()).collect::<Vec<_>>().join("; "))
}

/// Compare one query. `wrapper`: the phrase call sits in the first of two clauses of a consulted
/// predicate whose second clause answers `second`.
#[allow(clippy::too_many_arguments)]
fn compare(env: &mut Env, g: &Grammar, top: &Body, input: &T, rest: &T, template: &T, exp: &RefOutcome, goal: &str, tmpl_text: &str, mode: &str, wrapper: bool, stats: &mut Stats) -> Option<Verdict> {
    if let RefOutcome::Abort(m) = exp {
        stats.aborted += 1;
        *stats.abort_reasons.entry(m.clone()).or_default() += 1;
        return None;
    }
    let o = env.s.ask(goal, tmpl_text);
    stats.queries += 1;
    if let Some(v) = fail_panic(&o, goal) {
        return Some(v);
    }
    if let Outcome::Harness(m) = &o {
        return Some(Verdict::Discard(format!("harness:{}", m.chars().take(40).collect::<String>())));
    }
    match exp {
        RefOutcome::Throw(_) => stats.errors += 1,
        RefOutcome::Sols(sols, _) => match sols.len() {
            0 => stats.sols0 += 1,
            1 => stats.sols1 += 1,
            _ => stats.sols2 += 1,
        },
        RefOutcome::Abort(_) => {}
    }
    if agrees(exp, &o, wrapper, false) {
        return None;
    }
    // label the mismatch: does the model in which phrase/3 bodies are transparent to cut
    // (the body inlined into the calling clause) explain the observed outcome?
    // (call/1 compiles its argument like a clause body, goal expansion included, so a phrase//1 element inside
    // a phrase/3 body that is translated at run time is inlined as well)
    let leaks: &[Leak] = &[Leak { rules: false, top: true }, Leak { rules: true, top: false }, Leak { rules: true, top: true }];
    for leak in leaks {
        let le = run_ref(g, top, input, rest, template, *leak, MAX_STEPS, MAX_SOLS);
        if agrees(&le, &o, wrapper, leak.top) {
            let site = match (leak.rules, leak.top) {
                (true, false) => "phrase-in-rule",
                (false, true) => "phrase-in-clause",
                _ => "both",
            };
            return Some(Verdict::fail(
                format!("cut-leak:{site}"),
                format!("{mode}: {goal} gave {} expected {} -- matches the model in which a cut inside the body of a compile-time expanded phrase/3 call cuts the enclosing clause", o.short(), show_exp(exp, wrapper)),
            ));
        }
    }
    let class = match (exp, &o) {
        (RefOutcome::Throw(_), _) => "wrong-error",
        (_, Outcome::Sols(_)) => "wrong-answers",
        _ => "unexpected-error",
    };
    Some(Verdict::fail(format!("{class}:{mode}"), format!("{goal} gave {} expected {}", o.short(), show_exp(exp, wrapper))))
}

fn show_exp(exp: &RefOutcome, wrapper: bool) -> String {
    match exp {
        RefOutcome::Throw(f) => format!("an error among {}", show(f)),
        RefOutcome::Sols(s, _) => {
            let mut w = s.clone();
            if wrapper {
                w.push(atom("second"));
            }
            show(&w)
        }
        RefOutcome::Abort(m) => format!("(model refused: {m})"),
    }
}

/// does the observed outcome agree with this expectation?
fn agrees(exp: &RefOutcome, o: &Outcome, wrapper: bool, leak_top: bool) -> bool {
    match (exp, o) {
        (RefOutcome::Throw(formals), _) => match o.formal() {
            Some(f) => formals.iter().any(|e| e.eq_struct(&f)),
            None => false,
        },
        (RefOutcome::Sols(sols, cut_top), Outcome::Sols(got)) => {
            let mut want = sols.clone();
            if wrapper && !(leak_top && *cut_top) {
                want.push(atom("second"));
            }
            sols_match(&want, got)
        }
        _ => false,
    }
}

#[derive(Default)]
struct Stats {
    queries: u64,
    aborted: u64,
    errors: u64,
    sols0: u64,
    sols1: u64,
    sols2: u64,
    nonempty_rest: bool,
    abort_reasons: std::collections::BTreeMap<String, u64>,
}

pub fn program_text(c: &Case, prefix: &str) -> String {
    let mut text = render_grammar(&c.g, prefix);
    for (ti, top) in c.tops.iter().enumerate() {
        let mut qv = vec![];
        body_vars(top, &mut qv);
        qv.retain(|v| *v < 40);
        let qargs: Vec<String> = qv.iter().map(|v| T::Var(*v).text()).collect();
        let q = if qargs.is_empty() { String::new() } else { format!("{},", qargs.join(",")) };
        let bt = render_body(top, prefix);
        text.push_str(&format!("{prefix}w{ti}a(T, I) :- T = s({q}I,R), phrase({bt}, I, R).\n{prefix}w{ti}a(second, _).\n"));
        text.push_str(&format!("{prefix}w{ti}b(T, I) :- T = s({q}I,[]), phrase({bt}, I).\n{prefix}w{ti}b(second, _).\n"));
    }
    text
}

pub fn check(env: &mut Env, c: &Case) -> Verdict {
    env.counter += 1;
    let prefix = format!("g{}", env.counter);
    let text = program_text(c, &prefix);
    if !env.s.consult(&text, &format!("{prefix}s")) {
        return Verdict::fail("load-rejected", format!("consulting a valid grammar was rejected:\n{text}"));
    }
    let mut stats = Stats::default();
    let mut leak_seen: Option<Verdict> = None;
    let nilt = nil();
    let inputs = all_inputs(c);
    for (ti, top) in c.tops.iter().enumerate() {
        let mut qv = vec![];
        body_vars(top, &mut qv);
        qv.retain(|v| *v < 40);
        let bt = render_body(top, &prefix);
        for inp in &inputs {
            let it = input_term(inp);
            let itn = it.norm();
            let rest = T::Var(REST_VAR);
            let mut targs: Vec<T> = qv.iter().map(|v| T::Var(*v)).collect();
            targs.push(itn.clone());
            let mut targs2 = targs.clone();
            targs.push(rest.clone());
            targs2.push(nil());
            let t3 = cmp("s", targs);
            let t2 = cmp("s", targs2);
            let itext = it.text();
            let exp3 = run_ref(&c.g, top, &itn, &rest, &t3, Leak::default(), MAX_STEPS, MAX_SOLS);
            let exp2 = run_ref(&c.g, top, &itn, &nil(), &t2, Leak::default(), MAX_STEPS, MAX_SOLS);
            if let RefOutcome::Sols(s, _) = &exp3 {
                if s.iter().any(|r| matches!(r, T::Cmp(_, a) if !a.last().unwrap().is_nil())) {
                    stats.nonempty_rest = true;
                }
            }
            let g1 = format!("phrase({bt}, {itext}, {})", rest.text());
            let g2 = format!("phrase({bt}, {itext})");
            let g3 = format!("{prefix}w{ti}a(T, {itext})");
            let g4 = format!("{prefix}w{ti}b(T, {itext})");
            let t3t = t3.text();
            let t2t = t2.text();
            // phrase/3, phrase/2 called at run time; then as goals of a consulted clause (goal expansion applies)
            let runs: [(&T, &T, &RefOutcome, &str, &str, &str, bool); 4] = [
                (&rest, &t3, &exp3, &g3, "T", "phrase3-compiled", true),
                (&nilt, &t2, &exp2, &g4, "T", "phrase2-compiled", true),
                (&rest, &t3, &exp3, &g1, &t3t, "phrase3-runtime", false),
                (&nilt, &t2, &exp2, &g2, &t2t, "phrase2-runtime", false),
            ];
            for (r, t, exp, goal, tt, mode, wrapper) in runs {
                if let Some(v) = compare(env, &c.g, top, &itn, r, t, exp, goal, tt, mode, wrapper, &mut stats) {
                    match &v {
                        // tolerated in the oracle for exactly this signature when it is a known finding:
                        // keep checking the remaining queries of the case, report it at the end
                        Verdict::Fail { signature, .. } if signature.starts_with("cut-leak:") && is_known_open(signature) => {
                            if leak_seen.is_none() {
                                leak_seen = Some(v);
                            }
                        }
                        _ => return v,
                    }
                }
            }
        }
    }
    if let Some(v) = leak_seen {
        return v;
    }
    if stats.queries == 0 {
        return Verdict::Discard("model-refused-every-query".into());
    }
    let mut f = Features::default();
    f.scan_grammar(&c.g);
    for t in &c.tops {
        f.scan_body(t, None);
    }
    let mut classes: Vec<&str> = vec![];
    for (on, name) in [
        (f.cut, "cut"),
        (f.pushback, "pushback"),
        (f.ite, "if-then-else"),
        (f.alt, "alternative"),
        (f.bar, "bar-alternative"),
        (f.goal, "brace-goal"),
        (f.arith, "arith-goal"),
        (f.call_n, "call//N"),
        (f.phrase_n, "phrase//N"),
        (f.via_var, "variable-body"),
        (f.phrase_body, "phrase//1-body"),
        (f.seq_lib, "seq//1"),
        (f.dots, "...//0"),
        (f.string_lit, "string-terminal"),
        (f.var_token, "variable-terminal"),
        (f.recursion, "recursive"),
        (stats.errors > 0, "error-expected"),
        (stats.sols2 > 0, "ambiguous-parse"),
        (stats.nonempty_rest, "nonempty-remainder"),
        (stats.aborted > 0, "some-queries-refused-by-model"),
        (inputs.iter().any(|i| i.toks.contains(&3)), "variable-input"),
        (inputs.iter().any(|i| i.as_string && !i.toks.is_empty()), "string-input"),
    ] {
        if on {
            classes.push(name);
        }
    }
    let nontrivial = (f.cut || f.pushback || f.ite) && (stats.sols2 > 0 || stats.nonempty_rest);
    Verdict::pass(nontrivial, &classes)
}

pub struct C39;

impl Prop for C39 {
    fn id(&self) -> &'static str {
        "C39"
    }
    fn rule(&self) -> &'static str {
        "grammars of 1-5 non-terminals x 1-3 rules (arity 0-2) with bodies over terminal lists, \"strings\", variable terminals, non-terminals with arguments, {}//0 (=, ==, \\==, is, <, !, true, fail), !, (A;B), (A|B), (C->T;E), call//N, phrase//1..3, a variable as body, seq//1, ...//0, pushback; recursion only behind a consumed terminal (terminating by construction); inputs: every string over {a,b,c} up to length 1-3 plus random ones up to length 7 (list or \"string\" notation) and lists with unbound elements; each (body, input) is run as phrase/3 and phrase/2 both called at run time and as goals of a consulted clause, and the ordered answers (bindings, remainder) are compared with a reference interpreter of the grammar AST; non-trivial = grammar with a cut, pushback or if-then-else and an input with >= 2 parses or a non-empty remainder; distinct by case encoding"
    }
    fn assumptions(&self) -> Vec<String> {
        vec![
            "the reference interpreter follows the DCG draft (ISO/IEC DTR 13211-3) reading: cut local to the rule / phrase / condition, {}//0 transparent to cut, pushback appended to the remainder of the body".into(),
            "findall/3, =/2, ==/2, is/2 and clause resolution of scryer are used to observe (checked by other properties)".into(),
            "\\+ and if-then without else are not generated: library(dcgs) rejects them (representation_error) by design".into(),
            "no cut inside the condition of (C -> T ; E): scryer treats a cut in the condition of if-then-else as a cut of the enclosing clause (core deviation from ISO 7.8.8, outside the DCG translation)".into(),
        ]
    }
    fn run_shard(&self, cfg: &ShardCfg) -> ShardResult {
        let mut d = Driver::new(cfg, "C39");
        let n = cfg.share(cfg.tier.pick(4_000, 160_000));
        d.run("grammar", 0, n, 60, case_strategy(), &mk_env, &check);
        d.finish()
    }
    fn replay(&self, _kind: &str, case: &Value) -> Verdict {
        replay_case::<Case, Env>(case, &mk_env, &check)
    }
}
