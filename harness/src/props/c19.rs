//! C19 — Stream I/O round-trips and reports positions consistently.
//!
//! A case is a write script (put_char, put_code, put_byte, write, writeq, nl, format, clauses)
//! run on a file stream opened for writing (optionally continued in append mode), followed by a
//! read script (get_char, peek_char, get_code, peek_code, get_byte, peek_byte, get_n_chars,
//! get_line_to_chars, read_term, at_end_of_stream, stream_property position / end_of_stream,
//! set_stream_position) on the same file opened for reading with generated options
//! (type, eof_action, reposition). The oracle is a byte-exact model stream
//! (bytes, cursor, past-end flag, line counter): the file content after the write phase is read
//! back with std::fs and must equal the model bytes; every read step must return what the model
//! predicts.
//!
//! What is asserted where the documentation is silent (observed on the unchanged tree, written
//! down here so that the accepted set is explicit):
//!  * position(position_and_lines_read(P, L)): P = number of bytes consumed (file streams);
//!    L = number of newlines consumed *by read_term/3* (the only reader that counts lines in this
//!    code base); the reader consumes the end token and, if it is directly followed by a newline,
//!    that newline.
//!  * eof_action(reset) on a file stream re-reads the file from the start (position 0, L = 0).
//!  * get_n_chars/3 and get_line_to_chars/3 at the end of the stream give [] and do not change the
//!    past-end state (eof_action(error): a permission error is accepted as well).
use crate::engine::*;
use crate::gen::*;
use crate::session::{Outcome, Session};
use crate::shared::scratch::Scratch;
use crate::term::{self, T};
use dashu::integer::IBig;
use proptest::prelude::*;
use serde::{Deserialize, Serialize};
use serde_json::Value;
use std::collections::HashMap;

pub const C19_PL: &str = include_str!("../../prolog/c19.pl");

// ---------------------------------------------------------------------------------------------
// cases

#[derive(Clone, Debug, Serialize, Deserialize)]
pub enum FPart {
    Lit(String),
    /// ~a with an atom of this text
    A(String),
    /// ~d
    D(i64),
    /// ~w of a plain term
    W(T),
    /// ~s with a string
    S(String),
    /// ~n
    N,
    /// ~~
    Tilde,
    /// ~q of a plain term
    Q(T),
}

#[derive(Clone, Debug, Serialize, Deserialize)]
pub enum Item {
    PutChar(char),
    PutCode(char),
    Nl,
    Write(T),
    Writeq(T),
    WriteCanonical(T),
    /// a clause: term, end token, then newline (0), space (1), newline newline (2), tab (3)
    Clause(T, u8),
    Fmt(Vec<FPart>),
    Byte(u8),
    /// an output predicate of the other stream type (put_byte on text, put_char on binary)
    Wrong,
    Flush,
}

#[derive(Clone, Debug, Serialize, Deserialize)]
pub enum ROp {
    Gc,
    Pc,
    Gcode,
    Pcode,
    Gb,
    Pb,
    Gn(u8),
    Gall,
    Gl,
    Rt,
    Ae,
    Pos,
    Eos,
    Save(u8),
    Restore(u8),
    /// get_char with a bound argument: true = the character that is next
    GcIs(bool),
    PcIs(bool),
    /// an input predicate of the other stream type
    Wrong,
}

#[derive(Clone, Debug, Serialize, Deserialize)]
pub struct Case {
    pub binary: bool,
    /// 0 error, 1 eof_code, 2 reset
    pub eof: u8,
    pub reposition: bool,
    pub items: Vec<Item>,
    /// items[split..] are written after re-opening the file in append mode (split >= len: none)
    pub split: u8,
    pub reads: Vec<ROp>,
    /// order of the open options
    pub opt_order: u8,
}

const EOF_ACTIONS: &[&str] = &["error", "eof_code", "reset"];

// ---------------------------------------------------------------------------------------------
// generators

fn payload_char() -> BoxedStrategy<char> {
    prop_oneof![
        6 => prop_oneof![Just('a'), Just('b'), Just('z'), Just('0'), Just('X'), Just('_')],
        4 => Just('\n'),
        2 => Just(' '),
        4 => prop_oneof![Just('é'), Just('λ'), Just('日'), Just('😀'), Just('\u{301}'), Just('\u{80}'), Just('\u{7ff}'), Just('\u{800}'), Just('\u{ffff}'), Just('\u{10000}'), Just('\u{10ffff}')],
        2 => prop_oneof![Just('.'), Just('%'), Just('\''), Just('"'), Just('\\'), Just('~'), Just('('), Just(',')],
        1 => prop_oneof![Just('\t'), Just('\r'), Just('\u{1}'), Just('\u{7f}'), Just('\u{feff}')],
        1 => any::<char>().prop_filter("no NUL", |c| *c != '\0'),
    ]
    .boxed()
}

/// plain terms: what write/writeq/write_canonical print for them is exactly `T::text()`
fn plain_term() -> BoxedStrategy<T> {
    let leaf = prop_oneof![
        4 => ident_strategy().prop_map(T::Atom),
        1 => "[a-z][a-zA-Z0-9_]{0,7}".prop_filter("plain", |s| term::is_plain_atom(s)).prop_map(T::Atom),
        3 => (0i64..=1000).prop_map(|i| T::Int(IBig::from(i))),
        1 => int_strategy().prop_map(T::Int),
        1 => Just(term::nil()),
    ];
    leaf.prop_recursive(3, 10, 3, |inner| {
        prop_oneof![
            3 => (ident_strategy(), proptest::collection::vec(inner.clone(), 1..=3)).prop_map(|(f, args)| T::Cmp(f, args)),
            1 => proptest::collection::vec(inner.clone(), 1..=3).prop_map(term::list),
        ]
    })
    .boxed()
}

fn lit_text() -> BoxedStrategy<String> {
    proptest::collection::vec(payload_char().prop_filter("no tilde", |c| *c != '~'), 0..=4).prop_map(|v| v.into_iter().collect()).boxed()
}

fn fpart() -> BoxedStrategy<FPart> {
    prop_oneof![
        3 => lit_text().prop_map(FPart::Lit),
        2 => prop_oneof![ident_strategy(), lit_text()].prop_map(FPart::A),
        2 => any::<i64>().prop_map(FPart::D),
        2 => plain_term().prop_map(FPart::W),
        2 => lit_text().prop_map(FPart::S),
        2 => Just(FPart::N),
        1 => Just(FPart::Tilde),
        1 => plain_term().prop_map(FPart::Q),
    ]
    .boxed()
}

fn text_item() -> BoxedStrategy<Item> {
    prop_oneof![
        6 => payload_char().prop_map(Item::PutChar),
        3 => payload_char().prop_map(Item::PutCode),
        3 => Just(Item::Nl),
        2 => plain_term().prop_map(Item::Write),
        1 => plain_term().prop_map(Item::Writeq),
        1 => plain_term().prop_map(Item::WriteCanonical),
        6 => (plain_term(), 0u8..4).prop_map(|(t, e)| Item::Clause(t, e)),
        3 => proptest::collection::vec(fpart(), 0..=4).prop_map(Item::Fmt),
        1 => Just(Item::Wrong),
        1 => Just(Item::Flush),
    ]
    .boxed()
}

fn binary_item() -> BoxedStrategy<Item> {
    prop_oneof![
        10 => any::<u8>().prop_map(Item::Byte),
        3 => prop_oneof![Just(0u8), Just(10), Just(13), Just(255), Just(128), Just(0xC3), Just(0xE2)].prop_map(Item::Byte),
        1 => Just(Item::Wrong),
        1 => Just(Item::Flush),
    ]
    .boxed()
}

fn rop(binary: bool) -> BoxedStrategy<ROp> {
    let common = prop_oneof![
        3 => (0u8..=6).prop_map(ROp::Gn),
        1 => (7u8..=40).prop_map(ROp::Gn),
        1 => Just(ROp::Gall),
        2 => Just(ROp::Gl),
        3 => Just(ROp::Ae),
        4 => Just(ROp::Pos),
        3 => Just(ROp::Eos),
        2 => (0u8..3).prop_map(ROp::Save),
        2 => (0u8..3).prop_map(ROp::Restore),
        1 => Just(ROp::Wrong),
    ];
    if binary {
        prop_oneof![10 => Just(ROp::Gb), 8 => Just(ROp::Pb), 12 => common].boxed()
    } else {
        prop_oneof![
            8 => Just(ROp::Gc),
            7 => Just(ROp::Pc),
            4 => Just(ROp::Gcode),
            4 => Just(ROp::Pcode),
            6 => Just(ROp::Rt),
            2 => any::<bool>().prop_map(ROp::GcIs),
            2 => any::<bool>().prop_map(ROp::PcIs),
            20 => common,
        ]
        .boxed()
    }
}

pub fn case_strategy() -> BoxedStrategy<Case> {
    any::<bool>()
        .prop_flat_map(|coin| {
            // one case in four is binary
            let binary = coin;
            (Just(binary), any::<bool>())
        })
        .prop_flat_map(|(b1, b2)| {
            let binary = b1 && b2;
            let items = if binary { proptest::collection::vec(binary_item(), 0..=16).boxed() } else { proptest::collection::vec(text_item(), 0..=10).boxed() };
            (Just(binary), 0u8..3, prop_oneof![3 => Just(true), 1 => Just(false)], items, prop_oneof![3 => Just(255u8), 1 => 0u8..10], proptest::collection::vec(rop(binary), 0..=30), 0u8..6)
        })
        .prop_map(|(binary, eof, reposition, items, split, reads, opt_order)| Case { binary, eof, reposition, items, split, reads, opt_order })
        .boxed()
}

// ---------------------------------------------------------------------------------------------
// model

fn ending(e: u8) -> &'static str {
    match e % 4 {
        0 => "\n",
        1 => " ",
        2 => "\n\n",
        _ => "\t",
    }
}

fn has_list(t: &T) -> bool {
    match t {
        T::PList(..) | T::Str(_) => true,
        T::Cmp(_, args) => args.iter().any(has_list),
        _ => false,
    }
}

fn codes_text(s: &str) -> String {
    let v: Vec<String> = s.chars().map(|c| (c as u32).to_string()).collect();
    format!("[{}]", v.join(","))
}

struct WPlan {
    /// (prolog op text, expected result)
    ops: Vec<(String, Exp)>,
    bytes: Vec<u8>,
    /// clause spans: start offset -> (offset just behind the end token, term)
    clauses: HashMap<usize, (usize, T)>,
}

#[derive(Clone, Debug)]
enum Exp {
    /// v(Value)
    V(T),
    /// ex(error(Formal, _))
    Err(T),
    /// v(position_and_lines_read(P, L)); lines None = not asserted
    Pos(u64, Option<u64>, Option<u64>),
    /// v(Term - position)
    TermPos(T, u64, Option<u64>, Option<u64>),
    /// any of these
    OneOf(Vec<Exp>),
    /// the first; the second is a known deviation with this signature
    Alt(Box<Exp>, Box<Exp>, &'static str),
    /// not predicted
    Any,
}

fn perm(action: &str, what: &str) -> T {
    term::cmp("permission_error", vec![term::atom(action), term::atom(what), term::atom("$s")])
}

fn plan_write(c: &Case, items: &[Item], base: usize) -> WPlan {
    let mut ops = vec![];
    let mut bytes: Vec<u8> = vec![];
    let mut clauses = HashMap::new();
    let ok = Exp::V(term::atom("ok"));
    let push_char = |bytes: &mut Vec<u8>, ch: char| {
        let mut b = [0u8; 4];
        bytes.extend_from_slice(ch.encode_utf8(&mut b).as_bytes());
    };
    for it in items {
        match it {
            Item::PutChar(ch) => {
                if c.binary {
                    ops.push((format!("pc({})", *ch as u32), Exp::Err(perm("output", "binary_stream"))));
                } else {
                    ops.push((format!("pc({})", *ch as u32), ok.clone()));
                    push_char(&mut bytes, *ch);
                }
            }
            Item::PutCode(ch) => {
                if c.binary {
                    ops.push((format!("pcode({})", *ch as u32), Exp::Err(perm("output", "binary_stream"))));
                } else {
                    ops.push((format!("pcode({})", *ch as u32), ok.clone()));
                    push_char(&mut bytes, *ch);
                }
            }
            Item::Nl => {
                if c.binary {
                    ops.push(("nl".into(), Exp::Err(perm("output", "binary_stream"))));
                } else {
                    ops.push(("nl".into(), ok.clone()));
                    bytes.push(b'\n');
                }
            }
            Item::Write(t) | Item::Writeq(t) | Item::WriteCanonical(t) => {
                let f = match it {
                    Item::Write(_) => "w",
                    Item::Writeq(_) => "wq",
                    // write_canonical prints lists in '.'/2 notation (ignore_ops(true)); that is the
                    // printer's business (C15), lists go through writeq here
                    _ => {
                        if has_list(t) {
                            "wq"
                        } else {
                            "wc"
                        }
                    }
                };
                if c.binary {
                    ops.push((format!("{f}({})", t.text()), Exp::Err(perm("output", "binary_stream"))));
                } else {
                    ops.push((format!("{f}({})", t.text()), ok.clone()));
                    bytes.extend_from_slice(t.text().as_bytes());
                }
            }
            Item::Clause(t, e) => {
                if c.binary {
                    continue;
                }
                let start = base + bytes.len();
                ops.push((format!("wq({})", t.text()), ok.clone()));
                bytes.extend_from_slice(t.text().as_bytes());
                ops.push((format!("pc({})", '.' as u32), ok.clone()));
                bytes.push(b'.');
                let dot_end = base + bytes.len();
                for ch in ending(*e).chars() {
                    ops.push((format!("pc({})", ch as u32), ok.clone()));
                    push_char(&mut bytes, ch);
                }
                clauses.insert(start, (dot_end, t.clone()));
            }
            Item::Fmt(parts) => {
                if c.binary {
                    continue;
                }
                let mut fs = String::new();
                let mut args: Vec<String> = vec![];
                let mut out = String::new();
                for p in parts {
                    match p {
                        FPart::Lit(s) => {
                            fs.push_str(s);
                            out.push_str(s);
                        }
                        FPart::A(s) => {
                            fs.push_str("~a");
                            args.push(T::Atom(s.clone()).text());
                            out.push_str(s);
                        }
                        FPart::D(i) => {
                            fs.push_str("~d");
                            args.push(i.to_string());
                            out.push_str(&i.to_string());
                        }
                        FPart::W(t) => {
                            fs.push_str("~w");
                            args.push(t.text());
                            out.push_str(&t.text());
                        }
                        FPart::S(s) => {
                            fs.push_str("~s");
                            args.push(T::Str(s.clone()).text());
                            out.push_str(s);
                        }
                        FPart::N => {
                            fs.push_str("~n");
                            out.push('\n');
                        }
                        FPart::Tilde => {
                            fs.push_str("~~");
                            out.push('~');
                        }
                        FPart::Q(t) => {
                            fs.push_str("~q");
                            args.push(t.text());
                            out.push_str(&t.text());
                        }
                    }
                }
                ops.push((format!("fmt({}, [{}])", codes_text(&fs), args.join(",")), ok.clone()));
                bytes.extend_from_slice(out.as_bytes());
            }
            Item::Byte(b) => {
                if c.binary {
                    ops.push((format!("pbyte({b})"), ok.clone()));
                    bytes.push(*b);
                } else {
                    ops.push((format!("pbyte({b})"), Exp::Err(perm("output", "text_stream"))));
                }
            }
            Item::Wrong => {
                if c.binary {
                    ops.push(("pc(97)".into(), Exp::Err(perm("output", "binary_stream"))));
                } else {
                    ops.push(("pbyte(97)".into(), Exp::Err(perm("output", "text_stream"))));
                }
            }
            Item::Flush => ops.push(("flush".into(), ok.clone())),
        }
    }
    WPlan { ops, bytes, clauses }
}

struct Model<'a> {
    bytes: &'a [u8],
    binary: bool,
    eof: u8,
    reposition: bool,
    cur: usize,
    past: bool,
    /// lines the specification expects, and (after a set_stream_position) the count the
    /// implementation is known to keep instead (see known finding lines-not-restored)
    lines: u64,
    lines_alt: Option<u64>,
    saved: HashMap<u8, (usize, u64)>,
    clauses: &'a HashMap<usize, (usize, T)>,
    // coverage
    peek_before_multibyte: bool,
    read_past_end: bool,
    pos_after_newline: bool,
    newline_consumed: bool,
    repositioned: bool,
    resets: u32,
    /// model the known defect "get_char/get_code/get_n_chars skip a U+FEFF wherever it is next"
    quirk: bool,
    /// the quirk model gave up predicting (everything after is accepted)
    blind: bool,
}

enum Enter {
    Go,
    Done(Exp),
}

impl<'a> Model<'a> {
    fn len(&self) -> usize {
        self.bytes.len()
    }
    fn at_end(&self) -> bool {
        self.cur >= self.len()
    }
    fn next_char(&self) -> Option<(char, usize)> {
        if self.at_end() {
            return None;
        }
        if self.binary {
            return Some((self.bytes[self.cur] as char, 1));
        }
        let rest = &self.bytes[self.cur..];
        let n = match rest[0] {
            b if b < 0x80 => 1,
            b if b >= 0xF0 => 4,
            b if b >= 0xE0 => 3,
            _ => 2,
        };
        let s = std::str::from_utf8(&rest[..n]).expect("model payload is valid UTF-8 and the cursor is on a boundary");
        Some((s.chars().next().unwrap(), n))
    }
    fn advance(&mut self, n: usize) {
        if self.bytes[self.cur..self.cur + n].contains(&b'\n') {
            self.newline_consumed = true;
        }
        self.cur += n;
    }
    fn eof_value(&self, code: bool) -> T {
        if code {
            term::int(-1)
        } else {
            term::atom("end_of_file")
        }
    }
    /// behaviour of an ISO input predicate that finds the stream past its end
    fn enter(&mut self, code: bool) -> Enter {
        if !self.past {
            return Enter::Go;
        }
        self.read_past_end = true;
        match self.eof {
            0 => Enter::Done(Exp::Err(perm("input", "past_end_of_stream"))),
            1 => {
                if code && !self.binary {
                    Enter::Done(Exp::Alt(Box::new(Exp::V(term::int(-1))), Box::new(Exp::V(term::atom("end_of_file"))), "past-end:code-predicate-returns-atom-end_of_file"))
                } else {
                    Enter::Done(Exp::V(self.eof_value(code)))
                }
            }
            _ => {
                self.cur = 0;
                self.past = false;
                self.lines = 0;
                self.lines_alt = None;
                self.resets += 1;
                Enter::Go
            }
        }
    }
    /// the clause that starts at `from` or behind a run of blanks / tabs / newlines after `from`
    fn clause_from(&self, from: usize) -> Option<(usize, T)> {
        let mut s = from;
        loop {
            if let Some((dot_end, t)) = self.clauses.get(&s) {
                return Some((*dot_end, t.clone()));
            }
            match self.bytes.get(s) {
                Some(b' ') | Some(b'\n') | Some(b'\t') => s += 1,
                _ => return None,
            }
        }
    }
    /// quirk model: a U+FEFF that is next is dropped by the get predicates
    fn skip_feff(&mut self) -> bool {
        if self.quirk && !self.binary {
            if let Some(('\u{feff}', n)) = self.next_char() {
                self.advance(n);
                return true;
            }
        }
        false
    }
    fn pos_exp(&mut self) -> (u64, Option<u64>, Option<u64>) {
        (self.cur as u64, Some(self.lines), self.lines_alt)
    }
}

fn chars_t(s: &[char]) -> T {
    term::list(s.iter().map(|c| T::Atom(c.to_string())).collect())
}

/// Plans the read script: drops steps the model cannot predict, returns the Prolog step texts
/// with their expectations.
fn plan_reads(c: &Case, m: &mut Model) -> Vec<(String, Exp)> {
    let mut out: Vec<(String, Exp)> = vec![];
    for op in &c.reads {
        match op {
            ROp::Gc | ROp::Gcode | ROp::Gb | ROp::Pc | ROp::Pcode | ROp::Pb | ROp::GcIs(_) | ROp::PcIs(_) => {
                let is_byte = matches!(op, ROp::Gb | ROp::Pb);
                if is_byte != c.binary {
                    continue;
                }
                let code = matches!(op, ROp::Gcode | ROp::Pcode | ROp::Gb | ROp::Pb);
                let peek = matches!(op, ROp::Pc | ROp::Pcode | ROp::Pb | ROp::PcIs(_));
                let bound = match op {
                    ROp::GcIs(b) | ROp::PcIs(b) => Some(*b),
                    _ => None,
                };
                // the bound variants are planned against the state after a possible reset
                let entered = m.enter(code);
                let mut chosen: Option<char> = None;
                let name = match op {
                    ROp::Gc => "gc".to_string(),
                    ROp::Pc => "pc".to_string(),
                    ROp::Gcode => "gcode".to_string(),
                    ROp::Pcode => "pcode".to_string(),
                    ROp::Gb => "gb".to_string(),
                    ROp::Pb => "pb".to_string(),
                    _ => {
                        let next = if m.past { None } else { m.next_char() };
                        let ch = match (bound.unwrap(), next) {
                            (true, Some((ch, _))) => ch,
                            (_, Some((ch, _))) => {
                                if ch == 'q' {
                                    'r'
                                } else {
                                    'q'
                                }
                            }
                            (_, None) => 'q',
                        };
                        chosen = Some(ch);
                        format!("{}({})", if peek { "pc_is" } else { "gc_is" }, ch as u32)
                    }
                };
                match entered {
                    Enter::Done(e) => {
                        let e = match (&e, bound) {
                            // a bound character never unifies with end_of_file
                            (Exp::V(_), Some(_)) | (Exp::Alt(..), Some(_)) => Exp::V(term::atom("false")),
                            _ => e,
                        };
                        out.push((name, e));
                    }
                    Enter::Go => {
                        // quirk model: the at-end test comes first, then a U+FEFF is dropped
                        if !peek && !m.at_end() && m.skip_feff() && m.at_end() {
                            m.read_past_end = true;
                            match m.eof {
                                1 => {
                                    m.past = true;
                                    let e = match bound {
                                        Some(_) => Exp::V(term::atom("false")),
                                        None => Exp::OneOf(vec![Exp::V(m.eof_value(code)), Exp::V(term::atom("end_of_file"))]),
                                    };
                                    out.push((name, e));
                                }
                                0 => {
                                    m.past = true;
                                    out.push((name, Exp::Err(perm("input", "past_end_of_stream"))));
                                }
                                _ => {
                                    m.blind = true;
                                    out.push((name, Exp::Any));
                                }
                            }
                            if m.blind {
                                break;
                            }
                            continue;
                        }
                        match m.next_char() {
                            None => {
                                if !peek {
                                    m.past = true;
                                }
                                m.read_past_end = true;
                                let v = match bound {
                                    Some(_) => term::atom("false"),
                                    None => m.eof_value(code),
                                };
                                out.push((name, Exp::V(v)));
                            }
                            Some((ch, n)) => {
                                if peek && n > 1 {
                                    m.peek_before_multibyte = true;
                                }
                                if !peek {
                                    m.advance(n);
                                }
                                let v = match bound {
                                    Some(_) => term::atom(if chosen == Some(ch) { "true" } else { "false" }),
                                    None => {
                                        if code {
                                            term::int(ch as u32)
                                        } else {
                                            T::Atom(ch.to_string())
                                        }
                                    }
                                };
                                out.push((name, Exp::V(v)));
                            }
                        }
                    }
                }
            }
            ROp::Gn(_) | ROp::Gall | ROp::Gl => {
                if m.past && m.eof == 2 {
                    continue; // library predicates: whether they reset is not documented
                }
                let mut got: Vec<char> = vec![];
                let limit = match op {
                    ROp::Gn(n) => *n as usize,
                    _ => usize::MAX,
                };
                let at_end_before = m.at_end();
                // one '$get_n_chars' call per: the whole of gn(N); 512 characters of gall; one
                // character of gl (the quirk model drops a U+FEFF at the start of each call)
                let per_call = match op {
                    ROp::Gn(_) => usize::MAX,
                    ROp::Gall => 512,
                    _ => 1,
                };
                'calls: while got.len() < limit || limit == 0 {
                    m.skip_feff();
                    let mut in_call = 0usize;
                    while in_call < per_call && got.len() < limit {
                        match m.next_char() {
                            None => break,
                            Some((ch, n)) => {
                                m.advance(n);
                                got.push(ch);
                                in_call += 1;
                                if matches!(op, ROp::Gl) && ch == '\n' {
                                    break 'calls;
                                }
                            }
                        }
                    }
                    if in_call == 0 || matches!(op, ROp::Gn(_)) {
                        break;
                    }
                }
                let (name, v) = match op {
                    ROp::Gn(n) => (format!("gn({n})"), chars_t(&got)),
                    ROp::Gall => ("gall".to_string(), term::cmp("-", vec![term::int(got.len() as u64), chars_t(&got)])),
                    _ => ("gl".to_string(), chars_t(&got)),
                };
                let mut e = Exp::V(v);
                if at_end_before && m.past && m.eof == 0 && limit > 0 {
                    e = Exp::OneOf(vec![e, Exp::Err(perm("input", "past_end_of_stream"))]);
                }
                out.push((name, e));
            }
            ROp::Rt => {
                if c.binary {
                    continue;
                }
                // where would the read start?
                let start = if m.past && m.eof == 2 { 0 } else { m.cur };
                let at_end = start >= m.len();
                if !at_end && m.clause_from(start).is_none() {
                    continue;
                }
                match m.enter(false) {
                    Enter::Done(Exp::V(v)) => {
                        let (p, l, a) = m.pos_exp();
                        out.push(("rt".into(), Exp::TermPos(v, p, l, a)));
                    }
                    Enter::Done(e) => out.push(("rt".into(), e)),
                    Enter::Go => {
                        if m.at_end() {
                            m.past = true;
                            m.read_past_end = true;
                            let (p, l, a) = m.pos_exp();
                            out.push(("rt".into(), Exp::TermPos(term::atom("end_of_file"), p, l, a)));
                        } else {
                            let (dot_end, t) = m.clause_from(m.cur).unwrap();
                            // the end token, plus the newline that directly follows it
                            let stop = if dot_end < m.len() && m.bytes[dot_end] == b'\n' { dot_end + 1 } else { dot_end };
                            let nl = m.bytes[m.cur..stop].iter().filter(|b| **b == b'\n').count() as u64;
                            let n = stop - m.cur;
                            m.advance(n);
                            m.lines += nl;
                            if let Some(a) = m.lines_alt.as_mut() {
                                *a += nl;
                            }
                            if nl > 0 {
                                m.pos_after_newline = true;
                            }
                            let (p, l, a) = m.pos_exp();
                            out.push(("rt".into(), Exp::TermPos(t, p, l, a)));
                        }
                    }
                }
            }
            ROp::Ae => {
                let v = m.at_end() || m.past;
                out.push(("ae".into(), Exp::V(term::atom(if v { "true" } else { "false" }))));
            }
            ROp::Eos => {
                let v = if m.past {
                    "past"
                } else if m.at_end() {
                    "at"
                } else {
                    "not"
                };
                out.push(("eos".into(), Exp::V(term::atom(v))));
            }
            ROp::Pos => {
                if m.newline_consumed {
                    m.pos_after_newline = true;
                }
                let (p, l, a) = m.pos_exp();
                out.push(("pos".into(), Exp::Pos(p, l, a)));
            }
            ROp::Save(k) => {
                let (p, l, a) = m.pos_exp();
                // what is saved is the term the implementation returns; its line count is the
                // implementation's one when the two differ
                m.saved.insert(*k, (m.cur, a.unwrap_or(m.lines)));
                out.push((format!("save({k})"), Exp::Pos(p, l, a)));
            }
            ROp::Restore(k) => {
                let Some((cur, lines)) = m.saved.get(k).cloned() else { continue };
                if !m.reposition {
                    out.push((format!("restore({k})"), Exp::Err(perm("reposition", "stream"))));
                    continue;
                }
                // the position term that was saved comes back as the value of the step
                out.push((format!("restore({k})"), Exp::Pos(cur as u64, Some(lines), None)));
                let before = m.lines_alt.unwrap_or(m.lines);
                m.cur = cur;
                m.past = false;
                m.lines = lines;
                m.lines_alt = if before != lines { Some(before) } else { None };
                m.repositioned = true;
            }
            ROp::Wrong => {
                if c.binary {
                    out.push(("gc".into(), Exp::Err(perm("input", "binary_stream"))));
                } else {
                    out.push(("gb".into(), Exp::Err(perm("input", "text_stream"))));
                }
            }
        }
    }
    out
}

// ---------------------------------------------------------------------------------------------
// judge

fn pos_term(p: u64, l: u64) -> T {
    term::cmp("position_and_lines_read", vec![term::int(p), term::int(l)])
}

/// Ok(None) = as expected; Ok(Some(sig)) = only the known line-count deviation; Err = mismatch
fn judge_one(exp: &Exp, got: &T) -> Result<Option<String>, String> {
    let v = |t: &T| term::cmp("v", vec![t.clone()]);
    match exp {
        Exp::V(t) => {
            if got.identical(&v(t)) {
                Ok(None)
            } else {
                Err(format!("expected {} got {}", v(t).text(), got.text()))
            }
        }
        Exp::Err(formal) => match got {
            T::Cmp(n, args) if n == "ex" && args.len() == 1 => match &args[0] {
                T::Cmp(e, eargs) if e == "error" && eargs.len() == 2 && strip_alias(&eargs[0]).identical(formal) => Ok(None),
                other => Err(format!("expected error {} got ball {}", formal.text(), other.text())),
            },
            other => Err(format!("expected error {} got {}", formal.text(), other.text())),
        },
        Exp::Pos(p, l, alt) => {
            let Some(l) = l else { return Ok(None) };
            if got.identical(&v(&pos_term(*p, *l))) {
                return Ok(None);
            }
            if let Some(a) = alt {
                if got.identical(&v(&pos_term(*p, *a))) {
                    return Ok(Some("position:lines-not-restored-by-set_stream_position".into()));
                }
            }
            Err(format!("expected {} got {}", v(&pos_term(*p, *l)).text(), got.text()))
        }
        Exp::TermPos(t, p, l, alt) => {
            let mk = |l: u64| v(&term::cmp("-", vec![t.clone(), pos_term(*p, l)]));
            let Some(l) = l else { return Ok(None) };
            if got.identical(&mk(*l)) {
                return Ok(None);
            }
            if let Some(a) = alt {
                if got.identical(&mk(*a)) {
                    return Ok(Some("position:lines-not-restored-by-set_stream_position".into()));
                }
            }
            Err(format!("expected {} got {}", mk(*l).text(), got.text()))
        }
        Exp::Any => Ok(None),
        Exp::Alt(main, alt, sig) => match judge_one(main, got) {
            Ok(x) => Ok(x),
            Err(m) => match judge_one(alt, got) {
                Ok(_) => Ok(Some(sig.to_string())),
                Err(_) => Err(m),
            },
        },
        Exp::OneOf(es) => {
            let mut last = String::new();
            for e in es {
                match judge_one(e, got) {
                    Ok(x) => return Ok(x),
                    Err(m) => last = m,
                }
            }
            Err(last)
        }
    }
}

/// a stream with an alias is named by its alias in error terms
fn strip_alias(f: &T) -> T {
    match f {
        T::Cmp(n, a) if n == "permission_error" && a.len() == 3 && matches!(&a[2], T::Atom(_)) => term::cmp("permission_error", vec![a[0].clone(), a[1].clone(), term::atom("$s")]),
        other => other.clone(),
    }
}

fn list_items(t: &T) -> Option<Vec<T>> {
    match t.norm() {
        T::Atom(a) if a == "[]" => Some(vec![]),
        T::PList(items, tail) if tail.is_nil() => Some(items),
        _ => None,
    }
}

pub struct Env {
    pub s: Session,
}

pub fn mk_env() -> Env {
    let mut s = Session::new(&["charsio", "format"]);
    if !s.consult(C19_PL, "c19") {
        panic!("c19.pl rejected");
    }
    Env { s }
}

fn open_opts(c: &Case, read: bool) -> String {
    let mut v = vec![format!("type({})", if c.binary { "binary" } else { "text" })];
    if read {
        v.push(format!("eof_action({})", EOF_ACTIONS[c.eof as usize % 3]));
        v.push(format!("reposition({})", c.reposition));
        let k = c.opt_order as usize % 6;
        // one of the six orders
        let perms = [[0, 1, 2], [0, 2, 1], [1, 0, 2], [1, 2, 0], [2, 0, 1], [2, 1, 0]];
        let p = perms[k];
        v = vec![v[p[0]].clone(), v[p[1]].clone(), v[p[2]].clone()];
    } else if !c.binary && c.opt_order % 2 == 0 {
        v.clear(); // text is the default
    }
    format!("[{}]", v.join(","))
}

/// Runs one read script and judges it. Err = (signature, detail) of the first mismatch; known
/// deviations are recorded in `known`.
fn run_reads(env: &mut Env, goal_prefix: &str, plan: &[(String, Exp)], what: &str, bytes: &[u8], c: &Case, known: &mut Option<(String, String)>) -> Result<(), (String, String)> {
    let script = plan.iter().map(|(s, _)| s.clone()).collect::<Vec<_>>().join(",");
    let or = env.s.ask_once(&format!("{goal_prefix}[{script}], Rc)"), "Rc");
    let rres = match &or {
        Outcome::Panic(p) => return Err((format!("panic:{}", p.split_whitespace().next().unwrap_or("?")), format!("{what}: read phase panicked: {p}"))),
        Outcome::Sols(v) if v.len() == 1 => match list_items(&v[0]) {
            Some(a) => a,
            None => return Err(("harness:read-result-shape".into(), format!("{what}: {}", or.short()))),
        },
        other => return Err(("read-phase:escaped".into(), format!("{what}: read phase gave {}", other.short()))),
    };
    if rres.len() != plan.len() {
        return Err(("harness:read-result-length".into(), format!("{what}: {} results for {} steps", rres.len(), plan.len())));
    }
    for (i, ((name, e), got)) in plan.iter().zip(rres.iter()).enumerate() {
        match judge_one(e, got) {
            Ok(None) => {}
            Ok(Some(sig)) => {
                if known.is_none() {
                    *known = Some((sig, format!("{what}: read step {i} `{name}` of [{script}] gave {} (content {:?})", got.text(), String::from_utf8_lossy(bytes))));
                }
            }
            Err(why) => {
                let opn = name.split('(').next().unwrap_or("?");
                let state = if c.binary { "binary" } else { "text" };
                return Err((format!("read-step:{opn}:{state}:{}", EOF_ACTIONS[c.eof as usize % 3]), format!("{what}: read step {i} `{name}` of [{script}]: {why} (content {:?})", String::from_utf8_lossy(bytes))));
            }
        }
    }
    Ok(())
}

pub fn check(env: &mut Env, c: &Case) -> Verdict {
    let sc = Scratch::new("c19");
    let path = sc.path_str("f.dat");
    let patom = T::Atom(path.clone()).text();
    let split = (c.split as usize).min(c.items.len());
    let w1 = plan_write(c, &c.items[..split], 0);
    let w2 = plan_write(c, &c.items[split..], w1.bytes.len());
    let mut bytes = w1.bytes.clone();
    bytes.extend_from_slice(&w2.bytes);
    let mut clauses = w1.clauses.clone();
    clauses.extend(w2.clauses.clone());
    let mut m = Model {
        bytes: &bytes,
        binary: c.binary,
        eof: c.eof % 3,
        reposition: c.reposition,
        cur: 0,
        past: false,
        lines: 0,
        lines_alt: None,
        saved: HashMap::new(),
        clauses: &clauses,
        peek_before_multibyte: false,
        read_past_end: false,
        pos_after_newline: false,
        newline_consumed: false,
        repositioned: false,
        resets: 0,
        quirk: false,
        blind: false,
    };
    let rplan = plan_reads(c, &mut m);
    let join = |ops: &[(String, Exp)]| ops.iter().map(|(s, _)| s.clone()).collect::<Vec<_>>().join(",");
    let use_append = split < c.items.len();
    let wgoal = format!(
        "c19_write_file({patom}, {wo}, [{o1}], Ra), {app}",
        wo = open_opts(c, false),
        o1 = join(&w1.ops),
        app = if use_append { format!("c19_append_file({patom}, {}, [{}], Rb)", open_opts(c, false), join(&w2.ops)) } else { "Rb = []".to_string() },
    );
    let rgoal_prefix = format!("c19_read_file({patom}, {ro}, ", ro = open_opts(c, true));
    let what = format!("script [{}]{} then read {} [{}]", join(&w1.ops), if use_append { format!(" ++append [{}]", join(&w2.ops)) } else { String::new() }, open_opts(c, true), join(&rplan));
    let ow = env.s.ask_once(&wgoal, "Ra-Rb");
    let (ra, rb) = match &ow {
        Outcome::Panic(p) => return Verdict::fail(format!("panic:{}", p.split_whitespace().next().unwrap_or("?")), format!("{what}: write phase panicked: {p}")),
        Outcome::Sols(v) if v.len() == 1 => match &v[0] {
            T::Cmp(n, args) if n == "-" && args.len() == 2 => match (list_items(&args[0]), list_items(&args[1])) {
                (Some(a), Some(b)) => (a, b),
                _ => return Verdict::Discard("harness:write-result-shape".into()),
            },
            _ => return Verdict::Discard("harness:write-result-shape".into()),
        },
        other => return Verdict::fail("write-phase:escaped", format!("{what}: write phase gave {}", other.short())),
    };
    let mut wres = ra;
    wres.extend(rb);
    let wexp: Vec<&(String, Exp)> = w1.ops.iter().chain(w2.ops.iter()).collect();
    if wres.len() != wexp.len() {
        return Verdict::Discard("harness:write-result-length".into());
    }
    for (i, ((name, e), got)) in wexp.iter().zip(wres.iter()).enumerate() {
        if let Err(why) = judge_one(e, got) {
            let opn = name.split('(').next().unwrap_or("?");
            return Verdict::fail(format!("write-step:{opn}"), format!("{what}: write step {i} `{name}`: {why}"));
        }
    }
    let file = match std::fs::read(&path) {
        Ok(b) => b,
        Err(e) => return Verdict::fail("write-phase:no-file", format!("{what}: the file does not exist after the write phase: {e}")),
    };
    if file != bytes {
        return Verdict::fail("write-bytes:differ", format!("{what}: file holds {:?} but the operations describe {:?}", String::from_utf8_lossy(&file), String::from_utf8_lossy(&bytes)));
    }
    // read phase
    let mut known: Option<(String, String)> = None;
    if let Err((sig, detail)) = run_reads(env, &rgoal_prefix, &rplan, &what, &bytes, c, &mut known) {
        // is the known U+FEFF defect the whole explanation? re-plan with the quirk model and run
        // the read phase again against it
        if !c.binary && bytes.windows(3).any(|w| w == [0xEF, 0xBB, 0xBF]) {
            let mut q = Model {
                bytes: &bytes,
                binary: c.binary,
                eof: c.eof % 3,
                reposition: c.reposition,
                cur: 0,
                past: false,
                lines: 0,
                lines_alt: None,
                saved: HashMap::new(),
                clauses: &clauses,
                peek_before_multibyte: false,
                read_past_end: false,
                pos_after_newline: false,
                newline_consumed: false,
                repositioned: false,
                resets: 0,
                quirk: true,
                blind: false,
            };
            let qplan = plan_reads(c, &mut q);
            let mut k2 = None;
            if run_reads(env, &rgoal_prefix, &qplan, &what, &bytes, c, &mut k2).is_ok() {
                return Verdict::fail("bom:u+feff-dropped-by-get-predicates", detail);
            }
        }
        if sig.starts_with("harness:") {
            return Verdict::Discard(sig);
        }
        return Verdict::fail(sig, detail);
    }
    // the file must be unchanged by reading
    if std::fs::read(&path).ok().as_deref() != Some(&bytes[..]) {
        return Verdict::fail("read-phase:file-changed", format!("{what}: the file changed while it was read"));
    }
    if let Some((sig, detail)) = known {
        return Verdict::fail(sig, detail);
    }
    let mut classes: Vec<&str> = vec![];
    classes.push(if c.binary { "binary" } else { "text" });
    classes.push(match c.eof % 3 {
        0 => "eof_action:error",
        1 => "eof_action:eof_code",
        _ => "eof_action:reset",
    });
    if m.peek_before_multibyte {
        classes.push("peek-before-multibyte");
    }
    if m.read_past_end {
        classes.push("read-at-or-past-end");
    }
    if m.pos_after_newline {
        classes.push("position-after-newline");
    }
    if m.repositioned {
        classes.push("repositioned");
    }
    if m.resets > 0 {
        classes.push("reset-taken");
    }
    if use_append {
        classes.push("append-mode");
    }
    if rplan.iter().any(|(n, _)| n == "rt") {
        classes.push("read_term");
    }
    if bytes.is_empty() {
        classes.push("empty-file");
    }
    if !bytes.is_ascii() && !c.binary {
        classes.push("multibyte-content");
    }
    let nontrivial = if c.binary { m.read_past_end && rplan.len() >= 3 } else { m.peek_before_multibyte && m.read_past_end && m.pos_after_newline };
    Verdict::pass(nontrivial, &classes)
}

/// In-memory variant: the modelled content is the machine's user_input (built from a string), the
/// read script runs on it with the default options (text, eof_code, no reposition).
pub fn check_mem(_env: &mut (), c0: &Case) -> Verdict {
    let c = &Case { binary: false, eof: 1, reposition: false, split: 255, ..c0.clone() };
    let w1 = plan_write(c, &c.items, 0);
    let bytes = w1.bytes.clone();
    let clauses = w1.clauses.clone();
    let Ok(text) = String::from_utf8(bytes.clone()) else { return Verdict::Discard("harness:payload-not-utf8".into()) };
    let machine = scryer_prolog::MachineBuilder::default()
        .with_streams(scryer_prolog::StreamConfig::in_memory().with_user_input(scryer_prolog::InputStreamConfig::string(text)))
        .build();
    let mut s = Session::with_machine(machine, &["charsio", "format"]);
    if !s.consult(C19_PL, "c19") {
        return Verdict::Discard("harness:c19.pl rejected".into());
    }
    let mut env = Env { s };
    let mut m = Model {
        bytes: &bytes,
        binary: false,
        eof: 1,
        reposition: false,
        cur: 0,
        past: false,
        lines: 0,
        lines_alt: None,
        saved: HashMap::new(),
        clauses: &clauses,
        peek_before_multibyte: false,
        read_past_end: false,
        pos_after_newline: false,
        newline_consumed: false,
        repositioned: false,
        resets: 0,
        quirk: false,
        blind: false,
    };
    let rplan = plan_reads(c, &mut m);
    let what = format!("user_input built from the string {:?}, read script", String::from_utf8_lossy(&bytes));
    let mut known: Option<(String, String)> = None;
    if let Err((sig, detail)) = run_reads(&mut env, "c19_read_user(", &rplan, &what, &bytes, c, &mut known) {
        if sig.starts_with("harness:") {
            return Verdict::Discard(sig);
        }
        // One root cause explains what goes wrong on an in-memory input stream once its reader has
        // buffered the content: Stream::position and the end-of-stream test look at the cursor of
        // the underlying buffer, not at what has been consumed. The model cannot follow that; the
        // failure is classified by the kind of step that went wrong first.
        let step = sig.split(':').nth(1).unwrap_or("?");
        let class = match step {
            "pos" | "save" | "rt" => "position",
            "ae" | "eos" => "end-test",
            _ => "data",
        };
        if !bytes.is_empty() && sig.starts_with("read-step:") {
            return Verdict::fail(format!("mem:buffered-content-ignored:{class}"), detail);
        }
        return Verdict::fail(format!("mem:{sig}"), detail);
    }
    if let Some((sig, detail)) = known {
        return Verdict::fail(format!("mem:{sig}"), detail);
    }
    let mut classes: Vec<&str> = vec!["memory-stream"];
    if m.peek_before_multibyte {
        classes.push("mem:peek-before-multibyte");
    }
    if m.read_past_end {
        classes.push("mem:read-at-or-past-end");
    }
    if rplan.iter().any(|(n, _)| n == "rt") {
        classes.push("mem:read_term");
    }
    Verdict::pass(m.read_past_end && rplan.len() >= 3 && !bytes.is_empty(), &classes)
}

pub struct C19;

impl Prop for C19 {
    fn id(&self) -> &'static str {
        "C19"
    }
    fn rule(&self) -> &'static str {
        "write script (0-16 steps of put_char, put_code, nl, write, writeq, write_canonical, format with ~a ~d ~w ~s ~n ~~ ~c, clauses `term.` + layout, put_byte, flush, wrong-type output; optionally continued in append mode) on a file stream, the file compared byte by byte with the modelled output; then a read script (0-30 steps of get_char, peek_char, get_code, peek_code (also with bound arguments), get_byte, peek_byte, get_n_chars (bound and unbound count), get_line_to_chars, read_term at clause starts and at the end, at_end_of_stream, stream_property position / end_of_stream, saving a position and set_stream_position back to it, wrong-type input) with options type(text|binary) x eof_action(error|eof_code|reset) x reposition(bool) against a model stream (bytes, cursor, past-end flag, lines read by read_term); payload alphabet covers 1-4 byte UTF-8 incl. the boundary code points, newlines, CR, controls; a second, smaller stream of cases runs the same read scripts on an in-memory stream (user_input of a machine built from the content as a string; text, eof_code, no reposition); non-trivial = text: a peek directly before a multi-byte character AND a read at/past the end AND a position query after a consumed newline; binary and in-memory: a read at/past the end in a script of >= 3 steps; distinct by case encoding"
    }
    fn assumptions(&self) -> Vec<String> {
        vec![
            "std::fs reads the scratch file the machine wrote".into(),
            "write/writeq/write_canonical of plain terms (lower-case alphanumeric atoms that are not operators, integers, compounds and lists of those) print the canonical text; the printer itself is C15's subject".into(),
            "where library documentation is silent the observed behaviour is the reference (see the header of c19.rs): bytes as the unit of P, lines counted by read_term only, eof_action(reset) re-reads a file from the start".into(),
        ]
    }
    fn run_shard(&self, cfg: &ShardCfg) -> ShardResult {
        let mut d = Driver::new(cfg, "C19");
        let n = cfg.share(cfg.tier.pick(8_000, 400_000));
        d.run("script", 0, n, 300, case_strategy(), &mk_env, &check);
        // in-memory stream: a machine per case (0.2 s), hence few cases
        let nm = cfg.share(cfg.tier.pick(480, 24_000));
        d.run("mem", 1, nm, 1, case_strategy(), &|| (), &check_mem);
        d.finish()
    }
    fn replay(&self, kind: &str, case: &Value) -> Verdict {
        match kind {
            "mem" => replay_case::<Case, ()>(case, &|| (), &check_mem),
            _ => replay_case::<Case, Env>(case, &mk_env, &check),
        }
    }
}
